use std::io::{BufRead, Write};
use std::sync::{Arc, Mutex};
use std::time::{Duration, Instant};
use varlink::ConnectionHandler;

struct Slow { t0: Instant, starts: Arc<Mutex<Vec<u128>>> }
impl ConnectionHandler for Slow {
    fn handle(&self, _r: &mut dyn BufRead, _w: &mut dyn Write, _u: Option<String>) -> varlink::Result<(Vec<u8>, Option<String>)> {
        self.starts.lock().unwrap().push(self.t0.elapsed().as_millis());
        std::thread::sleep(Duration::from_millis(3000));
        Err(varlink::context!(varlink::ErrorKind::ConnectionClosed))
    }
}

#[test]
fn d_is_not_stranded() {
    let starts = Arc::new(Mutex::new(Vec::new()));
    let t0 = Instant::now();
    let h = Slow { t0, starts: starts.clone() };
    let addr = "unix:@c14probe_strand";
    std::thread::spawn(move || {
        let _ = varlink::listen(h, addr, &varlink::ListenConfig { initial_worker_threads: 3, max_worker_threads: 10, idle_timeout: 8, stop_listening: None });
    });
    std::thread::sleep(Duration::from_millis(200));
    use std::os::linux::net::SocketAddrExt;
    let sa = std::os::unix::net::SocketAddr::from_abstract_name("c14probe_strand").unwrap();
    let base = Instant::now();
    let mut conns = Vec::new();
    conns.push(std::os::unix::net::UnixStream::connect_addr(&sa).unwrap());           // A at 0
    std::thread::sleep(Duration::from_millis(400));
    conns.push(std::os::unix::net::UnixStream::connect_addr(&sa).unwrap());           // B
    conns.push(std::os::unix::net::UnixStream::connect_addr(&sa).unwrap());           // C
    std::thread::sleep(Duration::from_millis(100));
    conns.push(std::os::unix::net::UnixStream::connect_addr(&sa).unwrap());           // D at 500
    let d_sent = base.elapsed().as_millis();
    for c in conns.iter_mut() { let _ = c.write_all(b"x"); }
    std::thread::sleep(Duration::from_millis(2000));
    let s = starts.lock().unwrap().clone();
    eprintln!("handler start times (ms since server start): {:?}; D connected at ~{} ms", s, d_sent + 200);
    // 3 workers exist, max is 10: four connections must all be in service well before any of them finishes (3 s)
    assert_eq!(s.len(), 4, "D was left waiting in the queue although workers ({}) < max (10)", 3);
}
