// tiny resolver: resolves org.example.ping to argv[2]; listens on argv[1]
use varlink_stdinterfaces::org_varlink_resolver as r;
struct Res { ping: String }
impl r::VarlinkInterface for Res {
    fn get_info(&self, call: &mut dyn r::Call_GetInfo) -> varlink::Result<()> {
        call.reply("probe".into(), "probe-resolver".into(), "1".into(), "u".into(), vec!["org.example.ping".into()])
    }
    fn resolve(&self, call: &mut dyn r::Call_Resolve, interface: String) -> varlink::Result<()> {
        if interface == "org.example.ping" { call.reply(self.ping.clone()) } else { call.reply_interface_not_found(interface) }
    }
}
fn main() {
    let a: Vec<String> = std::env::args().collect();
    let svc = varlink::VarlinkService::new("probe", "probe-resolver", "1", "u", vec![Box::new(r::new(Box::new(Res { ping: a[2].clone() })))]);
    let _ = varlink::listen(svc, &a[1], &varlink::ListenConfig { idle_timeout: 20, ..Default::default() });
}
