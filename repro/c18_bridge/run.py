import subprocess, time, os, sys, socket
D="/var/tmp/c18"
RES="unix:%s/resolver.sock"%D; PING="unix:%s/ping.sock"%D
for f in ("resolver.sock","ping.sock"):
    try: os.remove(os.path.join(D,f))
    except OSError: pass
procs=[subprocess.Popen([D+"/tgt/debug/c18probe",RES,PING],stderr=subprocess.DEVNULL),
       subprocess.Popen(["/repo/target/debug/ping","--varlink="+PING],stderr=subprocess.DEVNULL,stdout=subprocess.DEVNULL)]
time.sleep(0.5)
def bridge(inp, wait=1.0, args=()):
    p=subprocess.Popen(["/repo/target/debug/varlink","-R",RES,"bridge",*args],stdin=subprocess.PIPE,stdout=subprocess.PIPE,stderr=subprocess.PIPE)
    p.stdin.write(inp); p.stdin.flush()
    time.sleep(wait)
    try: p.stdin.close()
    except Exception: pass
    p.stdin=None
    try: out,err=p.communicate(timeout=5)
    except subprocess.TimeoutExpired:
        p.kill(); out,err=p.communicate()
    return out,err,p.returncode
def direct(addr, inp, wait=0.6):
    s=socket.socket(socket.AF_UNIX); s.connect(addr[5:]); s.sendall(inp); time.sleep(wait); s.shutdown(socket.SHUT_WR)
    out=b""
    s.settimeout(3)
    try:
        while True:
            b=s.recv(65536)
            if not b: break
            out+=b
    except Exception: pass
    return out
try:
    print("== (a) GetInfo through the bridge with -R", RES)
    o,e,rc=bridge(b'{"method":"org.varlink.service.GetInfo"}\0')
    print("   bridge stdout:",o[:200]); print("   rc",rc, "stderr", e[:200])
    print("== (b) unknown interface followed by a valid call")
    seq=b'{"method":"org.unknown.Foo"}\0{"method":"org.example.ping.Ping","parameters":{"ping":"x"}}\0'
    print("   direct :",direct(PING,seq))
    o,e,rc=bridge(seq); print("   bridged:",o, "rc",rc, e[:200])
    print("== (c) bytes pipelined behind an upgrade request")
    seq=b'{"method":"org.example.ping.Upgrade","upgrade":true}\0test test\nEnd\n'
    print("   direct :",direct(PING,seq))
    o,e,rc=bridge(seq,wait=1.5); print("   bridged:",o, "rc",rc, e[:300])
finally:
    for p in procs: p.kill()
