// One-off demonstrations of the defects repaired by the "fix:" commits in /repo
// (see /verif/known_findings.json). These are NOT checks: the checks are static
// (./vcheck). Run: cd /verif/repro/probe && CARGO_TARGET_DIR=/var/tmp/probe-tgt cargo test --offline
use std::io::{BufRead, Read, Write};
use std::sync::atomic::{AtomicUsize, Ordering};
use std::sync::{Arc, Mutex};
use varlink::{Call, ConnectionHandler, VarlinkService};

fn service() -> VarlinkService {
    VarlinkService::new("v", "p", "1", "u", vec![])
}

#[test]
fn c01_nodot_does_not_abandon_pipelined_request() {
    let s = service();
    let input = b"{\"method\":\"nodot\"}\0{\"method\":\"org.varlink.service.GetInfo\"}\0";
    let mut out = Vec::new();
    let (tail, up) = s.handle(&mut &input[..], &mut out, None).unwrap();
    assert!(tail.is_empty() && up.is_none());
    let replies: Vec<&[u8]> = out.split(|b| *b == 0).filter(|r| !r.is_empty()).collect();
    assert_eq!(replies.len(), 2, "both pipelined requests must be answered: {}", String::from_utf8_lossy(&out));
}

#[test]
fn c04_oneway_gets_no_reply() {
    let s = service();
    for req in [
        &b"{\"method\":\"org.varlink.service.GetInfo\",\"oneway\":true}\0"[..],
        &b"{\"method\":\"org.unknown.Foo\",\"oneway\":true}\0"[..],
        &b"{\"method\":\"org.varlink.service.Nope\",\"oneway\":true}\0"[..],
        &b"{\"method\":\"nodot\",\"oneway\":true}\0"[..],
    ] {
        let mut out = Vec::new();
        s.handle(&mut &req[..], &mut out, None).unwrap();
        assert!(out.is_empty(), "oneway produced {}", String::from_utf8_lossy(&out));
    }
}

#[test]
fn c11_first_element_must_not_end_with_hyphen() {
    assert!(varlink_parser::IDL::try_from("interface a-.b\nmethod F()->()").is_err());
    assert!(varlink_parser::IDL::try_from("interface a-b.c\nmethod F()->()").is_ok());
    assert!(varlink_parser::IDL::try_from("interface xn--lgbbat1ad8j.example.algeria\nmethod F()->()").is_ok());
}

#[test]
fn c17_string_set_from_text() {
    let s: varlink::StringHashSet = serde_json::from_str("{\"a\":{},\"b\":{}}").unwrap();
    assert_eq!(s.len(), 2);
    let v: varlink::StringHashSet = serde_json::from_value(serde_json::json!({"a":{},"b":{}})).unwrap();
    assert_eq!(s, v);
}

struct Slow { cur: AtomicUsize, max: AtomicUsize }
impl ConnectionHandler for Slow {
    fn handle(&self, r: &mut dyn BufRead, _w: &mut dyn Write, _u: Option<String>) -> varlink::Result<(Vec<u8>, Option<String>)> {
        let c = self.cur.fetch_add(1, Ordering::SeqCst) + 1;
        self.max.fetch_max(c, Ordering::SeqCst);
        std::thread::sleep(std::time::Duration::from_millis(600));
        self.cur.fetch_sub(1, Ordering::SeqCst);
        let mut sink = Vec::new();
        let _ = r.read_to_end(&mut sink);
        Ok((Vec::new(), None))
    }
}
struct Shared(Arc<Slow>);
impl ConnectionHandler for Shared {
    fn handle(&self, r: &mut dyn BufRead, w: &mut dyn Write, u: Option<String>) -> varlink::Result<(Vec<u8>, Option<String>)> { self.0.handle(r, w, u) }
}

#[test]
fn c14_pool_respects_max() {
    let slow = Arc::new(Slow { cur: AtomicUsize::new(0), max: AtomicUsize::new(0) });
    let addr = format!("unix:@probe_c14_{}", std::process::id());
    let stop = Arc::new(std::sync::atomic::AtomicBool::new(false));
    let (a2, s2, st2) = (addr.clone(), slow.clone(), stop.clone());
    let t = std::thread::spawn(move || {
        let _ = varlink::listen(Shared(s2), &a2, &varlink::ListenConfig { initial_worker_threads: 1, max_worker_threads: 1, idle_timeout: 0, stop_listening: Some(st2) });
    });
    std::thread::sleep(std::time::Duration::from_millis(300));
    let conns: Vec<_> = (0..3).map(|_| varlink::Connection::with_address(&addr).unwrap()).collect();
    std::thread::sleep(std::time::Duration::from_millis(500));
    drop(conns);
    std::thread::sleep(std::time::Duration::from_millis(2500));
    stop.store(true, Ordering::SeqCst);
    t.join().unwrap();
    assert_eq!(slow.max.load(Ordering::SeqCst), 1, "max_worker_threads: 1 must serve one connection at a time");
}

struct Up { seen: Arc<Mutex<Vec<u8>>> }
impl varlink::Interface for Up {
    fn get_description(&self) -> &'static str { "interface x.y\nmethod Up() -> ()" }
    fn get_name(&self) -> &'static str { "x.y" }
    fn call_upgraded(&self, _call: &mut Call, r: &mut dyn BufRead) -> varlink::Result<Vec<u8>> {
        let mut buf = Vec::new();
        r.read_to_end(&mut buf).unwrap();
        self.seen.lock().unwrap().extend_from_slice(&buf);
        Ok(Vec::new())
    }
    fn call(&self, call: &mut Call) -> varlink::Result<()> {
        use varlink::CallTrait;
        call.to_upgraded();
        call.reply_struct(varlink::Reply::parameters(None))
    }
}

#[test]
fn c02_bytes_behind_upgrade_reach_upgraded_handler() {
    let seen = Arc::new(Mutex::new(Vec::new()));
    let svc = VarlinkService::new("v", "p", "1", "u", vec![Box::new(Up { seen: seen.clone() })]);
    let addr = format!("unix:@probe_c02_{}", std::process::id());
    let stop = Arc::new(std::sync::atomic::AtomicBool::new(false));
    let (a2, st2) = (addr.clone(), stop.clone());
    let t = std::thread::spawn(move || {
        let _ = varlink::listen(svc, &a2, &varlink::ListenConfig { stop_listening: Some(st2), ..Default::default() });
    });
    std::thread::sleep(std::time::Duration::from_millis(300));
    {
        use std::os::linux::net::SocketAddrExt;
        let sa = std::os::unix::net::SocketAddr::from_abstract_name(&addr["unix:@".len()..]).unwrap();
        let mut s = std::os::unix::net::UnixStream::connect_addr(&sa).unwrap();
        s.write_all(b"{\"method\":\"x.y.Up\",\"upgrade\":true}\0PAYLOAD\n").unwrap();
        s.shutdown(std::net::Shutdown::Write).unwrap();
        let mut reply = Vec::new();
        s.read_to_end(&mut reply).unwrap();
        assert_eq!(reply, b"{}\0");
    }
    stop.store(true, Ordering::SeqCst);
    t.join().unwrap();
    assert_eq!(&*seen.lock().unwrap(), b"PAYLOAD\n", "bytes pipelined behind the upgrade request were lost");
}

#[test]
fn c16_bridge_descriptor_has_one_owner() {
    // before the fix a debug build aborted here (IO safety: fd closed twice)
    let c = varlink::Connection::with_bridge("cat >/dev/null").unwrap();
    drop(c);
}
