#!/usr/bin/env python3
"""Applies every seeded change under /verif/seeded/<id>/patch.diff to a scratch copy of /repo, runs all 20 checks against it
and records which rules fire (seeded/matrix.json, seeded/MATRIX.md). Never touches /repo. usage: seedmatrix.py [id ...]"""
import json, os, re, shutil, subprocess, sys, tempfile
HERE = os.path.dirname(os.path.dirname(os.path.abspath(__file__)))
SEEDED = os.path.join(HERE, "seeded")
PROPS = ["C%02d" % i for i in range(1, 21)]

def run_one(sid):
    d = os.path.join(SEEDED, sid)
    patch = os.path.join(d, "patch.diff")
    scratch = tempfile.mkdtemp(prefix="vrf-seed.", dir="/var/tmp")
    ev = tempfile.mkdtemp(prefix="vrf-seedev.", dir="/var/tmp")
    try:
        subprocess.run(["rsync", "-a", "--exclude", "target", "/repo/", scratch + "/"], check=True)
        r = subprocess.run(["git", "apply", patch], cwd=scratch, capture_output=True, text=True)
        if r.returncode != 0: return dict(id=sid, error="patch does not apply: " + r.stderr[:200])
        fired = {}
        env = dict(os.environ, VERIF_EVIDENCE_DIR=ev, VERIF_CACHE_KEEP="40")
        for p in PROPS:
            out = subprocess.run([os.path.join(HERE, "vcheck"), p, "--repo", scratch], capture_output=True, text=True, env=env).stdout
            rules = sorted(set(re.findall(r"^VIOLATION property=\S+ replay=\S+ rule=(\S+) key=(.*?) site=", out, flags=re.M)))
            if rules: fired[p] = [dict(rule=a, key=b) for a, b in rules]
        return dict(id=sid, fired=fired)
    finally:
        shutil.rmtree(scratch, ignore_errors=True); shutil.rmtree(ev, ignore_errors=True)

def main(argv):
    ids = argv or sorted(x for x in os.listdir(SEEDED) if os.path.exists(os.path.join(SEEDED, x, "patch.diff")))
    mp = os.path.join(SEEDED, "matrix.json")
    res = json.load(open(mp)) if os.path.exists(mp) else {}
    from concurrent.futures import ThreadPoolExecutor, as_completed
    jobs = int(os.environ.get("VERIF_JOBS", "6"))
    with ThreadPoolExecutor(max_workers=jobs) as ex:
        futs = {ex.submit(run_one, sid): sid for sid in ids}
        for fu in as_completed(futs):
            sid = futs[fu]
            r = fu.result(); res[sid] = r
            print(sid, {k: sorted({x["rule"] for x in v}) for k, v in r.get("fired", {}).items()} or r.get("error", "NOT DETECTED"), flush=True)
            json.dump(res, open(mp, "w"), indent=1, sort_keys=True)
    lines = ["| seeded change | breaks | summary | caught by (own property) | also flagged by |", "|---|---|---|---|---|"]
    for sid in sorted(res):
        meta = {}
        try: meta = json.load(open(os.path.join(SEEDED, sid, "meta.json")))
        except Exception: pass
        prop = meta.get("property", sid[:3])
        f = res[sid].get("fired", {})
        own = ", ".join(sorted({x["rule"] for x in f.get(prop, [])})) or "**not detected**"
        other = ", ".join(sorted({x["rule"] for p, v in f.items() if p != prop for x in v})) or "–"
        lines.append("| %s | %s | %s | %s | %s |" % (sid, prop, (meta.get("summary", "") or "").replace("|", "/").replace("\n", " ")[:140], own, other))
    open(os.path.join(SEEDED, "MATRIX.md"), "w").write("\n".join(lines) + "\n")

if __name__ == "__main__":
    main(sys.argv[1:])
