# executed by gen_manifest.py
claim("C01",
      "Decides, for all inputs at once, the structural clauses of C01: no Ok-return of handle() abandons requests buffered in its inner reader (tail provenance), every parsed message is dispatched exactly once, every path of the library's and the generated dispatchers produces exactly one reply (or returns Err, which closes the connection), and a handler error always shuts the stream down and leaves the worker loop. It does not decide what user-written interface methods do, nor byte-level reply order on a socket.",
      "rustc nightly MIR (mir-opt-level=0) is the program; intra-procedural slices with an enumerated list of value-preserving callees; user implementations of interface methods are out of scope",
      "MIR path enumeration + dominance + backward slicing (custom rustc_private driver)")
