#!/usr/bin/env python3
"""prints the rule descriptions registered by every rules/Cxx.py (used to keep DESIGN.md section 4 in sync)"""
import ast, glob, os, sys
HERE = os.path.dirname(os.path.dirname(os.path.abspath(__file__)))
for p in sorted(glob.glob(os.path.join(HERE, "rules", "C[0-9][0-9].py"))):
    t = ast.parse(open(p).read())
    doc = ast.get_docstring(t) or ""
    print("### %s" % doc.split("\n")[0])
    for n in ast.walk(t):
        if isinstance(n, ast.Call) and isinstance(n.func, ast.Attribute) and n.func.attr == "rule" and len(n.args) == 2:
            try:
                rid = ast.literal_eval(n.args[0]); desc = ast.literal_eval(n.args[1])
                print("* **%s** %s" % (rid, desc))
            except Exception:
                pass
    print()
