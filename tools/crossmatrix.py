#!/usr/bin/env python3
"""Seeded changes on top of behaviour-preserving refactorings: for every property P, every control `controls/P-Rn` and every seeded
change `seeded/P-X` whose patch still applies (3-way) after the control's patch, run P's check against the combined tree. The check
must report a violation there too: a rule that only recognises today's spelling of the code would go quiet.
Writes controls/CROSS.md and controls/cross.json. Never touches /repo. usage: crossmatrix.py [Cxx ...]"""
import json, os, re, shutil, subprocess, sys, tempfile
HERE = os.path.dirname(os.path.dirname(os.path.abspath(__file__)))
SEEDED = os.path.join(HERE, "seeded"); CONTROLS = os.path.join(HERE, "controls")


def run_one(cid, sid):
    prop = cid[:3]
    scratch = tempfile.mkdtemp(prefix="vrf-cross.", dir="/var/tmp")
    ev = tempfile.mkdtemp(prefix="vrf-crossev.", dir="/var/tmp")
    try:
        subprocess.run(["rsync", "-a", "--exclude", "target", "/repo/", scratch + "/"], check=True)
        r = subprocess.run(["git", "apply", os.path.join(CONTROLS, cid, "patch.diff")], cwd=scratch, capture_output=True, text=True)
        if r.returncode != 0: return dict(control=cid, seed=sid, status="control does not apply")
        subprocess.run(["git", "add", "-A"], cwd=scratch, capture_output=True)
        r = subprocess.run(["git", "apply", "--3way", os.path.join(SEEDED, sid, "patch.diff")], cwd=scratch, capture_output=True, text=True)
        if r.returncode != 0:
            return dict(control=cid, seed=sid, status="skipped (seed does not merge onto the refactored tree)")
        # a clean 3-way merge must not leave conflict markers
        g = subprocess.run(["git", "grep", "-l", "-e", "^<<<<<<< ", "--", "*.rs", "*.rustpeg"], cwd=scratch, capture_output=True, text=True)
        if g.stdout.strip(): return dict(control=cid, seed=sid, status="skipped (conflict)")
        env = dict(os.environ, VERIF_EVIDENCE_DIR=ev, VERIF_CACHE_KEEP="60")
        out = subprocess.run([os.path.join(HERE, "vcheck"), prop, "--repo", scratch], capture_output=True, text=True, env=env).stdout
        if "engine-failure" in out or "extraction failed" in out.lower():
            return dict(control=cid, seed=sid, status="skipped (combined tree does not build)")
        rules = sorted(set(re.findall(r"^VIOLATION property=\S+ replay=\S+ rule=(\S+) key=", out, flags=re.M)))
        return dict(control=cid, seed=sid, status="detected" if rules else "MISSED", rules=rules)
    finally:
        shutil.rmtree(scratch, ignore_errors=True); shutil.rmtree(ev, ignore_errors=True)


def main(argv):
    props = [a for a in argv if re.fullmatch(r"C\d\d", a)] or ["C%02d" % i for i in range(1, 21)]
    pairs = []
    for p in props:
        cs = sorted(c for c in os.listdir(CONTROLS) if c.startswith(p + "-") and os.path.exists(os.path.join(CONTROLS, c, "patch.diff")))
        ss = sorted(s for s in os.listdir(SEEDED) if s.startswith(p + "-") and os.path.exists(os.path.join(SEEDED, s, "patch.diff")))
        only = os.environ.get("CROSS_CONTROLS")          # e.g. "R5|R6": restrict the controls by suffix
        if only: cs = [c for c in cs if re.search(r"-(%s)$" % only, c)]
        pairs += [(c, s) for c in cs for s in ss if "%s+%s" % (c, s) not in json.load(open(os.path.join(CONTROLS, "cross.json"))) ] if os.environ.get("CROSS_SKIP_DONE") and os.path.exists(os.path.join(CONTROLS, "cross.json")) else [(c, s) for c in cs for s in ss]
    jp = os.path.join(CONTROLS, "cross.json")
    res = json.load(open(jp)) if os.path.exists(jp) else {}
    from concurrent.futures import ThreadPoolExecutor, as_completed
    with ThreadPoolExecutor(max_workers=int(os.environ.get("VERIF_JOBS", "6"))) as ex:
        futs = [ex.submit(run_one, c, s) for c, s in pairs]
        for fu in as_completed(futs):
            r = fu.result()
            res["%s+%s" % (r["control"], r["seed"])] = r
            print("%-8s + %-6s %s %s" % (r["control"], r["seed"], r["status"], r.get("rules", "")), flush=True)
            json.dump(res, open(jp, "w"), indent=1, sort_keys=True)
    det = [k for k, r in res.items() if r["status"] == "detected"]; mis = [k for k, r in res.items() if r["status"] == "MISSED"]
    lines = ["# Seeded changes applied on top of behaviour-preserving refactorings", "",
             "%d combinations merge and build; %d detected by the property's own check, %d missed." % (len(det) + len(mis), len(det), len(mis)), "",
             "| control + seed | result | rules |", "|---|---|---|"]
    for k in sorted(res):
        r = res[k]
        if r["status"] in ("detected", "MISSED"): lines.append("| %s | %s | %s |" % (k, r["status"], ", ".join(r.get("rules", [])) or "–"))
    open(os.path.join(CONTROLS, "CROSS.md"), "w").write("\n".join(lines) + "\n")
    print("cross matrix: %d detected, %d missed, %d skipped" % (len(det), len(mis), len(res) - len(det) - len(mis)))
    return 1 if mis else 0


if __name__ == "__main__":
    sys.exit(main(sys.argv[1:]))
