#!/usr/bin/env python3
"""quick regression: every seeded change against the check of its own property only. usage: ownprop.py [ids...]"""
import os, re, shutil, subprocess, sys, tempfile, json
HERE = os.path.dirname(os.path.dirname(os.path.abspath(__file__)))
SEEDED = os.path.join(HERE, "seeded")
def one(sid):
    s = tempfile.mkdtemp(prefix="vrf-own.", dir="/var/tmp"); ev = tempfile.mkdtemp(prefix="vrf-ownev.", dir="/var/tmp")
    try:
        subprocess.run(["rsync", "-a", "--exclude", "target", "/repo/", s + "/"], check=True)
        if subprocess.run(["git", "apply", os.path.join(SEEDED, sid, "patch.diff")], cwd=s, capture_output=True).returncode != 0: return sid, None
        prop = json.load(open(os.path.join(SEEDED, sid, "meta.json"))).get("property", sid[:3])
        out = subprocess.run([os.path.join(HERE, "vcheck"), prop, "--repo", s], capture_output=True, text=True, env=dict(os.environ, VERIF_EVIDENCE_DIR=ev)).stdout
        return sid, sorted(set(re.findall(r"^VIOLATION property=\S+ replay=\S+ rule=(\S+)", out, flags=re.M)))
    finally:
        shutil.rmtree(s, ignore_errors=True); shutil.rmtree(ev, ignore_errors=True)
ids = sys.argv[1:] or sorted(x for x in os.listdir(SEEDED) if os.path.exists(os.path.join(SEEDED, x, "patch.diff")))
from concurrent.futures import ThreadPoolExecutor, as_completed
bad = 0
with ThreadPoolExecutor(max_workers=int(os.environ.get("VERIF_JOBS", "6"))) as ex:
    for fu in as_completed([ex.submit(one, i) for i in ids]):
        sid, rules = fu.result()
        print(sid, rules if rules else ("does not apply" if rules is None else "NOT DETECTED"), flush=True)
        bad += (rules == [])
print("ownprop: %d seeds, %d not detected" % (len(ids), bad))
