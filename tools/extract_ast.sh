#!/bin/bash
# usage: extract_ast.sh <src-tree> <out-dir>
# Parses every .rs file of the workspace members (src/, build.rs, tests/) with syn.
set -euo pipefail
SRC=${1:?}; OUT=${2:?}
HERE=$(cd "$(dirname "$0")" && pwd)
BIN=$HERE/astfacts/target/release/astfacts
[ -x "$BIN" ] || { echo "astfacts not built (run setup)" >&2; exit 2; }
mkdir -p "$OUT"
cd "$SRC"
FILES=$(find . -name '*.rs' -not -path './target/*' -not -path './.git/*' -not -name '*.rs_out' | sed 's|^\./||' | sort)
ABS=""
for f in $FILES; do ABS="$ABS $SRC/$f"; done
"$BIN" "$SRC" "$OUT/ast.json" $ABS
# non-Rust inputs some rules read: IDL files, manifests, lock file
python3 - "$SRC" "$OUT/text.json" <<'PY'
import json, os, sys
root, out = sys.argv[1], sys.argv[2]
recs = []
for dp, dns, fns in os.walk(root):
    dns[:] = [d for d in dns if d not in ("target", ".git")]
    for f in fns:
        if f.endswith((".varlink", ".toml", ".lock", ".rs_out")):
            p = os.path.join(dp, f)
            recs.append({"path": os.path.relpath(p, root), "text": open(p, errors="replace").read()})
json.dump({"texts": recs}, open(out, "w"))
PY
