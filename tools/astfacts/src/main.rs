// astfacts: syn-based extractor. For every .rs file given on the command line
// it emits items (structs/enums with field attributes), functions with a flat,
// source-ordered list of skeleton events (if/match/arm/let/for/call/method/
// macro/return/...) and the token trees of macro invocations (quote!, peg
// grammar, certification check macros). Rules live in python.
use proc_macro2::{Delimiter, Spacing, TokenStream, TokenTree};
use quote::ToTokens;
use std::fmt::Write as _;
use syn::visit::{self, Visit};

fn esc(s: &str) -> String {
    let mut o = String::with_capacity(s.len() + 2);
    o.push('"');
    for c in s.chars() {
        match c {
            '"' => o.push_str("\\\""),
            '\\' => o.push_str("\\\\"),
            '\n' => o.push_str("\\n"),
            '\r' => o.push_str("\\r"),
            '\t' => o.push_str("\\t"),
            c if (c as u32) < 0x20 => {
                let _ = write!(o, "\\u{:04x}", c as u32);
            }
            c => o.push(c),
        }
    }
    o.push('"');
    o
}

fn tokens_json(ts: TokenStream) -> String {
    let mut parts = Vec::new();
    for tt in ts {
        match tt {
            TokenTree::Group(g) => {
                let d = match g.delimiter() {
                    Delimiter::Parenthesis => "(",
                    Delimiter::Brace => "{",
                    Delimiter::Bracket => "[",
                    Delimiter::None => "",
                };
                parts.push(format!(
                    "{{\"t\":\"group\",\"d\":\"{}\",\"l\":{},\"c\":{}}}",
                    d,
                    g.span_open().start().line,
                    tokens_json(g.stream())
                ));
            }
            TokenTree::Ident(i) => {
                parts.push(format!("{{\"t\":\"ident\",\"s\":{},\"l\":{}}}", esc(&i.to_string()), i.span().start().line));
            }
            TokenTree::Punct(p) => {
                parts.push(format!(
                    "{{\"t\":\"punct\",\"s\":{},\"j\":{},\"l\":{}}}",
                    esc(&p.as_char().to_string()),
                    matches!(p.spacing(), Spacing::Joint),
                    p.span().start().line
                ));
            }
            TokenTree::Literal(l) => {
                parts.push(format!("{{\"t\":\"lit\",\"s\":{},\"l\":{}}}", esc(&l.to_string()), l.span().start().line));
            }
        }
    }
    format!("[{}]", parts.join(","))
}

fn ts<T: ToTokens>(t: &T) -> String {
    t.to_token_stream().to_string()
}

fn line_of<T: syn::spanned::Spanned>(t: &T) -> usize {
    t.span().start().line
}
fn end_line_of<T: syn::spanned::Spanned>(t: &T) -> usize {
    t.span().end().line
}

struct Ev {
    k: &'static str,
    text: String,
    extra: String, // pre-rendered JSON members (starting with a comma) or empty
    line: usize,
    depth: usize,
}

struct FnRec {
    name: String,
    self_ty: String,
    trait_: String,
    module: String,
    line: usize,
    end_line: usize,
    attrs: Vec<String>,
    sig: String,
    events: Vec<Ev>,
}

struct V {
    fns: Vec<FnRec>,
    items: Vec<String>,
    macros: Vec<String>,
    cur: Vec<usize>, // stack of indices into fns
    depth: usize,
    self_ty: Vec<String>,
    trait_: Vec<String>,
    module: Vec<String>,
}

impl V {
    fn ev(&mut self, k: &'static str, text: String, extra: String, line: usize) {
        if let Some(&i) = self.cur.last() {
            let depth = self.depth;
            self.fns[i].events.push(Ev { k, text, extra, line, depth });
        }
    }
    fn begin_fn(&mut self, name: String, attrs: &[syn::Attribute], sig: &syn::Signature, line: usize, end_line: usize) {
        let rec = FnRec {
            name,
            self_ty: self.self_ty.last().cloned().unwrap_or_default(),
            trait_: self.trait_.last().cloned().unwrap_or_default(),
            module: self.module.join("::"),
            line,
            end_line,
            attrs: attrs.iter().map(|a| ts(a)).collect(),
            sig: ts(sig),
            events: Vec::new(),
        };
        self.fns.push(rec);
        self.cur.push(self.fns.len() - 1);
    }
    fn end_fn(&mut self) {
        self.cur.pop();
    }
    fn fields_json(fields: &syn::Fields) -> String {
        let mut out = Vec::new();
        for (i, f) in fields.iter().enumerate() {
            let name = f.ident.as_ref().map(|i| i.to_string()).unwrap_or(format!("{}", i));
            let attrs: Vec<String> = f.attrs.iter().map(|a| esc(&ts(a))).collect();
            out.push(format!(
                "{{\"name\":{},\"ty\":{},\"attrs\":[{}],\"pub\":{},\"line\":{}}}",
                esc(&name),
                esc(&ts(&f.ty)),
                attrs.join(","),
                matches!(f.vis, syn::Visibility::Public(_)),
                line_of(f)
            ));
        }
        format!("[{}]", out.join(","))
    }
}

impl<'ast> Visit<'ast> for V {
    fn visit_item_mod(&mut self, m: &'ast syn::ItemMod) {
        self.module.push(m.ident.to_string());
        visit::visit_item_mod(self, m);
        self.module.pop();
    }
    fn visit_item_struct(&mut self, s: &'ast syn::ItemStruct) {
        let attrs: Vec<String> = s.attrs.iter().map(|a| esc(&ts(a))).collect();
        self.items.push(format!(
            "{{\"kind\":\"struct\",\"name\":{},\"module\":{},\"attrs\":[{}],\"fields\":{},\"line\":{}}}",
            esc(&s.ident.to_string()),
            esc(&self.module.join("::")),
            attrs.join(","),
            V::fields_json(&s.fields),
            line_of(s)
        ));
        visit::visit_item_struct(self, s);
    }
    fn visit_item_enum(&mut self, e: &'ast syn::ItemEnum) {
        let attrs: Vec<String> = e.attrs.iter().map(|a| esc(&ts(a))).collect();
        let vars: Vec<String> = e
            .variants
            .iter()
            .map(|v| {
                format!(
                    "{{\"name\":{},\"fields\":{},\"attrs\":[{}]}}",
                    esc(&v.ident.to_string()),
                    V::fields_json(&v.fields),
                    v.attrs.iter().map(|a| esc(&ts(a))).collect::<Vec<_>>().join(",")
                )
            })
            .collect();
        self.items.push(format!(
            "{{\"kind\":\"enum\",\"name\":{},\"module\":{},\"attrs\":[{}],\"variants\":[{}],\"line\":{}}}",
            esc(&e.ident.to_string()),
            esc(&self.module.join("::")),
            attrs.join(","),
            vars.join(","),
            line_of(e)
        ));
        visit::visit_item_enum(self, e);
    }
    fn visit_item_impl(&mut self, i: &'ast syn::ItemImpl) {
        self.self_ty.push(ts(&*i.self_ty));
        self.trait_.push(i.trait_.as_ref().map(|(_, p, _)| ts(p)).unwrap_or_default());
        visit::visit_item_impl(self, i);
        self.self_ty.pop();
        self.trait_.pop();
    }
    fn visit_item_trait(&mut self, t: &'ast syn::ItemTrait) {
        self.self_ty.push(String::new());
        self.trait_.push(format!("trait {}", t.ident));
        visit::visit_item_trait(self, t);
        self.self_ty.pop();
        self.trait_.pop();
    }
    fn visit_item_fn(&mut self, f: &'ast syn::ItemFn) {
        self.begin_fn(f.sig.ident.to_string(), &f.attrs, &f.sig, line_of(f), end_line_of(f));
        visit::visit_item_fn(self, f);
        self.end_fn();
    }
    fn visit_impl_item_fn(&mut self, f: &'ast syn::ImplItemFn) {
        self.begin_fn(f.sig.ident.to_string(), &f.attrs, &f.sig, line_of(f), end_line_of(f));
        visit::visit_impl_item_fn(self, f);
        self.end_fn();
    }
    fn visit_trait_item_fn(&mut self, f: &'ast syn::TraitItemFn) {
        self.begin_fn(f.sig.ident.to_string(), &f.attrs, &f.sig, line_of(f), end_line_of(f));
        visit::visit_trait_item_fn(self, f);
        self.end_fn();
    }
    fn visit_item_macro(&mut self, m: &'ast syn::ItemMacro) {
        if self.cur.is_empty() {
            self.macros.push(format!(
                "{{\"path\":{},\"ident\":{},\"line\":{},\"tokens\":{}}}",
                esc(&ts(&m.mac.path).replace(' ', "")),
                esc(&m.ident.as_ref().map(|i| i.to_string()).unwrap_or_default()),
                line_of(m),
                tokens_json(m.mac.tokens.clone())
            ));
        }
        visit::visit_item_macro(self, m);
    }
    fn visit_macro(&mut self, m: &'ast syn::Macro) {
        let name = ts(&m.path).replace(' ', "");
        let extra = format!(",\"name\":{},\"tokens\":{}", esc(&name), tokens_json(m.tokens.clone()));
        self.ev("macro", m.tokens.to_string(), extra, line_of(m));
        visit::visit_macro(self, m);
    }
    fn visit_local(&mut self, l: &'ast syn::Local) {
        let init = l.init.as_ref().map(|i| ts(&*i.expr)).unwrap_or_default();
        let extra = format!(",\"pat\":{}", esc(&ts(&l.pat)));
        self.ev("let", init, extra, line_of(l));
        visit::visit_local(self, l);
    }
    fn visit_expr_if(&mut self, e: &'ast syn::ExprIf) {
        self.ev("if", ts(&*e.cond), String::new(), line_of(e));
        self.visit_expr(&e.cond);
        self.depth += 1;
        self.visit_block(&e.then_branch);
        self.depth -= 1;
        if let Some((_, els)) = &e.else_branch {
            self.ev("else", String::new(), String::new(), line_of(&**els));
            self.depth += 1;
            self.visit_expr(els);
            self.depth -= 1;
        }
        self.ev("endif", String::new(), String::new(), end_line_of(e));
    }
    fn visit_expr_match(&mut self, e: &'ast syn::ExprMatch) {
        self.ev("match", ts(&*e.expr), String::new(), line_of(e));
        self.visit_expr(&e.expr);
        self.depth += 1;
        for arm in &e.arms {
            let guard = arm.guard.as_ref().map(|(_, g)| ts(&**g)).unwrap_or_default();
            let extra = format!(",\"guard\":{},\"body\":{}", esc(&guard), esc(&ts(&*arm.body)));
            self.ev("arm", ts(&arm.pat), extra, line_of(arm));
            self.depth += 1;
            if let Some((_, g)) = &arm.guard {
                self.visit_expr(g);
            }
            self.visit_expr(&arm.body);
            self.depth -= 1;
        }
        self.depth -= 1;
        self.ev("endmatch", String::new(), String::new(), end_line_of(e));
    }
    fn visit_expr_for_loop(&mut self, e: &'ast syn::ExprForLoop) {
        let extra = format!(",\"pat\":{}", esc(&ts(&*e.pat)));
        self.ev("for", ts(&*e.expr), extra, line_of(e));
        self.visit_expr(&e.expr);
        self.depth += 1;
        self.visit_block(&e.body);
        self.depth -= 1;
        self.ev("endfor", String::new(), String::new(), end_line_of(e));
    }
    fn visit_expr_while(&mut self, e: &'ast syn::ExprWhile) {
        self.ev("while", ts(&*e.cond), String::new(), line_of(e));
        self.visit_expr(&e.cond);
        self.depth += 1;
        self.visit_block(&e.body);
        self.depth -= 1;
        self.ev("endwhile", String::new(), String::new(), end_line_of(e));
    }
    fn visit_expr_loop(&mut self, e: &'ast syn::ExprLoop) {
        self.ev("loop", String::new(), String::new(), line_of(e));
        self.depth += 1;
        self.visit_block(&e.body);
        self.depth -= 1;
        self.ev("endloop", String::new(), String::new(), end_line_of(e));
    }
    fn visit_expr_closure(&mut self, e: &'ast syn::ExprClosure) {
        let inputs: Vec<String> = e.inputs.iter().map(|p| ts(p)).collect();
        self.ev("closure", inputs.join(", "), String::new(), line_of(e));
        self.depth += 1;
        visit::visit_expr_closure(self, e);
        self.depth -= 1;
        self.ev("endclosure", String::new(), String::new(), end_line_of(e));
    }
    fn visit_expr_method_call(&mut self, e: &'ast syn::ExprMethodCall) {
        let args: Vec<String> = e.args.iter().map(|a| esc(&ts(a))).collect();
        let extra = format!(",\"recv\":{},\"args\":[{}]", esc(&ts(&*e.receiver)), args.join(","));
        self.ev("method", e.method.to_string(), extra, line_of(&e.method));
        visit::visit_expr_method_call(self, e);
    }
    fn visit_expr_call(&mut self, e: &'ast syn::ExprCall) {
        let args: Vec<String> = e.args.iter().map(|a| esc(&ts(a))).collect();
        let extra = format!(",\"args\":[{}]", args.join(","));
        self.ev("call", ts(&*e.func).replace(' ', ""), extra, line_of(e));
        visit::visit_expr_call(self, e);
    }
    fn visit_expr_return(&mut self, e: &'ast syn::ExprReturn) {
        self.ev("return", e.expr.as_ref().map(|x| ts(&**x)).unwrap_or_default(), String::new(), line_of(e));
        visit::visit_expr_return(self, e);
    }
    fn visit_expr_break(&mut self, e: &'ast syn::ExprBreak) {
        self.ev("break", e.expr.as_ref().map(|x| ts(&**x)).unwrap_or_default(), String::new(), line_of(e));
        visit::visit_expr_break(self, e);
    }
    fn visit_expr_continue(&mut self, e: &'ast syn::ExprContinue) {
        self.ev("continue", String::new(), String::new(), line_of(e));
    }
    fn visit_expr_assign(&mut self, e: &'ast syn::ExprAssign) {
        let extra = format!(",\"lhs\":{}", esc(&ts(&*e.left)));
        self.ev("assign", ts(&*e.right), extra, line_of(e));
        visit::visit_expr_assign(self, e);
    }
    fn visit_expr_binary(&mut self, e: &'ast syn::ExprBinary) {
        use syn::BinOp::*;
        match e.op {
            AddAssign(_) | SubAssign(_) | MulAssign(_) | DivAssign(_) => {
                let extra = format!(",\"lhs\":{},\"op\":{}", esc(&ts(&*e.left)), esc(&ts(&e.op)));
                self.ev("opassign", ts(&*e.right), extra, line_of(e));
            }
            _ => {}
        }
        visit::visit_expr_binary(self, e);
    }
    fn visit_expr_try(&mut self, e: &'ast syn::ExprTry) {
        self.ev("try", ts(&*e.expr), String::new(), line_of(e));
        visit::visit_expr_try(self, e);
    }
    fn visit_expr_struct(&mut self, e: &'ast syn::ExprStruct) {
        let fields: Vec<String> = e
            .fields
            .iter()
            .map(|f| format!("[{},{}]", esc(&ts(&f.member)), esc(&ts(&f.expr))))
            .collect();
        let extra = format!(",\"fields\":[{}],\"rest\":{}", fields.join(","), esc(&e.rest.as_ref().map(|r| ts(&**r)).unwrap_or_default()));
        self.ev("struct", ts(&e.path).replace(' ', ""), extra, line_of(e));
        visit::visit_expr_struct(self, e);
    }
    fn visit_lit_str(&mut self, l: &'ast syn::LitStr) {
        self.ev("str", l.value(), String::new(), line_of(l));
    }
    fn visit_lit_char(&mut self, l: &'ast syn::LitChar) {
        self.ev("char", l.value().to_string(), String::new(), line_of(l));
    }
}

fn main() {
    let args: Vec<String> = std::env::args().collect();
    // args: <root> <out.json> <file>...
    let root = &args[1];
    let out = &args[2];
    let mut files = Vec::new();
    for f in &args[3..] {
        let src = match std::fs::read_to_string(f) {
            Ok(s) => s,
            Err(e) => {
                eprintln!("astfacts: cannot read {}: {}", f, e);
                std::process::exit(2);
            }
        };
        let parsed = match syn::parse_file(&src) {
            Ok(p) => p,
            Err(e) => {
                eprintln!("astfacts: cannot parse {}: {}", f, e);
                std::process::exit(3);
            }
        };
        let mut v = V {
            fns: Vec::new(),
            items: Vec::new(),
            macros: Vec::new(),
            cur: Vec::new(),
            depth: 0,
            self_ty: Vec::new(),
            trait_: Vec::new(),
            module: Vec::new(),
        };
        v.visit_file(&parsed);
        let rel = f.strip_prefix(root.as_str()).unwrap_or(f).trim_start_matches('/');
        let mut s = format!("{{\"path\":{},\"items\":[{}],\"macros\":[{}],\"fns\":[", esc(rel), v.items.join(","), v.macros.join(","));
        for (i, f) in v.fns.iter().enumerate() {
            if i > 0 {
                s.push(',');
            }
            let _ = write!(
                s,
                "{{\"name\":{},\"self_ty\":{},\"trait\":{},\"module\":{},\"line\":{},\"end_line\":{},\"attrs\":[{}],\"sig\":{},\"events\":[",
                esc(&f.name),
                esc(&f.self_ty),
                esc(&f.trait_),
                esc(&f.module),
                f.line,
                f.end_line,
                f.attrs.iter().map(|a| esc(a)).collect::<Vec<_>>().join(","),
                esc(&f.sig)
            );
            for (j, e) in f.events.iter().enumerate() {
                if j > 0 {
                    s.push(',');
                }
                let _ = write!(s, "{{\"k\":\"{}\",\"text\":{},\"line\":{},\"depth\":{}{}}}", e.k, esc(&e.text), e.line, e.depth, e.extra);
            }
            s.push_str("]}");
        }
        s.push_str("]}");
        files.push(s);
    }
    let all = format!("{{\"files\":[\n{}\n]}}\n", files.join(",\n"));
    std::fs::write(out, all).expect("astfacts: write");
}
