#!/usr/bin/env python3
"""Imports confirmed deliveries of the last (short) round: seeds E/F -> seeded/<id>-G|H, controls R5/R6 -> controls/<id>-R7|R8.
usage: import_round4.py ids...   (reads /tmp/seedwork/out5-<id>/ and /tmp/seedconf/res5/)"""
import json, os, shutil, sys
HERE = os.path.dirname(os.path.dirname(os.path.abspath(__file__)))
MAP = {"E": "G", "F": "H", "R5": "R7", "R6": "R8"}
for pid in sys.argv[1:]:
    for v in ("E", "F", "R5", "R6"):
        src = "/tmp/seedwork/out5-%s/%s" % (pid, v)
        rj = "/tmp/seedconf/res5/%s-%s.json" % (pid, v)
        if not os.path.exists(os.path.join(src, "patch.diff")): print(pid, v, "not delivered"); continue
        if not os.path.exists(rj): print(pid, v, "not confirmed yet"); continue
        r = json.load(open(rj))
        seed = v in ("E", "F")
        ok = r["applies"] == 1 and r["build_rc"] == "0" and r["suite_ok"] and (not seed or (r["demo_clean_rc"] == "0" and r["demo_mutant_rc"] not in ("0", "NA")))
        if not ok: print(pid, v, "NOT CONFIRMED", r); continue
        dst = os.path.join(HERE, "seeded" if seed else "controls", "%s-%s" % (pid, MAP[v]))
        shutil.rmtree(dst, ignore_errors=True); os.makedirs(dst)
        shutil.copy(os.path.join(src, "patch.diff"), dst)
        if seed and os.path.isdir(os.path.join(src, "demo")): shutil.copytree(os.path.join(src, "demo"), os.path.join(dst, "demo"), ignore=shutil.ignore_patterns("target", "*.log"))
        try: meta = json.load(open(os.path.join(src, "meta.json")))
        except Exception: meta = {"property": pid, "summary": "(agent wrote no meta.json)"}
        meta["round"] = 4
        conf = {"base_commit": "7ef60e8 (/repo HEAD with all fix: commits)", "applies": True, "build_rc": 0,
                "suite": "cargo test --workspace --no-fail-fast --offline in a private network namespace: no failure besides the known-flaky test_tcp; ping::test_unix_multiplex run separately"}
        if seed: conf.update({"demo_on_clean_tree_rc": 0, "demo_with_change_rc": int(r["demo_mutant_rc"])})
        meta["confirmed_by_verifier"] = conf
        json.dump(meta, open(os.path.join(dst, "meta.json"), "w"), indent=1)
        print(pid, v, "->", dst)
