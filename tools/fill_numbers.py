#!/usr/bin/env python3
"""fills the @@..@@ placeholders of DESIGN.md from the logs of the last selftest runs (paths given on the command line)
usage: fill_numbers.py <controls.log> <mutants.log>   (cross numbers come from controls/cross.json)"""
import json, os, re, sys
HERE = os.path.dirname(os.path.dirname(os.path.abspath(__file__)))
clog, mlog = sys.argv[1:3]
c = open(clog).read(); m = open(mlog).read()
silent = len(re.findall(r"^control \S+\s+silent", c, flags=re.M)); alarm = sorted(re.findall(r"^control (\S+)\s+FALSE ALARM", c, flags=re.M))
det = len(re.findall(r"detected by", m)); mis = len(re.findall(r"MISSED", m))
x = json.load(open(os.path.join(HERE, "controls", "cross.json")))
xd = sum(1 for r in x.values() if r["status"] == "detected"); xm = sum(1 for r in x.values() if r["status"] == "MISSED"); xs = len(x) - xd - xm
d = open(os.path.join(HERE, "DESIGN.md")).read()
d = d.replace("@@CONTROLS@@", "%d of the %d controls are silent under all 20 checks" % (silent, silent + len(alarm)))
d = d.replace("@@CONTROLS_LONG@@", "%d controls are silent, %d still trip a rule (%s)" % (silent, len(alarm), ", ".join(alarm)))
d = d.replace("@@MUTANTS@@", "%d of %d detected on the current rules" % (det, det + mis))
d = d.replace("@@CROSS@@", "%d combinations merge and build, %d detected, %d missed; %d do not merge" % (xd + xm, xd, xm, xs))
open(os.path.join(HERE, "DESIGN.md"), "w").write(d)
print("controls", silent, alarm, "mutants", det, mis, "cross", xd, xm, xs)
