#!/bin/bash
# usage: eqrun.sh <patch> [props...]  -- runs the checks (default: all 20) against a scratch copy with the patch; prints only violations and a summary
P=$1; shift
PROPS="$@"; [ -z "$PROPS" ] && PROPS="C01 C02 C03 C04 C05 C06 C07 C08 C09 C10 C11 C12 C13 C14 C15 C16 C17 C18 C19 C20"
OUT=$(/verif/tools/mutrun.sh "$P" $PROPS 2>&1)
echo "$OUT" | grep "^VIOLATION\|apply failed\|extraction failed\|ExtractionFailed" | cut -c1-420
echo "$OUT" | grep -c "^== C" | xargs echo "checks run:"
