#!/usr/bin/env python3
"""Copies confirmed seeded changes from a work area into /verif/seeded/<Cxx>-<letter>/ (patch.diff, demo/, meta.json with the
verifier's own confirmation record). usage: import_seeds.py <out-prefix> <res-dir> <A->letter> <B->letter> [ids...]
e.g. import_seeds.py /tmp/seedwork/out2- /tmp/seedconf/res2 C D C01 C02"""
import json, os, shutil, sys
HERE = os.path.dirname(os.path.dirname(os.path.abspath(__file__)))
pref, res, la, lb = sys.argv[1:5]
ids = sys.argv[5:]
for pid in ids:
    for v, letter in (("A", la), ("B", lb)):
        src = pref + pid + "/" + v
        rj = os.path.join(res, "%s-%s.json" % (pid, v))
        if not os.path.exists(os.path.join(src, "patch.diff")) or not os.path.exists(rj): print(pid, v, "missing"); continue
        r = json.load(open(rj))
        ok = r["applies"] == 1 and r["demo_clean_rc"] == "0" and r["build_rc"] == "0" and r["suite_ok"] and r["demo_mutant_rc"] not in ("0", "NA")
        if not ok: print(pid, v, "NOT CONFIRMED", r); continue
        dst = os.path.join(HERE, "seeded", "%s-%s" % (pid, letter))
        shutil.rmtree(dst, ignore_errors=True); os.makedirs(dst)
        shutil.copy(os.path.join(src, "patch.diff"), dst)
        if os.path.isdir(os.path.join(src, "demo")): shutil.copytree(os.path.join(src, "demo"), os.path.join(dst, "demo"))
        meta = {}
        try: meta = json.load(open(os.path.join(src, "meta.json")))
        except Exception as e: meta = {"property": pid, "summary": "(agent wrote no meta.json)"}
        meta["round"] = 2
        meta["confirmed_by_verifier"] = {
            "base_commit": "7ef60e8 (/repo HEAD with all fix: commits)", "applies": True, "demo_on_clean_tree_rc": 0, "build_rc": 0,
            "suite": "cargo test --workspace --no-fail-fast --offline in a private network namespace: no failure besides the known-flaky test_tcp; ping::test_unix_multiplex run separately (hangs intermittently on the pristine tree too)",
            "demo_with_change_rc": int(r["demo_mutant_rc"]),
            "ran": ["git apply --check patch.diff", "bash demo/run.sh <clean worktree> (expect 0)", "git apply patch.diff; cargo build --workspace --offline",
                    "cargo test --workspace --no-fail-fast --offline", "bash demo/run.sh <worktree with the change> (expect non-zero)"]}
        json.dump(meta, open(os.path.join(dst, "meta.json"), "w"), indent=1)
        print(pid, v, "->", os.path.basename(dst))
