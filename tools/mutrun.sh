#!/bin/bash
# usage: mutrun.sh <patch.diff | rev:<commit>> <property...>
# applies a patch (or reverts a repo commit) on a scratch copy of /repo and runs the given checks against it
# (evidence files are written to a scratch evidence dir, not /verif/evidence).
set -uo pipefail
P=${1:?}; shift
HERE=$(cd "$(dirname "$0")/.." && pwd)
S=$(mktemp -d /var/tmp/vrf-mut.XXXXXX)
EV=$(mktemp -d /var/tmp/vrf-ev.XXXXXX)
trap 'rm -rf "$S" "$EV"' EXIT
rsync -a --exclude target /repo/ "$S"/
cd "$S"
if [[ "$P" == rev:* ]]; then
  git revert --no-edit -n "${P#rev:}" >/dev/null 2>&1 || { echo "revert failed"; exit 9; }
else
  git apply "$P" || { echo "apply failed"; exit 9; }
fi
cd "$HERE"
rc=0
for p in "$@"; do
  VERIF_EVIDENCE_DIR=$EV ./vcheck "$p" --repo "$S" 2>&1 | grep -E "VIOLATION property|KNOWN-FINDING|^== .*instances" || true
done
