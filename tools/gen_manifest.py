#!/usr/bin/env python3
"""Regenerates /verif/MANIFEST.json from the table below (kept next to the rules so they stay in sync)."""
import json, os
HERE = os.path.dirname(os.path.dirname(os.path.abspath(__file__)))
BASELINE = "cd /repo && cargo test --workspace --no-fail-fast --offline"

# property -> (claimed?, level text, level note, technique, design_ref) ; unclaimed -> reason
CLAIMS = {}
def claim(pid, text, note, technique):
    CLAIMS[pid] = dict(text=text, note=note, technique=technique)

NOT_YET = {}

exec(open(os.path.join(HERE, "tools", "claims.py")).read())

checks = []
na = []
for i in range(1, 21):
    pid = "C%02d" % i
    if pid in CLAIMS:
        c = CLAIMS[pid]
        checks.append(dict(
            property_id=pid,
            quick_cmd="./vcheck %s --tier quick" % pid,
            thorough_cmd="./vcheck %s --tier thorough" % pid,
            evidence_file="/verif/evidence/%s.json" % pid,
            replay_cmd_template="./vcheck --replay {path}",
            engine="vcheck",
            level_claimed=dict(category="other", text=c["text"], design_ref="DESIGN.md §4 " + pid),
            level_note=c["note"],
            technique=c["technique"],
        ))
    else:
        na.append(dict(property_id=pid, reason=NOT_YET.get(pid, "no static rule built yet for this property (work in progress); nothing is claimed")))

m = dict(
    version=1,
    setup_cmd="cd /verif && ./setup.sh",
    hooks=dict(guard="varlink_rust_verif", enable="none needed: the checks are static and analyse /repo's sources as they are (no instrumentation is compiled in)",
               baseline_off_cmd=BASELINE, source_commits=[], add_only=True),
    engines=[
        dict(name="mirfacts", path="tools/mirfacts", serves_properties=sorted(CLAIMS), kind_free_text="rustc_private driver (nightly) injected via RUSTC_WORKSPACE_WRAPPER; dumps drop-elaborated MIR with resolved callees, constants, places and spans for every workspace body"),
        dict(name="astfacts", path="tools/astfacts", serves_properties=sorted(CLAIMS), kind_free_text="syn 2 based extractor: items with attributes, per-function skeleton events, token trees of macro invocations (quote!, peg grammar, certification macros)"),
        dict(name="vcheck", path="vcheck", serves_properties=sorted(CLAIMS), kind_free_text="python rules over the extracted facts: CFG reachability/dominance, backward slices, path enumeration with drop-flag propagation, table agreement, grammar automata"),
    ],
    checks=checks,
    notes="Static analysis only. Every check re-extracts facts from /repo's current working tree (cached by content hash under /verif/.cache). Known findings: /verif/known_findings.json.",
    not_applicable=na,
)
json.dump(m, open(os.path.join(HERE, "MANIFEST.json"), "w"), indent=1)
print("MANIFEST.json: %d checks, %d not_applicable" % (len(checks), len(na)))
