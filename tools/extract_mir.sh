#!/bin/bash
# usage: extract_mir.sh <src-tree> <out-facts-dir> <quick|thorough>
# Copies <src-tree> to a scratch dir (never builds inside /repo: three build.rs
# rewrite src/org_*.rs), runs `cargo +nightly check` with the mirfacts driver as
# RUSTC_WORKSPACE_WRAPPER into a fresh target dir, removes the scratch dirs.
set -euo pipefail
SRC=${1:?}; OUT=${2:?}; TIER=${3:-quick}
HERE=$(cd "$(dirname "$0")" && pwd)
DRV=$HERE/mirfacts/target/release/mirfacts
[ -x "$DRV" ] || { echo "mirfacts driver not built (run setup)" >&2; exit 2; }
SCRATCH=$(mktemp -d /var/tmp/vrf-src.XXXXXX)
TGT=$(mktemp -d /var/tmp/vrf-tgt.XXXXXX)
trap 'rm -rf "$SCRATCH" "$TGT"' EXIT
rsync -a --exclude target --exclude .git "$SRC"/ "$SCRATCH"/
mkdir -p "$OUT"
SYSROOT=$(rustc +nightly --print sysroot)
ARGS="--workspace"
[ "$TIER" = thorough ] && ARGS="--workspace --all-targets"
cd "$SCRATCH"
export CARGO_NET_OFFLINE=true
if ! LD_LIBRARY_PATH=$SYSROOT/lib \
   RUSTFLAGS="-Zmir-opt-level=0 -Awarnings" \
   RUSTC_WORKSPACE_WRAPPER=$DRV \
   MIRFACTS_OUT=$OUT MIRFACTS_ROOT=$SCRATCH \
   CARGO_TARGET_DIR=$TGT \
   cargo +nightly check --offline $ARGS >"$OUT/cargo.log" 2>&1; then
  echo "cargo check failed; see $OUT/cargo.log" >&2
  tail -30 "$OUT/cargo.log" >&2
  exit 3
fi
ls "$OUT"/*.json >/dev/null
