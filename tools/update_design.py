#!/usr/bin/env python3
"""refreshes the generated parts of DESIGN.md: the rule catalogue (from rules/*.py) and the seeded-change matrix (from seeded/MATRIX.md)"""
import os, re, subprocess, sys
HERE = os.path.dirname(os.path.dirname(os.path.abspath(__file__)))
d = open(os.path.join(HERE, "DESIGN.md")).read()
rules = subprocess.run([sys.executable, os.path.join(HERE, "tools", "list_rules.py")], capture_output=True, text=True).stdout
d = re.sub(r"<!-- RULES-BEGIN -->.*?<!-- RULES-END -->", lambda m: "<!-- RULES-BEGIN -->\n" + rules + "<!-- RULES-END -->", d, flags=re.S)
mp = os.path.join(HERE, "seeded", "MATRIX.md")
if os.path.exists(mp):
    mt = open(mp).read()
    d = re.sub(r"<!-- MATRIX-BEGIN -->.*?<!-- MATRIX-END -->", lambda m: "<!-- MATRIX-BEGIN -->\n" + mt + "\n<!-- MATRIX-END -->", d, flags=re.S)
open(os.path.join(HERE, "DESIGN.md"), "w").write(d)
print("DESIGN.md refreshed")
