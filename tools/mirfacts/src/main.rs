// mirfacts: a thin rustc_private driver that dumps the (drop-elaborated,
// unoptimised) MIR of every body in a workspace crate as JSON facts.
// It is injected with RUSTC_WORKSPACE_WRAPPER, so argv[1] is the real rustc.
// All property-specific reasoning lives in /verif/vcheck (python); this file
// only prints what rustc knows: resolved callees, places, constants, spans.
#![feature(rustc_private)]
#![allow(rustc::internal)]

extern crate rustc_abi;
extern crate rustc_driver;
extern crate rustc_hir;
extern crate rustc_interface;
extern crate rustc_middle;
extern crate rustc_span;

use rustc_driver::{Callbacks, Compilation};
use rustc_hir::def::DefKind;
use rustc_hir::def_id::{DefId, LocalDefId};
use rustc_interface::interface::Compiler;
use rustc_middle::mir::{
    self, AggregateKind, BasicBlockData, Body, Const, ConstValue, Operand, Place, PlaceElem,
    Rvalue, StatementKind, TerminatorKind,
};
use rustc_middle::ty::{self, Instance, Ty, TyCtxt, TypingEnv};
use rustc_span::Span;
use std::fmt::Write as _;

fn esc(s: &str) -> String {
    let mut o = String::with_capacity(s.len() + 2);
    o.push('"');
    for c in s.chars() {
        match c {
            '"' => o.push_str("\\\""),
            '\\' => o.push_str("\\\\"),
            '\n' => o.push_str("\\n"),
            '\r' => o.push_str("\\r"),
            '\t' => o.push_str("\\t"),
            c if (c as u32) < 0x20 => {
                let _ = write!(o, "\\u{:04x}", c as u32);
            }
            c => o.push(c),
        }
    }
    o.push('"');
    o
}

struct Cx<'tcx> {
    tcx: TyCtxt<'tcx>,
    root: String,
}

impl<'tcx> Cx<'tcx> {
    fn span(&self, sp: Span) -> String {
        let sm = self.tcx.sess.source_map();
        // Walk out of macro expansions to the outermost call site in user code.
        let root_sp = sp.source_callsite();
        let lo = sm.lookup_char_pos(root_sp.lo());
        let f = format!("{}", lo.file.name.prefer_local_unconditionally());
        let f = f.strip_prefix(&self.root).unwrap_or(&f).trim_start_matches('/').to_string();
        format!("{}:{}:{}", f, lo.line, lo.col.0 + 1)
    }

    fn span_json(&self, sp: Span) -> String {
        let exp = sp.from_expansion();
        let mut s = format!("\"sp\":{}", esc(&self.span(sp)));
        if exp {
            // outermost macro name
            let mut cur = sp;
            let mut name = String::new();
            while cur.from_expansion() {
                let d = cur.ctxt().outer_expn_data();
                name = format!("{}", d.kind.descr());
                cur = d.call_site;
            }
            let _ = write!(s, ",\"mac\":{}", esc(&name));
        }
        s
    }

    fn ty(&self, t: Ty<'tcx>) -> String {
        ty::print::with_no_trimmed_paths!(format!("{}", t))
    }

    fn defpath(&self, d: DefId) -> String {
        ty::print::with_no_trimmed_paths!(self.tcx.def_path_str(d))
    }

    fn place(&self, body: &Body<'tcx>, p: &Place<'tcx>) -> String {
        // {"l":local,"p":[...]} with field names where they exist
        let mut s = format!("{{\"l\":{},\"p\":[", p.local.as_usize());
        let mut pty = mir::PlaceTy::from_ty(body.local_decls[p.local].ty);
        let mut first = true;
        for elem in p.projection.iter() {
            if !first {
                s.push(',');
            }
            first = false;
            let e = match elem {
                PlaceElem::Deref => "\"*\"".to_string(),
                PlaceElem::Field(f, _) => {
                    let mut name = String::new();
                    match pty.ty.kind() {
                        ty::Adt(def, _) => {
                            let v = match pty.variant_index {
                                Some(v) => Some(v),
                                None if def.is_struct() || def.is_union() => {
                                    Some(rustc_abi::FIRST_VARIANT)
                                }
                                None => None,
                            };
                            if let Some(v) = v {
                                if let Some(fd) = def.variant(v).fields.get(f) {
                                    name = fd.name.to_string();
                                }
                            }
                        }
                        _ => {}
                    }
                    if name.is_empty() {
                        format!("\".{}\"", f.as_usize())
                    } else {
                        esc(&format!(".{}#{}", f.as_usize(), name))
                    }
                }
                PlaceElem::Index(l) => format!("\"[_{}]\"", l.as_usize()),
                PlaceElem::ConstantIndex { offset, from_end, .. } => {
                    format!("\"[c{}{}]\"", if from_end { "-" } else { "" }, offset)
                }
                PlaceElem::Subslice { from, to, from_end } => {
                    format!("\"[{}..{}{}]\"", from, if from_end { "-" } else { "" }, to)
                }
                PlaceElem::Downcast(name, v) => match name {
                    Some(n) => esc(&format!("as {}#{}", n, v.as_usize())),
                    None => format!("\"as #{}\"", v.as_usize()),
                },
                PlaceElem::OpaqueCast(_) => "\"opaque\"".to_string(),
                _ => "\"?\"".to_string(),
            };
            s.push_str(&e);
            pty = pty.projection_ty(self.tcx, elem);
        }
        s.push_str("]}");
        s
    }

    fn constant(&self, c: &Const<'tcx>) -> String {
        let tcx = self.tcx;
        let ty = c.ty();
        let mut s = format!("{{\"ty\":{}", esc(&self.ty(ty)));
        // function items
        if let ty::FnDef(d, args) = ty.kind() {
            let _ = write!(s, ",\"fn\":{}", esc(&self.defpath(*d)));
            let _ = write!(s, ",\"fnargs\":{}", esc(&format!("{:?}", args)));
            s.push('}');
            return s;
        }
        let env = TypingEnv::fully_monomorphized();
        let val = match c {
            Const::Val(v, _) => Some(*v),
            Const::Unevaluated(..) | Const::Ty(..) => c.eval(tcx, env, rustc_span::DUMMY_SP).ok(),
        };
        if let Some(v) = val {
            // constants of struct/enum/tuple type: the pretty-printed value (`Flags { a: true, .. }`, `Mode::Oneway`)
            if matches!(ty.kind(), ty::Adt(..) | ty::Tuple(..)) && !matches!(v, ConstValue::ZeroSized) {
                let shown = format!("{}", Const::Val(v, ty));
                if shown.len() < 400 {
                    let _ = write!(s, ",\"val\":{}", esc(&shown));
                }
            }
            match v {
                ConstValue::Scalar(mir::interpret::Scalar::Int(i)) => {
                    if ty.is_bool() {
                        let _ = write!(s, ",\"int\":{}", i.to_bits_unchecked());
                    } else if ty.is_char() {
                        let cp = i.to_bits_unchecked() as u32;
                        let _ = write!(s, ",\"int\":{}", cp);
                        if let Some(ch) = char::from_u32(cp) {
                            let _ = write!(s, ",\"chr\":{}", esc(&ch.to_string()));
                        }
                    } else if ty.is_integral() {
                        let bits = i.to_bits_unchecked();
                        if ty.is_signed() {
                            let size = i.size().bits();
                            let sv = if size >= 128 {
                                bits as i128
                            } else {
                                let shift = 128 - size;
                                ((bits << shift) as i128) >> shift
                            };
                            let _ = write!(s, ",\"int\":{}", sv);
                        } else {
                            let _ = write!(s, ",\"int\":{}", bits);
                        }
                    } else {
                        let _ = write!(s, ",\"bits\":{}", esc(&format!("{}", i.to_bits_unchecked())));
                    }
                }
                ConstValue::Slice { .. } => {
                    if let Some(bytes) = v.try_get_slice_bytes_for_diagnostics(tcx) {
                        match std::str::from_utf8(bytes) {
                            Ok(st) => {
                                let _ = write!(s, ",\"str\":{}", esc(st));
                            }
                            Err(_) => {
                                let _ = write!(s, ",\"bytes\":{}", esc(&format!("{:?}", bytes)));
                            }
                        }
                    }
                }
                ConstValue::ZeroSized => {
                    s.push_str(",\"zst\":true");
                }
                _ => {
                    // &'static [..] / other indirect consts: give the pretty form
                    let _ = write!(s, ",\"dbg\":{}", esc(&format!("{}", c)));
                }
            }
        } else {
            let _ = write!(s, ",\"dbg\":{}", esc(&format!("{}", c)));
        }
        s.push('}');
        s
    }

    fn operand(&self, body: &Body<'tcx>, o: &Operand<'tcx>) -> String {
        match o {
            Operand::Copy(p) => format!("{{\"c\":{}}}", self.place(body, p)),
            Operand::Move(p) => format!("{{\"m\":{}}}", self.place(body, p)),
            Operand::Constant(c) => format!("{{\"k\":{}}}", self.constant(&c.const_)),
            #[allow(unreachable_patterns)]
            _ => "{\"k\":{\"ty\":\"?\",\"dbg\":\"runtime-checks\"}}".to_string(),
        }
    }

    fn rvalue(&self, body: &Body<'tcx>, rv: &Rvalue<'tcx>) -> String {
        match rv {
            Rvalue::Use(o, ..) => format!("{{\"r\":\"use\",\"ops\":[{}]}}", self.operand(body, o)),
            Rvalue::Repeat(o, _) => {
                format!("{{\"r\":\"repeat\",\"ops\":[{}]}}", self.operand(body, o))
            }
            Rvalue::Ref(_, bk, p) => {
                let m = match bk {
                    mir::BorrowKind::Shared => "shared",
                    mir::BorrowKind::Fake(_) => "fake",
                    mir::BorrowKind::Mut { .. } => "mut",
                };
                format!("{{\"r\":\"ref\",\"bk\":\"{}\",\"place\":{}}}", m, self.place(body, p))
            }
            Rvalue::RawPtr(_, p) => {
                format!("{{\"r\":\"rawptr\",\"place\":{}}}", self.place(body, p))
            }
            Rvalue::Cast(k, o, t) => format!(
                "{{\"r\":\"cast\",\"ck\":{},\"ops\":[{}],\"ty\":{}}}",
                esc(&format!("{:?}", k)),
                self.operand(body, o),
                esc(&self.ty(*t))
            ),
            Rvalue::BinaryOp(op, ab) => format!(
                "{{\"r\":\"bin\",\"op\":\"{:?}\",\"ops\":[{},{}]}}",
                op,
                self.operand(body, &ab.0),
                self.operand(body, &ab.1)
            ),
            Rvalue::UnaryOp(op, o) => format!(
                "{{\"r\":\"un\",\"op\":\"{:?}\",\"ops\":[{}]}}",
                op,
                self.operand(body, o)
            ),
            Rvalue::Discriminant(p) => {
                format!("{{\"r\":\"discr\",\"place\":{}}}", self.place(body, p))
            }
            Rvalue::Aggregate(k, ops) => {
                let kind = match &**k {
                    AggregateKind::Array(_) => "\"array\"".to_string(),
                    AggregateKind::Tuple => "\"tuple\"".to_string(),
                    AggregateKind::Adt(d, v, _, _, _) => {
                        let def = self.tcx.adt_def(*d);
                        let vn = def.variant(*v).name.to_string();
                        let fields: Vec<String> = def
                            .variant(*v)
                            .fields
                            .iter()
                            .map(|f| esc(&f.name.to_string()))
                            .collect();
                        format!(
                            "{{\"adt\":{},\"variant\":{},\"vidx\":{},\"fields\":[{}]}}",
                            esc(&self.defpath(*d)),
                            esc(&vn),
                            v.as_usize(),
                            fields.join(",")
                        )
                    }
                    AggregateKind::Closure(d, _) => {
                        format!("{{\"closure\":{}}}", esc(&self.defpath(*d)))
                    }
                    AggregateKind::Coroutine(d, _) => {
                        format!("{{\"coroutine\":{}}}", esc(&self.defpath(*d)))
                    }
                    _ => "\"other\"".to_string(),
                };
                let o: Vec<String> = ops.iter().map(|o| self.operand(body, o)).collect();
                format!("{{\"r\":\"agg\",\"kind\":{},\"ops\":[{}]}}", kind, o.join(","))
            }
            Rvalue::CopyForDeref(p) => {
                format!("{{\"r\":\"use\",\"ops\":[{{\"c\":{}}}]}}", self.place(body, p))
            }
            Rvalue::ThreadLocalRef(d) => {
                format!("{{\"r\":\"tls\",\"def\":{}}}", esc(&self.defpath(*d)))
            }
            _ => format!("{{\"r\":\"other\",\"dbg\":{}}}", esc(&format!("{:?}", rv))),
        }
    }

    fn callee(&self, body: &Body<'tcx>, owner: DefId, func: &Operand<'tcx>) -> String {
        let tcx = self.tcx;
        if let Some((def_id, args)) = func.const_fn_def() {
            let mut s = format!("{{\"path\":{}", esc(&self.defpath(def_id)));
            let _ = write!(s, ",\"name\":{}", esc(&tcx.item_name(def_id).to_string()));
            if let Some(tr) = tcx.trait_of_assoc(def_id) {
                let _ = write!(s, ",\"trait\":{}", esc(&self.defpath(tr)));
            }
            if let Some(imp) = tcx.impl_of_assoc(def_id) {
                let self_ty = tcx.type_of(imp).instantiate_identity().skip_norm_wip();
                let _ = write!(s, ",\"impl_self\":{}", esc(&self.ty(self_ty)));
            }
            let targs: Vec<String> = args
                .iter()
                .filter_map(|a| a.as_type())
                .map(|t| esc(&self.ty(t)))
                .collect();
            let _ = write!(s, ",\"targs\":[{}]", targs.join(","));
            // try to resolve to the concrete instance
            let env = TypingEnv::post_analysis(tcx, owner);
            if let Ok(Some(inst)) = Instance::try_resolve(tcx, env, def_id, args) {
                let rd = inst.def_id();
                if rd != def_id {
                    let _ = write!(s, ",\"resolved\":{}", esc(&self.defpath(rd)));
                    if let Some(imp) = tcx.impl_of_assoc(rd) {
                        let self_ty = tcx.type_of(imp).instantiate_identity().skip_norm_wip();
                        let _ = write!(s, ",\"resolved_self\":{}", esc(&self.ty(self_ty)));
                    }
                }
                if let ty::InstanceKind::Virtual(..) = inst.def {
                    s.push_str(",\"virtual\":true");
                }
            }
            s.push('}');
            s
        } else {
            let t = func.ty(body, tcx);
            format!("{{\"indirect\":true,\"ty\":{},\"op\":{}}}", esc(&self.ty(t)), self.operand(body, func))
        }
    }

    fn block(&self, body: &Body<'tcx>, owner: DefId, bb: &BasicBlockData<'tcx>) -> String {
        let mut s = String::new();
        let _ = write!(s, "{{\"cleanup\":{},\"stmts\":[", bb.is_cleanup);
        let mut first = true;
        for st in &bb.statements {
            let j = match &st.kind {
                StatementKind::Assign(b) => {
                    let (p, rv) = &**b;
                    Some(format!(
                        "{{\"s\":\"assign\",\"lhs\":{},\"rv\":{},{}}}",
                        self.place(body, p),
                        self.rvalue(body, rv),
                        self.span_json(st.source_info.span)
                    ))
                }
                StatementKind::SetDiscriminant { place, variant_index } => Some(format!(
                    "{{\"s\":\"setdiscr\",\"lhs\":{},\"v\":{},{}}}",
                    self.place(body, place),
                    variant_index.as_usize(),
                    self.span_json(st.source_info.span)
                )),
                StatementKind::StorageDead(l) => {
                    Some(format!("{{\"s\":\"dead\",\"l\":{}}}", l.as_usize()))
                }
                StatementKind::StorageLive(l) => {
                    Some(format!("{{\"s\":\"live\",\"l\":{}}}", l.as_usize()))
                }
                _ => None,
            };
            if let Some(j) = j {
                if !first {
                    s.push(',');
                }
                first = false;
                s.push_str(&j);
            }
        }
        s.push_str("],\"term\":");
        let term = bb.terminator();
        let sp = self.span_json(term.source_info.span);
        let unwind_s = |u: &mir::UnwindAction| match u {
            mir::UnwindAction::Cleanup(b) => format!("{}", b.as_usize()),
            _ => "null".to_string(),
        };
        let t = match &term.kind {
            TerminatorKind::Goto { target } => {
                format!("{{\"t\":\"goto\",\"target\":{},{}}}", target.as_usize(), sp)
            }
            TerminatorKind::SwitchInt { discr, targets } => {
                let ts: Vec<String> =
                    targets.iter().map(|(v, b)| format!("[{},{}]", v, b.as_usize())).collect();
                format!(
                    "{{\"t\":\"switch\",\"discr\":{},\"targets\":[{}],\"otherwise\":{},{}}}",
                    self.operand(body, discr),
                    ts.join(","),
                    targets.otherwise().as_usize(),
                    sp
                )
            }
            TerminatorKind::Return => format!("{{\"t\":\"return\",{}}}", sp),
            TerminatorKind::Unreachable => format!("{{\"t\":\"unreachable\",{}}}", sp),
            TerminatorKind::UnwindResume => format!("{{\"t\":\"resume\",{}}}", sp),
            TerminatorKind::UnwindTerminate(_) => format!("{{\"t\":\"abort\",{}}}", sp),
            TerminatorKind::Drop { place, target, unwind, .. } => format!(
                "{{\"t\":\"drop\",\"place\":{},\"target\":{},\"unwind\":{},{}}}",
                self.place(body, place),
                target.as_usize(),
                unwind_s(unwind),
                sp
            ),
            TerminatorKind::Call { func, args, destination, target, unwind, .. } => {
                let a: Vec<String> = args.iter().map(|a| self.operand(body, &a.node)).collect();
                format!(
                    "{{\"t\":\"call\",\"callee\":{},\"args\":[{}],\"dest\":{},\"target\":{},\"unwind\":{},{}}}",
                    self.callee(body, owner, func),
                    a.join(","),
                    self.place(body, destination),
                    match target {
                        Some(t) => format!("{}", t.as_usize()),
                        None => "null".to_string(),
                    },
                    unwind_s(unwind),
                    sp
                )
            }
            TerminatorKind::TailCall { func, args, .. } => {
                let a: Vec<String> = args.iter().map(|a| self.operand(body, &a.node)).collect();
                format!(
                    "{{\"t\":\"tailcall\",\"callee\":{},\"args\":[{}],{}}}",
                    self.callee(body, owner, func),
                    a.join(","),
                    sp
                )
            }
            TerminatorKind::Assert { cond, expected, msg, target, unwind } => {
                let kind = match &**msg {
                    mir::AssertKind::BoundsCheck { .. } => "bounds".to_string(),
                    mir::AssertKind::Overflow(op, ..) => format!("overflow:{:?}", op),
                    mir::AssertKind::OverflowNeg(..) => "overflow:Neg".to_string(),
                    mir::AssertKind::DivisionByZero(..) => "div0".to_string(),
                    mir::AssertKind::RemainderByZero(..) => "rem0".to_string(),
                    _ => "other".to_string(),
                };
                format!(
                    "{{\"t\":\"assert\",\"cond\":{},\"expected\":{},\"kind\":{},\"target\":{},\"unwind\":{},{}}}",
                    self.operand(body, cond),
                    expected,
                    esc(&kind),
                    target.as_usize(),
                    unwind_s(unwind),
                    sp
                )
            }
            TerminatorKind::FalseEdge { real_target, .. } => {
                format!("{{\"t\":\"goto\",\"target\":{},{}}}", real_target.as_usize(), sp)
            }
            TerminatorKind::FalseUnwind { real_target, .. } => {
                format!("{{\"t\":\"goto\",\"target\":{},{}}}", real_target.as_usize(), sp)
            }
            other => format!("{{\"t\":\"other\",\"dbg\":{},{}}}", esc(&format!("{:?}", other)), sp),
        };
        s.push_str(&t);
        s.push('}');
        s
    }

    fn body(&self, did: LocalDefId, body: &Body<'tcx>, promoted: Option<usize>) -> String {
        let tcx = self.tcx;
        let def_id = did.to_def_id();
        let mut s = String::new();
        let _ = write!(s, "{{\"path\":{}", esc(&self.defpath(def_id)));
        if let Some(p) = promoted {
            let _ = write!(s, ",\"promoted\":{}", p);
        }
        let kind = tcx.def_kind(def_id);
        let _ = write!(s, ",\"kind\":{}", esc(&format!("{:?}", kind)));
        let _ = write!(s, ",{}", self.span_json(tcx.def_span(def_id)));
        // strip "sp": prefix quirk: we emit both sp and (maybe) mac for the definition
        if matches!(kind, DefKind::Fn | DefKind::AssocFn) {
            let vis = tcx.visibility(def_id);
            let _ = write!(s, ",\"pub\":{}", vis.is_public());
        }
        if matches!(kind, DefKind::AssocFn) {
            if let Some(imp) = tcx.impl_of_assoc(def_id) {
                let self_ty = tcx.type_of(imp).instantiate_identity().skip_norm_wip();
                let _ = write!(s, ",\"impl_self\":{}", esc(&self.ty(self_ty)));
                if let Some(tr) = tcx.impl_opt_trait_ref(imp) {
                    let tr = tr.instantiate_identity().skip_norm_wip();
                    let _ = write!(s, ",\"impl_trait\":{}", esc(&self.defpath(tr.def_id)));
                }
            } else if let Some(tr) = tcx.trait_of_assoc(def_id) {
                let _ = write!(s, ",\"trait_default\":{}", esc(&self.defpath(tr)));
            }
        }
        if matches!(kind, DefKind::Closure) {
            let parent = tcx.typeck_root_def_id(def_id);
            let _ = write!(s, ",\"parent\":{}", esc(&self.defpath(parent)));
        }
        let _ = write!(s, ",\"argc\":{}", body.arg_count);
        // locals
        s.push_str(",\"locals\":[");
        for (i, d) in body.local_decls.iter().enumerate() {
            if i > 0 {
                s.push(',');
            }
            s.push_str(&esc(&self.ty(d.ty)));
        }
        s.push_str("],\"debug\":[");
        let mut first = true;
        for vdi in &body.var_debug_info {
            let v = match &vdi.value {
                mir::VarDebugInfoContents::Place(p) => self.place(body, p),
                mir::VarDebugInfoContents::Const(c) => {
                    format!("{{\"const\":{}}}", self.constant(&c.const_))
                }
            };
            if !first {
                s.push(',');
            }
            first = false;
            let _ = write!(s, "{{\"name\":{},\"v\":{}}}", esc(&vdi.name.to_string()), v);
        }
        s.push_str("],\"blocks\":[");
        for (i, bb) in body.basic_blocks.iter().enumerate() {
            if i > 0 {
                s.push(',');
            }
            s.push_str(&self.block(body, def_id, bb));
        }
        s.push_str("]}");
        s
    }

    fn adts(&self) -> String {
        let tcx = self.tcx;
        let mut out = Vec::new();
        for id in tcx.hir_free_items() {
            let did = id.owner_id.to_def_id();
            let kind = tcx.def_kind(did);
            match kind {
                DefKind::Struct | DefKind::Enum | DefKind::Union => {
                    let def = tcx.adt_def(did);
                    let mut s = format!(
                        "{{\"path\":{},\"kind\":{},{},\"variants\":[",
                        esc(&self.defpath(did)),
                        esc(&format!("{:?}", kind)),
                        self.span_json(tcx.def_span(did))
                    );
                    for (vi, v) in def.variants().iter().enumerate() {
                        if vi > 0 {
                            s.push(',');
                        }
                        let _ = write!(s, "{{\"name\":{},\"fields\":[", esc(&v.name.to_string()));
                        for (fi, f) in v.fields.iter().enumerate() {
                            if fi > 0 {
                                s.push(',');
                            }
                            let fty = tcx.type_of(f.did).instantiate_identity().skip_norm_wip();
                            let freeze = fty.is_freeze(tcx, TypingEnv::post_analysis(tcx, did));
                            let _ = write!(
                                s,
                                "{{\"name\":{},\"ty\":{},\"pub\":{},\"freeze\":{}}}",
                                esc(&f.name.to_string()),
                                esc(&self.ty(fty)),
                                f.vis.is_public(),
                                freeze
                            );
                        }
                        s.push_str("]}");
                    }
                    s.push_str("]}");
                    out.push(s);
                }
                DefKind::Static { mutability, .. } => {
                    let t = tcx.type_of(did).instantiate_identity().skip_norm_wip();
                    let freeze = t.is_freeze(tcx, TypingEnv::post_analysis(tcx, did));
                    out.push(format!(
                        "{{\"path\":{},\"kind\":\"Static\",\"mut\":{},\"ty\":{},\"freeze\":{},{}}}",
                        esc(&self.defpath(did)),
                        mutability.is_mut(),
                        esc(&self.ty(t)),
                        freeze,
                        self.span_json(tcx.def_span(did))
                    ));
                }
                _ => {}
            }
        }
        out.join(",")
    }
}

struct Cb {
    out: String,
    tag: String,
}

impl Callbacks for Cb {
    fn after_analysis<'tcx>(&mut self, _c: &Compiler, tcx: TyCtxt<'tcx>) -> Compilation {
        if tcx.dcx().has_errors().is_some() {
            return Compilation::Continue;
        }
        let root = std::env::var("MIRFACTS_ROOT").unwrap_or_default();
        let cx = Cx { tcx, root };
        let mut bodies = Vec::new();
        for did in tcx.hir_body_owners() {
            let def_id = did.to_def_id();
            let kind = tcx.def_kind(def_id);
            match kind {
                DefKind::Fn | DefKind::AssocFn | DefKind::Closure => {}
                _ => continue,
            }
            if tcx.is_constructor(def_id) {
                continue;
            }
            // const fn bodies and coroutines are fine with optimized_mir too
            let body = tcx.optimized_mir(def_id);
            bodies.push(cx.body(did, body, None));
            let promoted = tcx.promoted_mir(def_id);
            for (i, p) in promoted.iter().enumerate() {
                bodies.push(cx.body(did, p, Some(i)));
            }
        }
        let crate_name = tcx.crate_name(rustc_hir::def_id::LOCAL_CRATE).to_string();
        let pkg = std::env::var("CARGO_PKG_NAME").unwrap_or_default();
        let manifest_dir = std::env::var("CARGO_MANIFEST_DIR").unwrap_or_default();
        let s = format!(
            "{{\"pkg\":{},\"crate\":{},\"tag\":{},\"manifest_dir\":{},\"items\":[{}],\"bodies\":[\n{}\n]}}\n",
            esc(&pkg),
            esc(&crate_name),
            esc(&self.tag),
            esc(&manifest_dir),
            cx.adts(),
            bodies.join(",\n")
        );
        let fname = format!("{}/{}.{}.{}.json", self.out, pkg, crate_name, self.tag);
        let tmp = format!("{}.tmp{}", fname, std::process::id());
        std::fs::write(&tmp, s).expect("mirfacts: cannot write facts");
        std::fs::rename(&tmp, &fname).expect("mirfacts: cannot rename facts");
        Compilation::Continue
    }
}

fn main() {
    let mut args: Vec<String> = std::env::args().collect();
    // RUSTC_WORKSPACE_WRAPPER: argv[1] is the path of the real rustc
    if args.len() > 1 && (args[1].ends_with("rustc") || args[1].contains("/rustc")) {
        args.remove(1);
    }
    let out = std::env::var("MIRFACTS_OUT").unwrap_or_default();
    let is_probe = args.iter().any(|a| a == "-vV" || a.starts_with("--print") || a == "-")
        || !args.iter().any(|a| a.ends_with(".rs"));
    if out.is_empty() || is_probe {
        struct Nop;
        impl Callbacks for Nop {}
        rustc_driver::run_compiler(&args, &mut Nop);
        return;
    }
    // tag: crate type + test flag + cargo's metadata hash (unique per unit)
    let mut tag = String::new();
    let mut i = 0;
    while i < args.len() {
        if args[i] == "--crate-type" && i + 1 < args.len() {
            tag.push_str(&args[i + 1]);
        }
        if args[i] == "--test" {
            tag.push_str("-test");
        }
        if args[i] == "-C" && i + 1 < args.len() && args[i + 1].starts_with("metadata=") {
            tag.push('-');
            tag.push_str(&args[i + 1]["metadata=".len()..]);
        }
        if let Some(m) = args[i].strip_prefix("-Cmetadata=") {
            tag.push('-');
            tag.push_str(m);
        }
        i += 1;
    }
    if tag.is_empty() {
        tag.push_str("unit");
    }
    let mut cb = Cb { out, tag };
    rustc_driver::run_compiler(&args, &mut cb);
}
