"""Branch conditions: describe what a switchInt tests and which edges dominate a block."""
from .cfg import DefUse, Slice

class Cond:
    """what a switchInt's operand is: kind in
       bin   : comparison `op`(a, b)            (stmt)
       call  : bool result of a call            (term)
       discr : discriminant of a place          (place; `of` = defs of that place)
       field : direct read of a bool place      (place)
       const : constant-only local (drop flag)
       other
    negated: number of Not applied is odd"""
    def __init__(self, kind, **kw):
        self.kind = kind; self.negated = False
        self.__dict__.update(kw)
    def __repr__(self):
        d = {k: v for k, v in self.__dict__.items() if k not in ("kind",)}
        return "Cond(%s %r)" % (self.kind, d)

def _single_def(du, local):
    ds = du.value_defs(local)
    return ds[0] if len(ds) == 1 else None

def switch_cond(body, du, term):
    """describe the condition tested by switch terminator `term`"""
    op = term.discr
    if op.place is None:
        return Cond("const", value=op.cint())
    neg = False
    place = op.place
    for _ in range(20):
        if place.p:
            return _mk(Cond("field", place=place), neg)
        if du.const_only(place.l) is not None:
            return _mk(Cond("const", local=place.l), neg)
        ds = du.value_defs(place.l)
        if len(ds) != 1:
            return _mk(Cond("multi", local=place.l, defs=ds), neg)
        k, d = ds[0]
        if k == "arg": return _mk(Cond("arg", arg=d), neg)
        if k == "call": return _mk(Cond("call", term=d), neg)
        s = d
        if s.kind != "assign": return _mk(Cond("other", stmt=s), neg)
        if s.rv == "use" or s.rv == "cast":
            o = s.ops[0]
            if o.is_const: return _mk(Cond("const", value=o.cint()), neg)
            place = o.place; continue
        if s.rv == "un" and s.op == "Not":
            neg = not neg
            o = s.ops[0]
            if o.is_const: return _mk(Cond("const", value=o.cint()), neg)
            place = o.place; continue
        if s.rv == "bin": return _mk(Cond("bin", op=s.op, a=s.ops[0], b=s.ops[1], stmt=s), neg)
        if s.rv == "discr": return _mk(Cond("discr", place=s.rplace, stmt=s), neg)
        return _mk(Cond("other", stmt=s), neg)
    return _mk(Cond("other"), neg)

def _mk(c, neg):
    c.negated = neg
    return c

def bool_edges(term, cond=None):
    """for a switch on a bool: returns (true_edge, false_edge) as (src,label,dst), honouring negation"""
    f = None; t = None
    for v, b in term.targets:
        if v == 0: f = (term.bb, 0, b)
        elif v == 1: t = (term.bb, 1, b)
    if t is None: t = (term.bb, "otherwise", term.otherwise)
    if f is None: f = (term.bb, "otherwise", term.otherwise)
    if cond is not None and cond.negated: t, f = f, t
    return t, f

def dominating_edges(cfg, node):
    """all switch edges (src,label,dst) that every path entry->node must take"""
    out = []
    for b in cfg.blocks:
        if b.cleanup or b.term.kind != "switch": continue
        for lab, dst in cfg.succ[b.idx]:
            e = (b.idx, lab, dst)
            # several labels may share a target: the edge set to the same dst counts as one
            same = [(b.idx, l2, d2) for l2, d2 in cfg.succ[b.idx] if d2 == dst]
            if node not in cfg.reach_entry_sens(blocked_edges=set(same)) and node in cfg.reach(0):
                out.append(e)
    return out

def variant_edge(term, variant_idx):
    """edge of a discriminant switch taken for variant index"""
    for v, b in term.targets:
        if v == variant_idx: return (term.bb, v, b)
    return (term.bb, "otherwise", term.otherwise)


def bool_sources(du, local, max_nodes=60):
    """leaves a bool local can take its value from, following moves/copies/casts and `!` through every definition:
    list of ("const", int, negated) | ("call", term, negated) | ("other", obj, negated)"""
    out = []; seen = set(); work = [(local, False)]
    while work and len(seen) < max_nodes:
        l, neg = work.pop()
        if (l, neg) in seen: continue
        seen.add((l, neg))
        ds = du.value_defs(l)
        if not ds: out.append(("other", None, neg)); continue
        for k, d in ds:
            if k == "call": out.append(("call", d, neg)); continue
            if k == "arg": out.append(("other", d, neg)); continue
            s = d
            if s.kind != "assign" or s.lhs.p: out.append(("other", s, neg)); continue
            if s.rv in ("use", "cast") and s.ops:
                o = s.ops[0]
                if o.is_const: out.append(("const", o.cint(), neg))
                elif o.place is not None and not o.place.p: work.append((o.place.l, neg))
                else: out.append(("other", s, neg))
            elif s.rv == "un" and s.op == "Not" and s.ops and s.ops[0].place is not None and not s.ops[0].place.p:
                work.append((s.ops[0].place.l, not neg))
            else: out.append(("other", s, neg))
    return out


def edges_implying_call(body, du, cfg, pred):
    """switch edges (src,label,dst) on a bool local that can only be taken when a call satisfying `pred(term)` returned true
    (`pos`) resp. is known to be the only way the bool could have been true, so the false edge says nothing; returns (pos, neg):
    pos = edges implying the call returned true, neg = edges taken when the bool (whose sources include the call) is false"""
    pos = set(); neg = set()
    for b in body.blocks:
        if b.cleanup or b.term.kind != "switch": continue
        t = b.term
        if t.discr is None or t.discr.place is None or t.discr.place.p: continue
        src = bool_sources(du, t.discr.place.l)
        calls = [(c, n) for k, c, n in src if k == "call"]
        if not calls or not any(pred(c) for c, n in calls): continue
        # the bool is true only if some source is true: constants false and the matching (non-negated) calls
        can_true_other = [x for x in src if not ((x[0] == "const" and bool(x[1]) == x[2]) or (x[0] == "call" and pred(x[1]) and not x[2]))]
        te, fe = bool_edges(t)
        if not can_true_other: pos.add(te)
        neg.add(fe)
    return pos, neg
