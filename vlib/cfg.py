"""CFG utilities over mirfacts bodies: reachability with blocked edges/nodes,
dominators, def/use tables, backward slices, bounded path enumeration with
constant propagation of drop flags."""
from collections import defaultdict, deque

class Cfg:
    def __init__(self, body, unwind=False):
        self.body = body; self.unwind = unwind
        self.blocks = body.blocks
        self.n = len(self.blocks)
        self.succ = {}
        self.pred = defaultdict(list)
        for b in self.blocks:
            ss = b.term.succs(unwind=unwind)
            self.succ[b.idx] = ss
            for lab, t in ss:
                self.pred[t].append((lab, b.idx))
        self._dom = None

    # ---- reachability -------------------------------------------------
    def reach(self, start, blocked_nodes=(), blocked_edges=(), include_start=True):
        """set of blocks reachable from `start` (a block or iterable of blocks).
        blocked_edges: set of (src, dst) or (src, label, dst)."""
        bn = set(blocked_nodes); be = set(blocked_edges)
        if isinstance(start, int): start = [start]
        seen = set(); dq = deque()
        for s in start:
            if s in bn: continue
            dq.append(s)
            if include_start: seen.add(s)
        first = set(start)
        while dq:
            x = dq.popleft()
            for lab, t in self.succ[x]:
                if (x, t) in be or (x, lab, t) in be: continue
                if t in bn or t in seen: continue
                seen.add(t); dq.append(t)
        return seen

    def reach_sens(self, du, edge, blocked_nodes=(), blocked_edges=()):
        """blocks reachable after taking `edge` (src,label,dst), pruning branches whose outcome that edge already decides
        (known enum variants and constants are propagated, `?` is modelled; see vlib/absval.py)"""
        from . import absval
        return absval.sens_reach_from_edge(self, du, edge, blocked_nodes, blocked_edges)

    def after(self, edge, blocked_nodes=(), blocked_edges=()):
        """reach_sens with this graph's own def/use table: what can execute after `edge` (src,label,dst) was taken"""
        if getattr(self, "_du", None) is None: self._du = DefUse(self.body)
        return self.reach_sens(self._du, tuple(edge), blocked_nodes, blocked_edges)

    def reach_from_edges(self, edges, blocked_nodes=(), blocked_edges=()):
        """blocks reachable after taking one of the given edges [(src,label,dst)]"""
        starts = [e[-1] for e in edges]
        return self.reach(starts, blocked_nodes, blocked_edges)

    def must_pass(self, src, dst, through, blocked_edges=()):
        """every path src ->* dst passes a block in `through` (src itself counts when it is in `through`)"""
        if isinstance(dst, int): dst = [dst]
        if src in set(through): return True
        r = self.reach(src, blocked_nodes=set(through), blocked_edges=blocked_edges)
        return not any(d in r for d in dst)

    def reach_entry_sens(self, blocked_nodes=(), blocked_edges=()):
        """blocks reachable from the entry with the given edges removed, infeasible branches pruned (see vlib/absval.py);
        the plain graph is tried first because it is cheaper and already an upper bound"""
        r = self.reach(0, blocked_nodes, blocked_edges)
        key = (tuple(sorted(blocked_nodes)), tuple(sorted(map(str, blocked_edges))))
        if not hasattr(self, "_res"): self._res = {}
        if key not in self._res:
            from . import absval
            if getattr(self, "_du", None) is None: self._du = DefUse(self.body)
            if not hasattr(self, "_sg"): self._sg = absval.state_graph(self, self._du)
            if self._sg is None: self._res[key] = r
            else: self._res[key] = absval.graph_reach(self._sg, blocked_nodes, blocked_edges) & r
        return self._res[key]

    def must_pass_sens(self, src, dst, through):
        """must_pass with infeasible branches pruned (the `?` of a helper's Err return cannot take the success edge)"""
        if isinstance(dst, int): dst = [dst]
        if src in set(through): return True
        if self.must_pass(src, dst, through): return True
        from . import absval
        if getattr(self, "_du", None) is None: self._du = DefUse(self.body)
        r = absval.sens_reach(self, self._du, [(src, {})], blocked_nodes=set(through))
        return not any(d in r for d in dst)

    def must_pass_after(self, edge, dst, through):
        """once `edge` (src,label,dst) has been taken, every way to a block of `dst` goes through a block of `through`; branches whose
        outcome the edge decides (a value built on it and matched later, `?`) are pruned"""
        if isinstance(dst, int): dst = [dst]
        if edge[2] in set(through): return True
        if self.must_pass(edge[2], dst, through): return True
        from . import absval
        if getattr(self, "_du", None) is None: self._du = DefUse(self.body)
        r = absval.sens_reach_from_edge(self, self._du, tuple(edge), blocked_nodes=set(through))
        return not any(d in r for d in dst)

    def edge_dominates(self, edge, node):
        """node is unreachable from entry unless `edge` (src,label,dst) is taken"""
        if node not in self.reach(0, blocked_edges={edge}): return True
        return node not in self.reach_entry_sens(blocked_edges={edge})

    def edges_dominate(self, edges, node):
        if node not in self.reach(0, blocked_edges=set(edges)): return True
        return node not in self.reach_entry_sens(blocked_edges=set(edges))

    def reachable_from_entry(self):
        return self.reach(0)

    # ---- dominators -----------------------------------------------------
    def dominators(self):
        if self._dom is not None: return self._dom
        nodes = sorted(self.reach(0))
        dom = {n: set(nodes) for n in nodes}
        dom[0] = {0}
        changed = True
        while changed:
            changed = False
            for n in nodes:
                if n == 0: continue
                ps = [p for _, p in self.pred[n] if p in dom]
                if not ps: continue
                new = set.intersection(*[dom[p] for p in ps]) | {n}
                if new != dom[n]:
                    dom[n] = new; changed = True
        self._dom = dom
        return dom

    def dominates(self, a, b):
        """every feasible path from the entry to b passes a (plain dominators first; then with infeasible branches pruned)"""
        d = self.dominators()
        if b in d and a in d[b]: return True
        if b not in d: return False
        return a != b and b not in self.reach_entry_sens(blocked_nodes={a})

    # ---- exits -----------------------------------------------------------
    def returns(self):
        return [b.idx for b in self.blocks if b.term.kind == "return" and not b.cleanup]

    def cycles_exist(self, nodes=None):
        """is there a cycle among the (non-cleanup) nodes"""
        nodes = set(nodes) if nodes is not None else {b.idx for b in self.blocks if not b.cleanup}
        color = {}
        def dfs(u):
            color[u] = 1
            for _, v in self.succ[u]:
                if v not in nodes: continue
                c = color.get(v, 0)
                if c == 1: return True
                if c == 0 and dfs(v): return True
            color[u] = 2
            return False
        import sys
        sys.setrecursionlimit(10000)
        for n in nodes:
            if color.get(n, 0) == 0 and dfs(n): return True
        return False


class DefUse:
    """per-local definitions and uses"""
    def __init__(self, body, cleanup=False):
        self.body = body
        self.defs = defaultdict(list)   # local -> [("stmt", Stmt) | ("call", Term) | ("arg", idx)]
        self.uses = defaultdict(list)   # local -> [("stmt"/"term"/"drop", obj, how)]
        for i in range(1, body.argc + 1):
            self.defs[i].append(("arg", i))
        for b in body.blocks:
            if b.cleanup and not cleanup: continue
            for s in b.stmts:
                if s.kind == "assign":
                    self.defs[s.lhs.l].append(("stmt", s))
                    for o in s.ops:
                        if o.place is not None: self.uses[o.place.l].append(("stmt", s, o.kind))
                    if s.rplace is not None:
                        self.uses[s.rplace.l].append(("stmt", s, "ref" if s.rv in ("ref", "rawptr") else s.rv))
                    # writing through a projection reads the base when it contains a deref
                    if "*" in s.lhs.p: self.uses[s.lhs.l].append(("stmt", s, "deref-write"))
                elif s.kind == "setdiscr":
                    self.defs[s.lhs.l].append(("stmt", s))
            t = b.term
            if t.kind == "call":
                self.defs[t.dest.l].append(("call", t))
                for a in t.args:
                    if a.place is not None: self.uses[a.place.l].append(("term", t, a.kind))
                if t.callee.indirect:
                    o = t.callee.d.get("op")
            elif t.kind == "switch":
                if t.discr.place is not None: self.uses[t.discr.place.l].append(("term", t, "switch"))
            elif t.kind == "drop":
                self.uses[t.place.l].append(("drop", t, "drop"))
            elif t.kind == "assert":
                if t.cond.place is not None: self.uses[t.cond.place.l].append(("term", t, "assert"))

    def value_defs(self, local):
        """definitions of the local's own value: writes through it (`(*l).f = ..`) change the pointee, not the local"""
        return [(k, d) for k, d in self.defs.get(local, []) if not (k == "stmt" and d.kind == "assign" and d.lhs.p and d.lhs.p[0] == "*")]

    def const_only(self, local):
        """all definitions are constant assignments -> set of ints, else None"""
        vals = set()
        ds = self.defs.get(local, [])
        if not ds: return None
        for k, d in ds:
            if k != "stmt" or d.kind != "assign" or d.rv != "use" or not d.ops[0].is_const or d.lhs.p:
                return None
            v = d.ops[0].cint()
            if v is None: return None
            vals.add(v)
        return vals


# callees through which a value (or a view of it) flows unchanged for provenance purposes
PASS_THROUGH = (
    "=to_vec", "=clone", "=into", "=from", "=as_ref", "=as_mut", "=deref", "=deref_mut", "=to_string",
    "=to_owned", "=borrow", "=borrow_mut", "=as_str", "=as_bytes", "=into_iter", "=iter", "=unwrap", "=expect",
    "=branch", "=from_residual", "=map_err", "=ok", "=as_slice", "=into_boxed_slice", "=into_vec", "=index",
    "=as_deref", "=cloned", "=copied", "=unwrap_or_default", "=to_vec_in", "=into_owned", "=as_mut_slice",
)

class Slice:
    """Backward slice from a place: collects 'origins' — the leaves where the
    value comes from: ("arg", i), ("const", Op), ("call", Term) for calls that
    are not pass-through, ("agg", Stmt) for opaque aggregates, ("bin", Stmt)...
    Pass-through calls and moves/copies/refs/casts are followed."""
    def __init__(self, body, du=None, pass_through=PASS_THROUGH, extra_pass=()):
        self.body = body
        self.du = du or DefUse(body)
        self.pt = tuple(pass_through) + tuple(extra_pass)

    @staticmethod
    def _np(p):
        """normalised projection: derefs dropped, `.idx#name` -> `.idx`, `as Variant#idx` -> `as Variant`"""
        out = []
        for e in p:
            if e == "*": continue
            if e.startswith(".") or e.startswith("as "): e = e.split("#")[0]
            out.append(e)
        return tuple(out)

    def origins(self, place_or_op, follow_agg=True, max_steps=4000):
        start = place_or_op
        if hasattr(start, "kind") and hasattr(start, "const"):   # Op
            if start.is_const: return [("const", start)]
            start = start.place
        np = self._np
        down = lambda p: p[0][3:] if p and p[0].startswith("as ") else None
        out = []; seen = set()
        work = [(start.l, np(start.p))]
        through = []
        steps = 0
        while work:
            steps += 1
            if steps > max_steps: out.append(("limit", None)); break
            l, proj = work.pop()
            if (l, proj) in seen: continue
            seen.add((l, proj))
            ds = self.du.defs.get(l, [])
            if not ds:
                out.append(("undef", l)); continue
            for k, d in ds:
                if k == "arg":
                    out.append(("arg", d)); continue
                if k == "call":
                    t = d
                    if t.dest is not None and t.dest.p: 
                        # the call writes a part of l only
                        dp = np(t.dest.p)
                        if dp and proj and dp[0].startswith(".") and proj[0].startswith(".") and dp[0] != proj[0]: continue
                    # `?`, unwrap and friends: map the requested part of the result to the part of the argument it comes from
                    if not t.callee.indirect and t.args and t.args[0].place is not None and not (t.dest is not None and t.dest.p):
                        n = t.callee.name; st = t.callee.impl_self or ""
                        a0 = t.args[0].place; ap = np(a0.p)
                        inner = "as Ok" if "Result" in st else "as Some" if "Option" in st else None
                        if n == "branch" and "Try" in (t.callee.path + str(t.callee.trait)) and inner and proj:
                            if down(proj) == "Continue" and len(proj) >= 2 and proj[1] == ".0":
                                through.append(t); work.append((a0.l, ap + (inner, ".0") + proj[2:])); continue
                            if down(proj) == "Break" and len(proj) >= 2 and proj[1] == ".0":
                                through.append(t); work.append((a0.l, ap + proj[2:])); continue
                        if n == "from_residual" and down(proj) in ("Ok", "Some"):
                            through.append(t); continue          # a residual never carries a success value
                        if n in ("unwrap", "expect") and inner and "std::" in t.callee.path and t.callee.matches(*self.pt):
                            through.append(t); work.append((a0.l, ap + (inner, ".0") + proj)); continue
                        if n == "map_err" and down(proj) == "Ok" and t.callee.matches(*self.pt):
                            through.append(t); work.append((a0.l, ap + proj)); continue
                        # Option::zip(a, b) == Some((x, y)): element k of the pair is the payload of argument k
                        if n == "zip" and "option::Option" in (t.callee.path + st) and len(t.args) == 2 and down(proj) == "Some" and len(proj) >= 3 and proj[1] == ".0" and proj[2] in (".0", ".1"):
                            ak = t.args[int(proj[2][1:])]
                            if ak.place is not None:
                                through.append(t); work.append((ak.place.l, np(ak.place.p) + ("as Some", ".0") + proj[3:])); continue
                        # Option::ok_or / ok_or_else: the Ok payload is the Some payload
                        if n in ("ok_or", "ok_or_else") and "option::Option" in (t.callee.path + st) and down(proj) == "Ok":
                            through.append(t); work.append((a0.l, ap + ("as Some",) + proj[1:])); continue
                    if not t.callee.indirect and t.callee.matches(*self.pt):
                        through.append(t)
                        for a in t.args:
                            if a.place is not None:
                                work.append((a.place.l, np(a.place.p)))
                            else:
                                out.append(("const", a))
                    else:
                        out.append(("call", t))
                    continue
                s = d
                if s.kind == "setdiscr": continue
                lp = np(s.lhs.p)
                # partial write to a different field: skip when provably disjoint
                if lp and proj and lp[0].startswith(".") and proj[0].startswith(".") and lp[0] != proj[0]:
                    continue
                rest = proj[len(lp):] if proj[:len(lp)] == lp else ()
                if s.rv in ("use", "cast", "repeat"):
                    o = s.ops[0]
                    if o.is_const: out.append(("const", o))
                    else: work.append((o.place.l, np(o.place.p) + rest))
                elif s.rv in ("ref", "rawptr", "discr"):
                    rp = s.rplace
                    work.append((rp.l, np(rp.p) + rest))
                    if s.rv == "discr": through.append(s)
                elif s.rv == "agg":
                    if not follow_agg:
                        out.append(("agg", s)); continue
                    sel = None
                    # strip a leading downcast (an aggregate of another variant cannot be what is read), then a field selector
                    r = list(rest)
                    if r and r[0].startswith("as "):
                        want = r[0][3:]
                        if isinstance(s.agg, dict) and s.agg.get("variant") and s.agg.get("variant") != want: continue
                        r = r[1:]
                    if r and r[0].startswith("."):
                        try: sel = int(r[0][1:])
                        except ValueError: sel = None
                    if sel is not None and sel < len(s.ops):
                        o = s.ops[sel]
                        if o.is_const: out.append(("const", o))
                        else: work.append((o.place.l, np(o.place.p) + tuple(r[1:])))
                    else:
                        if not s.ops: out.append(("agg", s))
                        for o in s.ops:
                            if o.is_const: out.append(("const", o))
                            else: work.append((o.place.l, np(o.place.p)))
                        through.append(s)
                elif s.rv in ("bin", "un"):
                    out.append(("bin", s))
                else:
                    out.append(("other", s))
        self.last_through = through
        self.last_seen = seen
        return out


def enumerate_paths(cfg, start, stop_pred, max_paths=20000, max_len=400, du=None, on_limit=None, keep_dead=False, env0=None):
    """Enumerate acyclic paths (lists of block indices) from `start` until
    stop_pred(block) is true or a return/diverging block is hit. Drop flags and
    other locals with constant-only definitions are propagated along the path so
    that infeasible branches of drop-elaboration diamonds are pruned."""
    from . import absval
    body = cfg.body
    du = du or DefUse(body)
    paths = []
    stack = [(start, [start], env0 or {}, frozenset([start]))]
    while stack:
        b, path, env, onpath = stack.pop()
        env = absval.step_block(body, env, b)
        blk = body.blocks[b]
        if stop_pred(blk) and len(path) > 1 or (stop_pred(blk) and b != start):
            paths.append(path); continue
        t = blk.term
        succs = absval.feasible_succs(env, t, cfg.succ[b])
        env2 = absval.step_term(env, t)
        if not succs:
            # `unreachable` blocks and diverging calls: not an execution that returns
            if keep_dead: paths.append(path)
            continue
        for lab, d in succs:
            if d in onpath:   # loop back edge: record the path as ending in a back edge
                paths.append(path + [d]); continue
            if len(path) >= max_len or len(paths) + len(stack) > max_paths:
                if on_limit: on_limit()
                paths.append(path + [-1]); continue
            e3 = env2 if lab != "unwind" else env
            if t.kind == "switch": e3 = absval.refine_on_edge(body, du, e3, b, lab, d)
            stack.append((d, path + [d], e3, onpath | {d}))
    return paths


def ref_base(du, local, max_hops=12):
    """follow single-definition ref/copy chains: returns (base_local, saw_mut_ref)"""
    mut = False
    l = local
    for _ in range(max_hops):
        ds = du.value_defs(l)
        if len(ds) != 1 or ds[0][0] != "stmt": return l, mut
        s = ds[0][1]
        if s.kind != "assign" or s.lhs.p: return l, mut
        if s.rv in ("ref", "rawptr"):
            if s.bk and "mut" in str(s.bk).lower(): mut = True
            l = s.rplace.l; continue
        if s.rv in ("use", "cast") and s.ops and s.ops[0].place is not None:
            l = s.ops[0].place.l; continue
        return l, mut
    return l, mut


def forward_taint(body, du, seeds, cleanup=False, no_flow=()):
    """Flow-insensitive forward taint over locals. seeds: iterable of locals.
    A value flows: through every assignment that reads a tainted local; from any
    tainted call argument to the call's destination and to the base local of every
    argument passed by `&mut` (the callee may store it there). `no_flow`: callee
    name patterns (Callee.matches) through which nothing flows.
    Over-approximate on purpose: used for must-reach rules (absence of flow = violation)."""
    T = set(seeds)
    changed = True
    while changed:
        changed = False
        for b in body.blocks:
            if b.cleanup and not cleanup: continue
            for s in b.stmts:
                if s.kind != "assign": continue
                hit = any(o.place is not None and o.place.l in T for o in s.ops) or (s.rplace is not None and s.rplace.l in T)
                if hit and s.lhs.l not in T:
                    T.add(s.lhs.l); changed = True
                # a mutable reference to a tainted-through-deref local: writing *r = tainted taints the base
                if hit and "*" in s.lhs.p:
                    bl, _ = ref_base(du, s.lhs.l)
                    if bl not in T: T.add(bl); changed = True
            t = b.term
            if t.kind == "call":
                if not t.callee.indirect and no_flow and t.callee.matches(*no_flow): continue
                hit = any(a.place is not None and a.place.l in T for a in t.args)
                if hit:
                    if t.dest.l not in T: T.add(t.dest.l); changed = True
                    for a in t.args:
                        if a.place is None: continue
                        bl, mut = ref_base(du, a.place.l)
                        if mut and bl not in T: T.add(bl); changed = True
    return T


def ref_chain(du, local, max_hops=12):
    """all locals on the single-definition ref/copy chain starting at `local` (inclusive)"""
    out = [local]; l = local
    for _ in range(max_hops):
        ds = du.value_defs(l)
        if len(ds) != 1 or ds[0][0] != "stmt": break
        s = ds[0][1]
        if s.kind != "assign" or s.lhs.p: break
        if s.rv in ("ref", "rawptr"): l = s.rplace.l
        elif s.rv in ("use", "cast") and s.ops and s.ops[0].place is not None: l = s.ops[0].place.l
        else: break
        out.append(l)
    return out


NO_INDEX_PASS = tuple(x for x in PASS_THROUGH if x not in ("=index",))


def promoted_consts(body, op_or_const):
    """string/int constants of the promoted body a constant operand refers to (`fn::promoted[i]`), else []"""
    k = op_or_const.const if hasattr(op_or_const, "const") else op_or_const
    dbg = (k or {}).get("dbg", "") or (k or {}).get("str", "") or ""
    if "promoted[" not in str(dbg): return []
    from .facts import promoted_body
    pb = promoted_body(body, dbg)
    out = []
    if pb is not None:
        for s in pb.stmts():
            if s.kind == "assign":
                for o in s.ops:
                    if o.is_const:
                        if o.cstr() is not None: out.append(o.cstr())
                        elif o.cint() is not None: out.append(o.cint())
    return out


def param_fields(body, du, op, facts, param=1, extra_pass=()):
    """names of the fields of parameter `param` (a struct of the workspace, possibly behind references) that the operand derives
    from, following copies, reborrows, deref/iter-style accessors and captured closure environments"""
    if op is None or op.place is None: return set()
    sl = Slice(body, du, extra_pass=("=deref", "=deref_mut", "=as_slice", "=as_mut_slice", "=iter", "=iter_mut", "=into_iter", "=as_ref", "=as_mut", "=borrow", "=borrow_mut", "=by_ref") + tuple(extra_pass))
    sl.origins(op)
    ty = body.ty(param).replace("&mut ", "").replace("&", "").strip()
    name = ty.split("<")[0].split("::")[-1]
    names = None
    for u in facts.units:
        for it in u.items:
            if it.get("kind") == "Struct" and it.get("path", "").split("::")[-1] == name and it.get("variants"):
                names = [x["name"] for x in it["variants"][0].get("fields", [])]
    out = set()
    for (l, proj) in sl.last_seen:
        if l != param or not proj: continue
        e = proj[0]
        if e.startswith("."):
            try: k = int(e[1:])
            except ValueError: continue
            out.add(names[k] if names and k < len(names) else e)
    return out


def const_option_bool(body, sl, op):
    """value of a constant Option<bool> operand: "N" (None), "T" (Some(true)), "F" (Some(false)); None when it is not one known
    constant (a promoted `&Some(true)`, a local built as such, or a constant ADT value)"""
    from .facts import promoted_body
    cands = []
    def from_stmts(stmts):
        for st in stmts:
            if st.kind == "assign" and st.rv == "agg" and isinstance(st.agg, dict) and "Option" in st.agg.get("adt", ""):
                var = st.agg.get("variant")
                if var == "None": cands.append("N")
                elif var == "Some" and st.ops and st.ops[0].is_const and st.ops[0].cint() is not None: cands.append("T" if st.ops[0].cint() else "F")
                else: cands.append(None)
            elif st.kind == "assign" and st.rv == "use" and st.ops and st.ops[0].is_const:
                v = str((st.ops[0].const or {}).get("val", "") or "")
                if v: cands.append(from_val(v))
    def from_val(v):
        v = v.replace(" ", "")
        if v.endswith("Some(true)"): return "T"
        if v.endswith("Some(false)"): return "F"
        if v.endswith("None"): return "N"
        return None
    for k, o in sl.origins(op, follow_agg=False):
        if k == "const":
            c = o.const or {}
            dbg = str(c.get("dbg", "") or c.get("str", "") or "")
            if "promoted[" in dbg:
                pb = promoted_body(body, dbg)
                if pb is not None: from_stmts(pb.stmts())
                else: cands.append(None)
            elif c.get("val"): cands.append(from_val(str(c["val"])))
            else: cands.append(None)
        elif k == "agg": from_stmts([o])
        else: cands.append(None)
    return cands[0] if len(cands) == 1 else None


def const_strings(body, sl, op):
    """string constants an operand can evaluate to, resolving promoted references"""
    out = []
    for k, o in sl.origins(op):
        if k != "const": continue
        if o.cstr() is not None and "promoted[" not in o.cstr(): out.append(o.cstr())
        else: out += [x for x in promoted_consts(body, o) if isinstance(x, str)]
    return out


def question_mark_edges(body, du, call):
    """(Continue edge, Break edge) of the `?` applied to the result of `call` itself (directly or after map_err/map): the
    Try::branch whose operand is that result and nothing else. Returns (None, None) when there is none."""
    def is_err_def(k, d):
        if k == "call": return (not d.callee.indirect) and d.callee.name == "from_residual"
        return k == "stmt" and d.kind == "assign" and d.rv == "agg" and isinstance(d.agg, dict) and d.agg.get("variant") in ("Err", "None")
    def comes_from(local):
        l = local
        for _ in range(12):
            ds = du.value_defs(l)
            # a helper's return slot has one definition per exit: those that can only be Err/None do not matter for the Ok edge
            if len(ds) > 1: ds = [x for x in ds if not is_err_def(*x)]
            if len(ds) != 1: return False
            k, d = ds[0]
            if k == "call":
                if d is call: return True
                if not d.callee.indirect and d.callee.name in ("map_err", "map", "or_else", "inspect_err") and d.args and d.args[0].place is not None and not d.args[0].place.p:
                    l = d.args[0].place.l; continue
                return False
            if k == "stmt" and d.kind == "assign" and d.rv in ("use", "cast") and d.ops and d.ops[0].place is not None and not d.ops[0].place.p and not d.lhs.p:
                l = d.ops[0].place.l; continue
            return False
        return False
    best = None
    for t in body.calls("=branch"):
        if t.target is None or not t.args or t.args[0].place is None or t.args[0].place.p: continue
        if not comes_from(t.args[0].place.l): continue
        sw = body.blocks[t.target].term
        if sw.kind != "switch": continue
        if best is None or t.bb < best[0].bb: best = (t, sw)
    if best is None: return None, None
    sw = best[1]
    e0 = [(sw.bb, v, b) for v, b in sw.targets if v == 0]; e1 = [(sw.bb, v, b) for v, b in sw.targets if v == 1]
    return (e0[0] if e0 else (sw.bb, "otherwise", sw.otherwise)), (e1[0] if e1 else (sw.bb, "otherwise", sw.otherwise))


def release_blocks(body, du, guard_locals):
    """blocks in which a guard held in one of `guard_locals` is released: its drop terminator, or an explicit drop(guard) /
    mem::drop(guard) call that moves it away"""
    out = set()
    for b in body.blocks:
        if b.cleanup: continue
        t = b.term
        if t.kind == "drop" and t.place.l in guard_locals and not t.place.p: out.add(b.idx)
        elif t.kind == "call" and not t.callee.indirect and t.callee.name == "drop" and "mem" in t.callee.path and t.args and t.args[0].place is not None and not t.args[0].place.p:
            if any(l in guard_locals for l in ref_chain(du, t.args[0].place.l)): out.add(b.idx)
    return out
