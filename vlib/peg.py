"""Parser for the token tree of a `peg::parser!{}` invocation (peg 0.6 syntax as used by varlink_parser)
into a small grammar IR, plus the analyses the rules need: nullability, first-position call graph,
FIRST sets over character classes, regular compilation of non-recursive / right-linear rules to DFAs,
language inclusion with shortest witness.

IR nodes (tuples):
  ("lit", str) ("class", ((lo,hi),...)) ("any",) ("eps",) ("fail",)
  ("seq", [n...]) ("alt", [n...]) ("star", n) ("plus", n) ("opt", n)
  ("sepstar", n, sep) ("sepplus", n, sep) ("not", n) ("and", n) ("call", name)
"""
from .astfacts import lit_str_value
from .facts import AnchorMissing

MAXCP = 0x10FFFF


class GrammarError(Exception):
    pass


def _char_value(tok):
    s = tok["s"]
    if not (s.startswith("'") and s.endswith("'")): raise GrammarError("not a char literal: %r" % s)
    v = lit_str_value('"' + s[1:-1].replace('"', '\\"') + '"') if s[1:-1] != '"' else '"'
    if v is None or len(v) != 1: raise GrammarError("cannot evaluate char literal %r" % s)
    return ord(v)


def parse_class(tokens):
    """contents of [ ... ]: alternatives separated by '|', each a char or a range lo..=hi, or '_'"""
    toks = [t for t in tokens]
    if len(toks) == 1 and toks[0]["t"] == "ident" and toks[0]["s"] == "_": return ("any",)
    ranges = []
    i = 0
    while i < len(toks):
        t = toks[i]
        if t["t"] == "punct" and t["s"] == "|": i += 1; continue
        if t["t"] != "lit": raise GrammarError("unexpected token in character class: %r" % t)
        lo = _char_value(t)
        hi = lo
        # range: '..' '=' hi   (three puncts '.', '.', '=')
        if i + 3 < len(toks) and all(toks[i + k]["t"] == "punct" for k in (1, 2, 3)) and [toks[i + k]["s"] for k in (1, 2, 3)] == [".", ".", "="]:
            hi = _char_value(toks[i + 4]); i += 5
        else:
            i += 1
        ranges.append((lo, hi))
    return ("class", tuple(sorted(ranges)))


class _P:
    def __init__(self, toks):
        self.t = toks; self.i = 0
        self.meta = []          # per top-level alternative: dict(items=[(label|None, expr)], action=str|None)
    def peek(self, k=0):
        return self.t[self.i + k] if self.i + k < len(self.t) else None
    def is_punct(self, s, k=0):
        x = self.peek(k); return x is not None and x["t"] == "punct" and x["s"] == s
    def is_ident(self, s=None, k=0):
        x = self.peek(k); return x is not None and x["t"] == "ident" and (s is None or x["s"] == s)
    def is_group(self, d, k=0):
        x = self.peek(k); return x is not None and x["t"] == "group" and x["d"] == d
    def next(self):
        x = self.t[self.i]; self.i += 1; return x
    def at_item_start(self):
        if self.is_ident("rule") or self.is_ident("use"): return True
        if self.is_ident("pub") and (self.is_ident("rule", 1) or self.is_group("(", 1)): return True
        if self.is_punct("#"): return True
        return False

    # choice := seq ('/' seq)*
    def choice(self):
        alts = [self.seq()]
        while self.is_punct("/"):
            self.next(); alts.append(self.seq())
        return alts[0] if len(alts) == 1 else ("alt", alts)
    def seq(self):
        from .astfacts import tt_str
        items = []; lab = []; action = None
        while True:
            x = self.peek()
            if x is None or self.is_punct("/") or self.at_item_start(): break
            if self.is_group("{"):       # action block
                action = tt_str(self.next()["c"]); break
            l, e = self.labeled()
            items.append(e); lab.append((l, e))
        self.meta.append(dict(items=lab, action=action))
        if not items: return ("eps",)
        return items[0] if len(items) == 1 else ("seq", items)
    def labeled(self):
        l = None
        if self.is_ident() and self.is_punct(":", 1) and not self.is_punct(":", 2):
            l = self.next()["s"]; self.next()
        return l, self.prefixed()
    def prefixed(self):
        if self.is_punct("$"):
            self.next(); return self.prefixed()
        if self.is_punct("!"):
            self.next(); return ("not", self.prefixed())
        if self.is_punct("&"):
            self.next(); return ("and", self.prefixed())
        return self.suffixed()
    def suffixed(self):
        e = self.primary()
        while True:
            if self.is_punct("*"):
                if self.is_punct("*", 1) and self.peek()["j"]:
                    self.next(); self.next(); sep = self.primary(); e = ("sepstar", e, sep)
                else:
                    self.next(); e = ("star", e)
            elif self.is_punct("+"):
                if self.is_punct("+", 1) and self.peek()["j"]:
                    self.next(); self.next(); sep = self.primary(); e = ("sepplus", e, sep)
                else:
                    self.next(); e = ("plus", e)
            elif self.is_punct("?"):
                self.next(); e = ("opt", e)
            else:
                return e
    def primary(self):
        x = self.peek()
        if x is None: raise GrammarError("unexpected end of rule")
        if x["t"] == "lit":
            self.next()
            v = lit_str_value(x["s"])
            if v is None: raise GrammarError("unsupported literal %r" % x["s"])
            return ("lit", v)
        if x["t"] == "group" and x["d"] == "[":
            self.next(); return parse_class(x["c"])
        if x["t"] == "group" and x["d"] == "(":
            self.next(); return _P(x["c"]).choice_all()
        if x["t"] == "ident":
            name = x["s"]
            if self.is_punct("!", 1):          # macro-like: quiet!{..} expected!(..) position!()
                self.next(); self.next(); g = self.next()
                if name == "quiet": return _P(g["c"]).choice_all()
                if name == "expected": return ("fail",)
                if name == "position": return ("eps",)
                raise GrammarError("unknown peg macro %s!" % name)
            if self.is_group("(", 1):
                self.next(); self.next(); return ("call", name)
            if name == "_":
                self.next(); return ("any",)
        raise GrammarError("unexpected token %r" % (x.get("s", x.get("d")),))
    def choice_all(self):
        e = self.choice()
        if self.peek() is not None: raise GrammarError("trailing tokens in group: %r" % self.peek())
        return e


class Grammar:
    def __init__(self, rules, order, lines):
        self.rules = rules; self.order = order; self.lines = lines
        self._nullable = None

    @staticmethod
    def from_macro(mac):
        toks = mac["tokens"]
        body = None
        for t in toks:
            if t["t"] == "group" and t["d"] == "{": body = t["c"]
        if body is None: raise GrammarError("no grammar body")
        p = _P(body); rules = {}; order = []; lines = {}; metas = {}
        while p.peek() is not None:
            if p.is_ident("use"):
                while not p.is_punct(";"): p.next()
                p.next(); continue
            if p.is_punct("#"):
                p.next(); p.next(); continue
            if p.is_ident("pub"):
                p.next()
                if p.is_group("("): p.next()
            if not p.is_ident("rule"): raise GrammarError("expected `rule`, found %r" % p.peek())
            p.next()
            name = p.next()["s"]; lines[name] = p.t[p.i - 1].get("l", 0)
            p.next()                       # ()
            # optional return type up to '='
            while not (p.is_punct("=") and not p.is_punct(">", 1)):
                if p.peek() is None: raise GrammarError("rule %s: no '='" % name)
                p.next()
            p.next()
            p.meta = []
            rules[name] = p.choice(); order.append(name)
            metas[name] = p.meta
            if p.is_punct(";"): p.next()
        g = Grammar(rules, order, lines); g.meta = metas
        return g

    # ---- generic analyses ------------------------------------------------
    def nullable(self):
        if self._nullable is not None: return self._nullable
        N = {r: False for r in self.rules}
        def nl(e):
            k = e[0]
            if k in ("eps", "not", "and", "star", "opt", "sepstar"): return True
            if k in ("lit",): return e[1] == ""
            if k in ("class", "any", "fail"): return False
            if k == "seq": return all(nl(x) for x in e[1])
            if k == "alt": return any(nl(x) for x in e[1])
            if k in ("plus", "sepplus"): return nl(e[1])
            if k == "call": return N.get(e[1], False)
            raise GrammarError("node %r" % (k,))
        changed = True
        while changed:
            changed = False
            for r, e in self.rules.items():
                v = nl(e)
                if v != N[r]: N[r] = v; changed = True
        self._nullable = N; self._nl = nl
        return N
    def is_nullable(self, e):
        self.nullable(); return self._nl(e)

    def first_calls(self, e):
        """rules that can be entered at the position where e starts (without consuming)"""
        k = e[0]
        if k == "call": return {e[1]}
        if k in ("lit", "class", "any", "eps", "fail"): return set()
        if k in ("star", "plus", "opt", "not", "and"): return self.first_calls(e[1])
        if k in ("sepstar", "sepplus"):
            s = self.first_calls(e[1])
            if self.is_nullable(e[1]): s |= self.first_calls(e[2])
            return s
        if k == "alt":
            s = set()
            for x in e[1]: s |= self.first_calls(x)
            return s
        if k == "seq":
            s = set()
            for x in e[1]:
                s |= self.first_calls(x)
                if not self.is_nullable(x): break
            return s
        raise GrammarError(k)

    def first_closure(self, e):
        seen = set(); work = list(self.first_calls(e))
        while work:
            r = work.pop()
            if r in seen: continue
            seen.add(r)
            if r in self.rules: work += list(self.first_calls(self.rules[r]))
        return seen

    def calls(self, e):
        k = e[0]
        if k == "call": return {e[1]}
        out = set()
        for x in e[1:]:
            if isinstance(x, tuple): out |= self.calls(x)
            elif isinstance(x, list):
                for y in x: out |= self.calls(y)
        return out
    def reach(self, rule):
        seen = set(); work = list(self.calls(self.rules[rule]))
        while work:
            r = work.pop()
            if r in seen or r not in self.rules: continue
            seen.add(r); work += list(self.calls(self.rules[r]))
        return seen
    def recursive_rules(self):
        return {r for r in self.rules if r in self.reach(r)}

    def loops(self, e, out=None):
        out = [] if out is None else out
        k = e[0]
        if k in ("star", "plus"): out.append((k, e[1], None))
        if k in ("sepstar", "sepplus"): out.append((k, e[1], e[2]))
        for x in e[1:]:
            if isinstance(x, tuple): self.loops(x, out)
            elif isinstance(x, list):
                for y in x: self.loops(y, out)
        return out

    def first_chars(self, e, depth=0):
        """(set of ranges as list, can_be_empty) — characters a match of e can start with"""
        k = e[0]
        if depth > 60: return [(0, MAXCP)], True
        if k == "lit": return ([(ord(e[1][0]), ord(e[1][0]))], False) if e[1] else ([], True)
        if k == "class": return list(e[1]), False
        if k == "any": return [(0, MAXCP)], False
        if k in ("eps", "not", "and"): return [], True
        if k == "fail": return [], False
        if k in ("star", "opt"): return self.first_chars(e[1], depth + 1)[0], True
        if k == "plus": return self.first_chars(e[1], depth + 1)
        if k in ("sepstar", "sepplus"):
            f, n = self.first_chars(e[1], depth + 1)
            if n: f = f + self.first_chars(e[2], depth + 1)[0]
            return f, (k == "sepstar") or n
        if k == "alt":
            f = []; n = False
            for x in e[1]:
                ff, nn = self.first_chars(x, depth + 1); f += ff; n = n or nn
            return f, n
        if k == "seq":
            f = []
            for x in e[1]:
                ff, nn = self.first_chars(x, depth + 1); f += ff
                if not nn: return f, False
            return f, True
        if k == "call": return self.first_chars(self.rules[e[1]], depth + 1)
        raise GrammarError(k)

    def inline(self, e, stack=(), stop=()):
        """replace calls by rule bodies (rules in `stop` stay as calls); recursion is an error"""
        k = e[0]
        if k == "call":
            if e[1] in stop: return e
            if e[1] in stack: raise GrammarError("rule %s is recursive" % e[1])
            return self.inline(self.rules[e[1]], stack + (e[1],), stop)
        if k in ("lit", "class", "any", "eps", "fail"): return e
        if k in ("seq", "alt"): return (k, [self.inline(x, stack, stop) for x in e[1]])
        if k in ("star", "plus", "opt", "not", "and"): return (k, self.inline(e[1], stack, stop))
        if k in ("sepstar", "sepplus"): return (k, self.inline(e[1], stack, stop), self.inline(e[2], stack, stop))
        raise GrammarError(k)


def ranges_overlap(a, b):
    for lo, hi in a:
        for l2, h2 in b:
            if lo <= h2 and l2 <= hi: return (max(lo, l2), min(hi, h2))
    return None


# ---------------------------------------------------------------- automata
class NFA:
    def __init__(self):
        self.n = 0; self.eps = {}; self.tr = {}     # tr[s] = [(ranges, t)]
    def new(self):
        s = self.n; self.n += 1; self.eps[s] = []; self.tr[s] = []; return s


def _desugar(e):
    k = e[0]
    if k == "sepstar": return ("opt", ("seq", [e[1], ("star", ("seq", [e[2], e[1]]))]))
    if k == "sepplus": return ("seq", [e[1], ("star", ("seq", [e[2], e[1]]))])
    return e


def _complement(ranges):
    out = []; lo = 0
    for a, b in sorted(ranges):
        if a > lo: out.append((lo, a - 1))
        lo = max(lo, b + 1)
    if lo <= MAXCP: out.append((lo, MAXCP))
    return tuple(out)


def _as_ranges(e):
    """ranges of a single-character expression (class, one-character literal, choice of those), else None"""
    if e[0] == "class": return tuple(e[1])
    if e[0] == "lit" and len(e[1]) == 1: return ((ord(e[1]), ord(e[1])),)
    if e[0] == "alt":
        out = []; multi = []
        for x in e[1]:
            r = _as_ranges(x)
            if r is None:
                if x[0] == "lit" and len(x[1]) > 1: multi.append(x[1]); continue
                return None
            out += list(r)
        # `!("\r\n" / "\r" / ..)`: a longer literal whose first character is itself an alternative adds nothing to the set of
        # positions at which the lookahead fails
        for m in multi:
            c = ord(m[0])
            if not any(a <= c <= b for a, b in out): return None
        return tuple(out)
    return None


def normalize_lookahead(e):
    """rewrite the idiom `!X _` (X a set of single characters) into the complemented character class; everything else unchanged"""
    k = e[0]
    if k == "seq":
        items = [normalize_lookahead(x) for x in e[1]]
        out = []; i = 0
        while i < len(items):
            x = items[i]
            if x[0] == "not" and i + 1 < len(items) and items[i + 1][0] in ("any", "class"):
                r = _as_ranges(x[1])
                if r is not None:
                    base = ((0, MAXCP),) if items[i + 1][0] == "any" else tuple(items[i + 1][1])
                    comp = _complement(r)
                    # intersection of base and comp
                    inter = []
                    for a, b in base:
                        for c, d in comp:
                            lo, hi = max(a, c), min(b, d)
                            if lo <= hi: inter.append((lo, hi))
                    out.append(("class", tuple(inter))); i += 2; continue
            out.append(x); i += 1
        return ("seq", out) if len(out) != 1 else out[0]
    if k == "alt": return ("alt", [normalize_lookahead(x) for x in e[1]])
    if k in ("star", "plus", "opt", "not", "and"): return (k, normalize_lookahead(e[1]))
    if k in ("sepstar", "sepplus"): return (k, normalize_lookahead(e[1]), normalize_lookahead(e[2]))
    return e


def build_nfa(e, nfa, start, self_rule=None, self_start=None, symbols=None):
    """Thompson construction; returns the accepting state of the fragment. `not`/`and` are not regular here."""
    e = _desugar(e)
    k = e[0]
    if k == "eps": return start
    if k == "fail":
        return nfa.new()               # unreachable state
    if k == "lit":
        s = start
        for ch in e[1]:
            t = nfa.new(); nfa.tr[s].append((((ord(ch), ord(ch)),), t)); s = t
        return s
    if k == "class":
        t = nfa.new(); nfa.tr[start].append((tuple(e[1]), t)); return t
    if k == "any":
        t = nfa.new(); nfa.tr[start].append((((0, MAXCP),), t)); return t
    if k == "seq":
        s = start
        for x in e[1]: s = build_nfa(x, nfa, s, self_rule, self_start, symbols)
        return s
    if k == "alt":
        end = nfa.new()
        for x in e[1]:
            s = nfa.new(); nfa.eps[start].append(s)
            f = build_nfa(x, nfa, s, self_rule, self_start, symbols); nfa.eps[f].append(end)
        return end
    if k in ("star", "plus", "opt"):
        s = nfa.new(); nfa.eps[start].append(s)
        f = build_nfa(e[1], nfa, s, self_rule, self_start, symbols)
        end = nfa.new(); nfa.eps[f].append(end)
        if k in ("star", "opt"): nfa.eps[start].append(end)
        if k in ("star", "plus"): nfa.eps[f].append(s)
        return end
    if k == "call":
        if symbols and e[1] in symbols:
            t = nfa.new(); c = symbols[e[1]]; nfa.tr[start].append((((c, c),), t)); return t
        if self_rule is not None and e[1] == self_rule:
            # right-linear self call: jump back to the rule's start; nothing may follow (checked by caller)
            nfa.eps[start].append(self_start); return nfa.new()
        raise GrammarError("call to %s cannot be compiled" % e[1])
    raise GrammarError("construct %s is not regular here" % k)


class DFA:
    def __init__(self, nfa, start, accept, cuts):
        self.cuts = cuts                      # sorted boundary points: atoms are [cuts[i], cuts[i+1]-1]
        self.atoms = [(cuts[i], cuts[i + 1] - 1) for i in range(len(cuts) - 1)]
        def closure(S):
            S = set(S); work = list(S)
            while work:
                x = work.pop()
                for y in nfa.eps[x]:
                    if y not in S: S.add(y); work.append(y)
            return frozenset(S)
        s0 = closure([start])
        self.states = {s0: 0}; self.trans = {}; self.acc = set(); order = [s0]
        i = 0
        while i < len(order):
            S = order[i]; sid = self.states[S]; i += 1
            if any(a in S for a in accept): self.acc.add(sid)
            for ai, (lo, hi) in enumerate(self.atoms):
                T = set()
                for x in S:
                    for rngs, t in nfa.tr[x]:
                        if any(l <= lo and hi <= h for l, h in rngs): T.add(t)
                if not T: continue
                T = closure(T)
                if T not in self.states:
                    self.states[T] = len(self.states); order.append(T)
                self.trans[(sid, ai)] = self.states[T]


def collect_cuts(*exprs):
    pts = {0, MAXCP + 1}
    def walk(e):
        e = _desugar(e)
        k = e[0]
        if k == "lit":
            for ch in e[1]: pts.add(ord(ch)); pts.add(ord(ch) + 1)
        elif k == "class":
            for lo, hi in e[1]: pts.add(lo); pts.add(hi + 1)
        for x in e[1:]:
            if isinstance(x, tuple): walk(x)
            elif isinstance(x, list):
                for y in x: walk(y)
    for e in exprs: walk(e)
    return sorted(pts)


def compile_dfa(e, cuts, self_rule=None, symbols=None):
    nfa = NFA(); s = nfa.new()
    f = build_nfa(e, nfa, s, self_rule, s, symbols)
    return DFA(nfa, s, {f}, cuts)


def difference_witness(A, B):
    """shortest string (list of atom indices -> chars) accepted by A and not by B, or None. Both built over the same cuts."""
    from collections import deque
    start = (0, 0); prev = {start: None}; dq = deque([start])
    natoms = len(A.atoms)
    while dq:
        a, b = dq.popleft()
        if a in A.acc and (b is None or b not in B.acc):
            out = []; cur = (a, b)
            while prev[cur] is not None:
                cur, ai = prev[cur]; out.append(ai)
            out.reverse()
            return "".join(_pick(A.atoms[ai]) for ai in out)
        for ai in range(natoms):
            na = A.trans.get((a, ai))
            if na is None: continue
            nb = B.trans.get((b, ai)) if b is not None else None
            st = (na, nb)
            if st not in prev:
                prev[st] = ((a, b), ai); dq.append(st)
    return None


def _pick(atom):
    lo, hi = atom
    for c in range(lo, min(hi, lo + 200) + 1):
        ch = chr(c)
        if ch.isprintable() and not ch.isspace(): return ch
    return chr(lo)


def determinate(g, e, follow_chars):
    """LL(1)-style condition under which PEG (greedy, possessive) and regular semantics of `e` coincide:
    for every loop/option the characters that can start its body are disjoint from those that can follow it,
    and the alternatives of every choice start with disjoint characters. Returns list of conflicts."""
    conflicts = []
    def walk(e, follow):
        e = _desugar(e)
        k = e[0]
        if k in ("lit", "class", "any", "eps", "fail", "call"): return
        if k == "seq":
            items = e[1]
            for i, x in enumerate(items):
                f = []
                for y in items[i + 1:]:
                    ff, nn = g.first_chars(y); f += ff
                    if not nn: break
                else:
                    f += follow
                walk(x, f)
            return
        if k == "alt":
            firsts = [g.first_chars(x)[0] for x in e[1]]
            inl = [g.inline(x) for x in e[1]]
            for i in range(len(firsts)):
                for j in range(i + 1, len(firsts)):
                    o = ranges_overlap(firsts[i], firsts[j])
                    if not o: continue
                    # two literals in longest-first order: the ordered choice and the set union accept the same whole strings
                    if inl[i][0] == "lit" and inl[j][0] == "lit" and not (inl[j][1].startswith(inl[i][1]) and inl[j][1] != inl[i][1]) and not follow: continue
                    conflicts.append("choice alternatives %d and %d both start with %r" % (i, j, chr(o[0])))
            for x in e[1]: walk(x, follow)
            return
        if k in ("star", "plus", "opt"):
            body_first = g.first_chars(e[1])[0]
            fol = list(follow)
            o = ranges_overlap(body_first, fol)
            if o: conflicts.append("%s body can start with %r which can also follow it" % (k, chr(o[0])))
            walk(e[1], fol + (body_first if k != "opt" else []))
            return
        if k in ("not", "and"):
            conflicts.append("lookahead is not supported in a lexical rule"); return
        raise GrammarError(k)
    walk(e, list(follow_chars))
    return conflicts


def find_grammar(ast, rel):
    macs = [m for m in ast.item_macros(rel) if m["path"].endswith("parser")]
    if len(macs) != 1: raise AnchorMissing("%s: expected one peg::parser! invocation, found %d" % (rel, len(macs)))
    return Grammar.from_macro(macs[0])


# ---------------------------------------------------------------- PEG interpreter (exact PEG semantics, used for bounded cross-checks)
def peg_match(g, e, s, pos, memo=None, rules=None):
    """position after matching expression e at s[pos:], or None. Ordered choice, greedy possessive loops, lookahead."""
    rules = rules if rules is not None else g.rules
    e = _desugar(e)
    k = e[0]
    if k == "eps": return pos
    if k == "fail": return None
    if k == "lit": return pos + len(e[1]) if s.startswith(e[1], pos) else None
    if k == "class":
        if pos < len(s) and any(lo <= ord(s[pos]) <= hi for lo, hi in e[1]): return pos + 1
        return None
    if k == "any": return pos + 1 if pos < len(s) else None
    if k == "seq":
        for x in e[1]:
            pos = peg_match(g, x, s, pos, memo, rules)
            if pos is None: return None
        return pos
    if k == "alt":
        for x in e[1]:
            r = peg_match(g, x, s, pos, memo, rules)
            if r is not None: return r
        return None
    if k in ("star", "plus"):
        n = 0
        while True:
            r = peg_match(g, e[1], s, pos, memo, rules)
            if r is None or r == pos: break
            pos = r; n += 1
        return pos if (k == "star" or n > 0) else None
    if k == "opt":
        r = peg_match(g, e[1], s, pos, memo, rules)
        return pos if r is None else r
    if k == "not": return pos if peg_match(g, e[1], s, pos, memo, rules) is None else None
    if k == "and": return pos if peg_match(g, e[1], s, pos, memo, rules) is not None else None
    if k == "call":
        key = (e[1], pos)
        if memo is not None and key in memo: return memo[key]
        r = peg_match(g, rules[e[1]], s, pos, memo, rules)
        if memo is not None: memo[key] = r
        return r
    raise GrammarError(k)


def dfa_accepts(d, s):
    st = 0
    for ch in s:
        c = ord(ch)
        ai = None
        for i, (lo, hi) in enumerate(d.atoms):
            if lo <= c <= hi: ai = i; break
        st = d.trans.get((st, ai))
        if st is None: return False
    return st in d.acc


def bounded_compare(g, rule, ref, alphabet, maxlen, rules=None):
    """compare full-match PEG acceptance of `rule` with the reference expression on every string over `alphabet` (list of
    token strings) up to maxlen tokens. returns (number of strings, first difference or None)"""
    from itertools import product
    cuts = collect_cuts(ref, *[("lit", a) for a in alphabet])
    dr = compile_dfa(ref, cuts)
    n = 0
    for L in range(0, maxlen + 1):
        for toks in product(alphabet, repeat=L):
            s = "".join(toks); n += 1
            a = peg_match(g, ("call", rule), s, 0, {}, rules) == len(s)
            b = dfa_accepts(dr, s)
            if a != b: return n, (s, a, b)
    return n, None
