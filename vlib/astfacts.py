"""Loader for the syn-based AST/token facts (tools/astfacts) and helpers on token trees."""
import json, os
from .facts import AnchorMissing

class AstFn:
    def __init__(self, d, path):
        self.d = d; self.file = path
        self.name = d["name"]; self.self_ty = d["self_ty"]; self.trait = d["trait"]; self.module = d["module"]
        self.line = d["line"]; self.end_line = d["end_line"]; self.attrs = d["attrs"]; self.sig = d["sig"]
        self.events = d["events"]
    @property
    def qual(self):
        q = self.name
        if self.self_ty: q = self.self_ty.replace(" ", "") + "::" + q
        if self.trait: q = "<" + self.trait.replace(" ", "") + ">" + q
        return q
    def ev(self, *kinds):
        return [e for e in self.events if e["k"] in kinds]
    def macros(self, name=None):
        return [e for e in self.events if e["k"] == "macro" and (name is None or e["name"] == name or e["name"].endswith("::" + name))]
    def __repr__(self): return "<AstFn %s:%d %s>" % (self.file, self.line, self.qual)

class AstFacts:
    def __init__(self, directory):
        self.dir = directory
        self.files = {}
        self.texts = {}
        d = json.load(open(os.path.join(directory, "ast.json")))
        for rec in d.get("files", []):
            rec["_fns"] = [AstFn(f, rec["path"]) for f in rec["fns"]]
            self.files[rec["path"]] = rec
        t = json.load(open(os.path.join(directory, "text.json")))
        for rec in t.get("texts", []):
            self.texts[rec["path"]] = rec["text"]
    def file(self, rel):
        if rel not in self.files:
            raise AnchorMissing("no AST facts for %s" % rel)
        return self.files[rel]
    def fns(self, rel, name=None, self_ty=None, trait=None):
        out = []
        for f in self.file(rel)["_fns"]:
            if name is not None and f.name != name: continue
            if self_ty is not None and f.self_ty.replace(" ", "") != self_ty.replace(" ", ""): continue
            if trait is not None and trait.replace(" ", "") not in f.trait.replace(" ", ""): continue
            out.append(f)
        return out
    def fn(self, rel, name, self_ty=None, trait=None):
        r = self.fns(rel, name, self_ty, trait)
        if len(r) != 1:
            raise AnchorMissing("%s: expected exactly one fn %s (self=%s trait=%s), found %d" % (rel, name, self_ty, trait, len(r)))
        return r[0]
    def items(self, rel, kind=None, name=None):
        return [i for i in self.file(rel)["items"] if (kind is None or i["kind"] == kind) and (name is None or i["name"] == name)]
    def items_in_crate(self, rel, kind=None, name=None):
        """like items(), but looks in every source file next to `rel` as well (a type may have moved into a sibling module);
        returns (file, item) pairs"""
        d = os.path.dirname(rel)
        out = []
        for path, rec in self.files.items():
            if os.path.dirname(path) != d and not path.startswith(d + "/"): continue
            for i in rec["items"]:
                if (kind is None or i["kind"] == kind) and (name is None or i["name"] == name): out.append((path, i))
        return out
    def item_macros(self, rel):
        return self.file(rel)["macros"]
    def text(self, rel):
        if rel not in self.texts: raise AnchorMissing("no text facts for %s" % rel)
        return self.texts[rel]

# ---- token tree helpers -------------------------------------------------
def tt_str(tokens):
    """flat rendering of a token tree list"""
    out = []
    for t in tokens:
        if t["t"] == "group":
            close = {"(": ")", "{": "}", "[": "]", "": ""}[t["d"]]
            out.append(t["d"] + " " + tt_str(t["c"]) + " " + close)
        else:
            out.append(t["s"])
    return " ".join(x for x in out if x != "")

def tt_walk(tokens):
    """all tokens depth-first"""
    for t in tokens:
        yield t
        if t["t"] == "group":
            for x in tt_walk(t["c"]): yield x

def lit_str_value(s):
    """value of a rust string literal token (simple escapes), or None"""
    if s.startswith('r'):
        i = s.find('"'); h = s[1:i]
        if i < 0: return None
        return s[i + 1: len(s) - 1 - len(h)]
    if not s.startswith('"'): return None
    body = s[1:-1]
    out = []; i = 0
    while i < len(body):
        c = body[i]
        if c == "\\" and i + 1 < len(body):
            n = body[i + 1]
            m = {"n": "\n", "t": "\t", "r": "\r", "0": "\0", "\\": "\\", '"': '"', "'": "'"}
            if n in m: out.append(m[n]); i += 2; continue
            if n == "x": out.append(chr(int(body[i + 2:i + 4], 16))); i += 4; continue
            if n == "u":
                j = body.index("}", i); out.append(chr(int(body[i + 3:j], 16))); i = j + 1; continue
            if n == "\n":
                i += 2
                while i < len(body) and body[i] in " \t\n\r": i += 1
                continue
        out.append(c); i += 1
    return "".join(out)
