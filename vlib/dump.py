from . import engine
from .facts import Facts
def dump(pkg, pat, tier="quick", repo=None):
    mir, _ = engine.ensure_facts(tier, repo, want_ast=False)
    f = Facts(mir)
    for b in f.bodies(pkg):
        if pat not in b.path: continue
        print("=== %s %s promoted=%s impl_trait=%s self=%s parent=%s argc=%d" % (b.pkg, b.path, b.promoted, b.impl_trait, b.impl_self, b.parent, b.argc))
        print("   debug:", ", ".join("%s=%r" % (n, p) for n, p in b.debug))
        for blk in b.blocks:
            print(" bb%d%s:" % (blk.idx, " (cleanup)" if blk.cleanup else ""))
            for s in blk.stmts:
                if s.kind in ("live", "dead"): continue
                print("     %r    // %s%s" % (s, s.sp.split(":", 1)[-1], " [%s]" % s.mac if s.mac else ""))
            t = blk.term
            print("     %r -> %s    // %s%s" % (t, t.succs(unwind=True), t.sp.split(":", 1)[-1], " [%s]" % t.mac if t.mac else ""))
    return 0
