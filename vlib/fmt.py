"""`format!`/`write!` seen from the MIR: the template (rustc's compact byte encoding handed to `fmt::Arguments::new`) and the values
that fill its placeholders, so that a rule can ask "which text does this produce" instead of matching the macro's source tokens.

Encoding (core::fmt::rt, 2025+): a sequence of  <len:1..0x7f> <len bytes of literal text> | 0xC0 (next argument, default
options) ... terminated by 0x00. Anything else (explicit positions, width/precision/flags) makes the template `opaque` here."""
import ast
from .cfg import const_strings


def decode_template(text):
    """[("lit", str) | ("arg", None)] or None when the constant is not a plain template"""
    if not isinstance(text, str) or not text.startswith('b"'): return None
    try:
        raw = ast.literal_eval(text)
    except (ValueError, SyntaxError):
        return None
    out = []; i = 0
    while i < len(raw):
        n = raw[i]; i += 1
        if n == 0: return out
        if n == 0xC0: out.append(("arg", None)); continue
        if n >= 0x80: return None
        try: out.append(("lit", raw[i:i + n].decode("utf-8")))
        except UnicodeDecodeError: return None
        i += n
    return None     # no terminator


def _template_of(body, sl, op):
    for k, o in sl.origins(op):
        if k == "const":
            c = o.const or {}
            t = decode_template(c.get("str") or str(c.get("dbg") or ""))
            if t is not None: return t
    return None


def pieces(body, du, sl, call):
    """pieces of the text built by `call` (std::fmt::format / Arguments::new / write_fmt ...): list of ("lit", str) and
    ("arg", operand that is displayed). None when `call` is not a recognisable formatting site."""
    if call.callee.indirect: return None
    n = call.callee.name; p = call.callee.path
    if "fmt::Arguments" in p and n == "new" and len(call.args) == 2:
        tpl = _template_of(body, sl, call.args[0])
        if tpl is None: return None
        shown = []
        for k, o in sl.origins(call.args[1], follow_agg=False):
            if k == "agg" and o.agg == "array" or (k == "agg" and isinstance(o.agg, str) and "array" in o.agg):
                for e in o.ops:
                    v = None
                    for kk, oo in sl.origins(e, follow_agg=False):
                        if kk == "call" and "fmt::rt::Argument" in oo.callee.path and oo.args: v = oo.args[0]
                    shown.append(v)
        out = []; i = 0
        for kind, s in tpl:
            if kind == "lit": out.append(("lit", s))
            else:
                out.append(("arg", shown[i] if i < len(shown) else None)); i += 1
        return out
    if "fmt::Arguments" in p and n in ("new_const", "from_str") and call.args:
        c = const_strings(body, sl, call.args[0])
        return [("lit", c[0])] if len(c) == 1 else None
    if (n == "format" and "fmt" in p) or n in ("write_fmt", "must_use", "into", "to_string", "from", "to_owned", "as_ref", "as_str", "deref", "borrow"):
        # follow the value back to the Arguments it was built from
        for a in call.args:
            for k, o in sl.origins(a):
                if k == "call" and o is not call:
                    r = pieces(body, du, sl, o)
                    if r is not None: return r
    return None


def render(body, du, sl, call):
    """(pattern, holes): the text with every placeholder whose value is one known string constant filled in and `{}` for the
    others; `holes` are the operands left open, in order. None when not a formatting site."""
    ps = pieces(body, du, sl, call)
    if ps is None: return None
    text = ""; holes = []
    for kind, v in ps:
        if kind == "lit": text += v.replace("{", "{{").replace("}", "}}") if False else v
        else:
            c = const_strings(body, sl, v) if v is not None else []
            c = sorted(set(c))
            if len(c) == 1: text += c[0]
            else: text += "{}"; holes.append(v)
    return text, holes
