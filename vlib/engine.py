"""Check runner: facts cache, rule context, known findings, evidence, replay files."""
import fcntl, hashlib, json, os, shutil, subprocess, sys, time, traceback
from .facts import Facts, AnchorMissing

VERIF = os.path.dirname(os.path.dirname(os.path.abspath(__file__)))
REPO = os.environ.get("VERIF_REPO", "/repo")
CACHE = os.path.join(VERIF, ".cache", "facts")

def tree_hash(root):
    h = hashlib.sha256()
    files = []
    for dp, dns, fns in os.walk(root):
        dns[:] = sorted(d for d in dns if d not in ("target", ".git"))
        for f in sorted(fns):
            files.append(os.path.join(dp, f))
    for f in files:
        rel = os.path.relpath(f, root)
        h.update(rel.encode()); h.update(b"\0")
        try:
            with open(f, "rb") as fh: h.update(fh.read())
        except OSError:
            h.update(b"<unreadable>")
        h.update(b"\0")
    # tools are part of the key: a changed extractor must not reuse old facts
    for tool in ("tools/mirfacts/src/main.rs", "tools/astfacts/src/main.rs", "tools/extract_mir.sh", "tools/extract_ast.sh"):
        p = os.path.join(VERIF, tool)
        if os.path.exists(p):
            with open(p, "rb") as fh: h.update(fh.read())
    return h.hexdigest()[:24]

def ensure_facts(tier, repo=None, want_ast=True):
    """returns (mir_dir, ast_dir) for the current tree of `repo`, extracting if needed"""
    repo = repo or REPO
    os.makedirs(CACHE, exist_ok=True)
    lock = open(os.path.join(CACHE, ".lock"), "w")
    fcntl.flock(lock, fcntl.LOCK_EX)
    try:
        th = tree_hash(repo)
        base = os.path.join(CACHE, th)
        mir = os.path.join(base, tier, "mir")
        ast = os.path.join(base, "ast")
        if not os.path.exists(os.path.join(mir, ".done")):
            shutil.rmtree(mir, ignore_errors=True)
            os.makedirs(mir)
            t0 = time.time()
            r = subprocess.run([os.path.join(VERIF, "tools", "extract_mir.sh"), repo, mir, tier],
                               stdout=subprocess.PIPE, stderr=subprocess.STDOUT, text=True)
            if r.returncode != 0:
                raise ExtractionFailed("MIR extraction failed:\n" + r.stdout[-4000:])
            open(os.path.join(mir, ".done"), "w").write("%.1f" % (time.time() - t0))
        if want_ast and not os.path.exists(os.path.join(ast, ".done")):
            shutil.rmtree(ast, ignore_errors=True)
            os.makedirs(ast)
            ex = os.path.join(VERIF, "tools", "extract_ast.sh")
            if os.path.exists(ex):
                r = subprocess.run([ex, repo, ast], stdout=subprocess.PIPE, stderr=subprocess.STDOUT, text=True)
                if r.returncode != 0:
                    raise ExtractionFailed("AST extraction failed:\n" + r.stdout[-4000:])
                open(os.path.join(ast, ".done"), "w").write("ok")
        # prune: keep the two most recent tree states
        ents = [os.path.join(CACHE, d) for d in os.listdir(CACHE) if not d.startswith(".")]
        ents.sort(key=lambda p: os.path.getmtime(p), reverse=True)
        os.utime(base, None)
        keep = int(os.environ.get("VERIF_CACHE_KEEP", "2") or 2)       # selftest/seedmatrix run many trees side by side
        for old in [e for e in ents if e != base][max(keep - 1, 1):]:
            shutil.rmtree(old, ignore_errors=True)
        return mir, ast
    finally:
        fcntl.flock(lock, fcntl.LOCK_UN); lock.close()

class ExtractionFailed(Exception):
    pass

class Violation:
    def __init__(self, prop, rule, key, site, msg, witness=None):
        self.prop = prop; self.rule = rule; self.key = key; self.site = site; self.msg = msg
        self.witness = witness or {}
    @property
    def full_key(self): return "%s|%s|%s" % (self.prop, self.rule, self.key)

class Ctx:
    def __init__(self, prop, tier, mir, ast, repo):
        self.prop = prop; self.tier = tier; self.mir = mir; self.ast = ast; self.repo = repo
        self.instances = []      # dicts: rule, key, site, verdict, note, nontrivial
        self.violations = []
        self.rules = {}          # rule -> description
        self.obligations = 0; self.discharged = 0
        self.analysed = {"functions": set(), "callsites": 0}
        self.notes = []
    # -- recording ---------------------------------------------------
    def rule(self, rid, desc):
        self.rules[rid] = desc
    def ok(self, rule, key, site, note="", nontrivial=True):
        self.instances.append(dict(rule=rule, key=key, site=site, verdict="ok", note=note, nontrivial=nontrivial))
        self.obligations += 1; self.discharged += 1
    def note(self, rule, key, site, note):
        """an instance recorded with a remark, neither violation nor obligation"""
        self.instances.append(dict(rule=rule, key=key, site=site, verdict="note", note=note, nontrivial=True))
    def bad(self, rule, key, site, msg, witness=None):
        self.instances.append(dict(rule=rule, key=key, site=site, verdict="VIOLATION", note=msg, nontrivial=True))
        self.obligations += 1
        self.violations.append(Violation(self.prop, rule, key, site, msg, witness))
    def check(self, cond, rule, key, site, msg_bad, note_ok="", witness=None):
        if cond: self.ok(rule, key, site, note_ok)
        else: self.bad(rule, key, site, msg_bad, witness)
        return cond
    def floor(self, rule, what, n, minimum):
        """fail closed when fewer instances than counted by hand are found"""
        if n < minimum:
            self.bad(rule, "floor:%s" % what, "-", "only %d %s found, floor is %d (anchor moved or rule went vacuous)" % (n, what, minimum))
        else:
            self.notes.append("%s: %d %s (floor %d)" % (rule, n, what, minimum))
    def view(self, body, keep=(), depth=3, private_only=True):
        """`body` with its same-crate (by default: private, non-trait) callees inlined, except calls matching `keep` (see vlib/inline.py)"""
        from .inline import inline
        k = (id(body), tuple(keep), depth, private_only)
        if not hasattr(self, "_views"): self._views = {}
        if k not in self._views:
            also = (lambda cb: cb.public is False and cb.impl_trait is None) if private_only else None
            self._views[k] = inline(self.mir, body, keep=keep, depth=depth, also=also)
        v = self._views[k]
        for path, sp in v.inlined: self.analysed["functions"].add("%s::%s (inlined into %s)" % (body.pkg, path, body.path))
        return v
    def saw(self, body):
        self.analysed["functions"].add("%s::%s" % (body.pkg, body.path))
    def site(self, obj, body=None):
        sp = getattr(obj, "sp", "") or ""
        fn = body.path if body is not None else ""
        return "%s %s" % (sp, fn) if fn else sp

def load_known():
    p = os.path.join(VERIF, "known_findings.json")
    if not os.path.exists(p): return {"known": [], "fixed": []}
    return json.load(open(p))

def run_property(prop, tier, module, repo=None, quiet=False, want_ast=True):
    """runs rules module for prop; prints log; writes evidence; returns exit code"""
    t0 = time.time()
    repo = repo or REPO
    seed = int(os.environ.get("VERIF_SEED", "0") or 0)
    out = []
    def P(*a):
        s = " ".join(str(x) for x in a); out.append(s)
        if not quiet: print(s, flush=True)
    evdir = os.environ.get("VERIF_EVIDENCE_DIR") or os.path.join(VERIF, "evidence")
    evidence_path = os.path.join(evdir, "%s.json" % prop)
    try:
        os.remove(evidence_path)
    except OSError:
        pass
    cx = None
    fatal = None
    try:
        mir_dir, ast_dir = ensure_facts(tier, repo, want_ast=want_ast)
        mir = Facts(mir_dir)
        from . import absval
        absval.set_facts(mir)
        from .astfacts import AstFacts
        ast = AstFacts(ast_dir) if want_ast and os.path.exists(os.path.join(ast_dir, ".done")) else None
        cx = Ctx(prop, tier, mir, ast, repo)
        expected_pkgs = {"varlink", "varlink_parser", "varlink_generator", "varlink_derive", "varlink_stdinterfaces",
                         "varlink-cli", "varlink-certification", "example", "more", "ping"}
        have = {u.pkg for u in mir.units}
        if not expected_pkgs <= have:
            cx.bad("extract", "missing-packages", "-", "no MIR facts for packages %s" % sorted(expected_pkgs - have))
        try:
            module.run(cx)
        except AnchorMissing as e:
            cx.bad("anchor", "anchor-missing:%s" % str(e)[:120], "-", "anchor missing: %s" % e)
    except ExtractionFailed as e:
        fatal = str(e)
    except Exception as e:
        fatal = "internal error in check: %s\n%s" % (e, traceback.format_exc())
    if cx is None:
        cx = Ctx(prop, tier, None, None, repo)
    if fatal:
        cx.bad("engine", "engine-failure", "-", fatal[-1500:])
    known = load_known()
    known_keys = {k["key"]: k for k in known.get("known", []) if k.get("property") == prop}
    P("== %s tier=%s repo=%s" % (prop, tier, repo))
    for rid, desc in cx.rules.items():
        P("RULE %s: %s" % (rid, desc))
    for i in cx.instances:
        P("  [%s] %-9s %s  @ %s %s" % (i["rule"], i["verdict"], i["key"], i["site"], ("-- " + i["note"]) if i["note"] else ""))
    for n in cx.notes: P("  note:", n)
    exit_code = 0
    replay_dir = os.path.join(evdir, "replay")
    os.makedirs(replay_dir, exist_ok=True)
    nviol = 0; nknown = 0
    for n, v in enumerate(cx.violations):
        if v.full_key in known_keys:
            nknown += 1
            P("KNOWN-FINDING: property=%s %s [%s] %s" % (prop, known_keys[v.full_key].get("what", v.msg), v.full_key, v.site))
            continue
        nviol += 1
        rp = os.path.join(replay_dir, "%s-%s-%d.json" % (prop, v.rule.replace("/", "_"), n))
        json.dump(dict(property=prop, rule=v.rule, key=v.full_key, site=v.site, message=v.msg, witness=v.witness,
                       tier=tier), open(rp, "w"), indent=1, default=str)
        P("VIOLATION property=%s replay=%s rule=%s key=%s site=%s :: %s" % (prop, rp, v.rule, v.key, v.site, v.msg))
        exit_code = 1
    unused = [k for k in known_keys if k not in {v.full_key for v in cx.violations}]
    for k in unused:
        P("  note: known finding %s no longer fires (fixed or moved)" % k)
    inst = cx.instances
    nontriv = {(i["rule"], i["key"]) for i in inst if i["nontrivial"]}
    samples = [dict(rule=i["rule"], instance=i["key"], site=i["site"], verdict=i["verdict"], note=i["note"]) for i in inst[:6]]
    samples += [dict(rule=i["rule"], instance=i["key"], site=i["site"], verdict=i["verdict"], note=i["note"])
                for i in inst if i["verdict"] == "VIOLATION"][:6]
    ev = dict(
        property_id=prop, tier=tier, seed=seed, level="other",
        coverage=dict(
            explanation="static analysis of /repo's current tree (MIR facts from a rustc_private driver over the whole workspace"
                        + (" incl. tests/examples/build scripts" if tier == "thorough" else "")
                        + ", AST/token facts from a syn-based extractor). Rules applied: "
                        + "; ".join("%s = %s" % kv for kv in cx.rules.items())
                        + ". Analysed %d functions by name; units: %s." % (len(cx.analysed["functions"]),
                            ", ".join(sorted({u.pkg + "/" + u.crate for u in cx.mir.units})) if cx.mir else "none"),
            evaluations=len(inst), distinct_nontrivial=len(nontriv),
            rule="one evaluation = one rule instance (a site, path, table row or obligation discovered in the code); non-trivial = matched a real construct in /repo (vacuous matches and floor bookkeeping excluded); distinct by (rule, instance key)",
            samples=samples or [dict(note="no instances")],
            obligations=cx.obligations, discharged=cx.discharged,
            functions_analysed=sorted(cx.analysed["functions"])[:200],
            rules=list(cx.rules.keys()),
            known_findings_reported=nknown,
            exhaustive=False,
        ),
        assumptions=["rustc nightly MIR at -Zmir-opt-level=0 is the program", "dependencies behave as documented (serde, serde_json, peg 0.6, std)",
                     "only the Linux cfg of the workspace is analysed"],
        wall_s=round(time.time() - t0, 2), violations=nviol,
    )
    os.makedirs(os.path.dirname(evidence_path), exist_ok=True)
    json.dump(ev, open(evidence_path, "w"), indent=1)
    P("== %s: %d instances, %d obligations, %d discharged, %d violations, %d known findings, %.1fs" %
      (prop, len(inst), cx.obligations, cx.discharged, nviol, nknown, time.time() - t0))
    return exit_code
