"""Loading of the MIR facts emitted by tools/mirfacts and small views on them."""
import glob, json, os, re

_OUT_RE = re.compile(r"^.*?/build/([A-Za-z0-9_\-]+?)-[0-9a-f]{16}/out/")
def norm_sp(sp):
    """generated sources live in cargo's OUT_DIR below the scratch target dir: make the site stable"""
    if sp and "/build/" in sp:
        return _OUT_RE.sub(lambda m: "<OUT_DIR:%s>/" % m.group(1), sp)
    return sp

class Place:
    __slots__ = ("l", "p")
    def __init__(self, d):
        self.l = d["l"]; self.p = tuple(d["p"])
    def __repr__(self):
        return "_%d%s" % (self.l, "".join(self.p))
    def key(self):
        return (self.l, self.p)
    def fields(self):
        """projection with field names only (derefs/downcasts dropped)"""
        out = []
        for e in self.p:
            if e.startswith("."):
                out.append(e.split("#", 1)[1] if "#" in e else e[1:])
        return out

class Op:
    """operand: copy/move of a place or a constant"""
    __slots__ = ("kind", "place", "const")
    def __init__(self, d):
        if "c" in d: self.kind, self.place, self.const = "copy", Place(d["c"]), None
        elif "m" in d: self.kind, self.place, self.const = "move", Place(d["m"]), None
        else: self.kind, self.place, self.const = "const", None, d["k"]
    def __repr__(self):
        if self.place is not None: return "%s %r" % (self.kind, self.place)
        k = self.const
        for f in ("str", "int", "fn", "chr", "dbg"):
            if f in k: return "const %r" % (k[f],)
        return "const <%s>" % k["ty"]
    @property
    def is_const(self): return self.kind == "const"
    def cstr(self): return self.const.get("str") if self.const else None
    def cint(self): return self.const.get("int") if self.const else None
    def cfn(self): return self.const.get("fn") if self.const else None

class Stmt:
    def __init__(self, d, bb, idx):
        self.bb = bb; self.idx = idx; self.kind = d["s"]
        self.sp = norm_sp(d.get("sp", "")); self.mac = d.get("mac")
        self.lhs = Place(d["lhs"]) if "lhs" in d else None
        self.local = d.get("l")
        self.rv = None; self.ops = []; self.rplace = None; self.op = None; self.bk = None
        self.agg = None; self.cast_ty = None; self.variant = d.get("v")
        if self.kind == "assign":
            rv = d["rv"]; self.rv = rv["r"]
            self.ops = [Op(o) for o in rv.get("ops", [])]
            if "place" in rv: self.rplace = Place(rv["place"])
            self.op = rv.get("op"); self.bk = rv.get("bk"); self.agg = rv.get("kind")
            self.cast_ty = rv.get("ty"); self.dbg = rv.get("dbg")
    @property
    def line(self):
        try: return int(self.sp.split(":")[1])
        except Exception: return 0
    def __repr__(self):
        if self.kind != "assign": return "%s %s" % (self.kind, self.lhs if self.lhs else self.local)
        extra = self.op or self.bk or ""
        a = ""
        if self.rv == "agg":
            a = self.agg if isinstance(self.agg, str) else (self.agg.get("adt", self.agg.get("closure", "?")) + "::" + self.agg.get("variant", ""))
        return "%r = %s %s%s %s%s" % (self.lhs, self.rv, extra, a, self.ops if self.ops else "", self.rplace if self.rplace else "")

class Callee:
    def __init__(self, d):
        self.d = d
        self.indirect = d.get("indirect", False)
        self.path = d.get("path", "")
        self.resolved = d.get("resolved", self.path)
        self.name = d.get("name", "")
        self.trait = d.get("trait")
        self.impl_self = d.get("resolved_self", d.get("impl_self"))
        self.targs = d.get("targs", [])
        self.virtual = d.get("virtual", False)
    def __repr__(self):
        return self.resolved if not self.indirect else "<indirect %s>" % self.d.get("ty")
    def matches(self, *pats):
        """any pattern is a substring of path / resolved path, or equals name when prefixed with '='"""
        for p in pats:
            if p.startswith("="):
                if self.name == p[1:]: return True
            elif p in self.path or p in self.resolved: return True
        return False

class Term:
    def __init__(self, d, bb):
        self.bb = bb; self.kind = d["t"]; self.sp = norm_sp(d.get("sp", "")); self.mac = d.get("mac")
        self.d = d
        self.callee = Callee(d["callee"]) if "callee" in d else None
        self.args = [Op(a) for a in d.get("args", [])]
        self.dest = Place(d["dest"]) if "dest" in d else None
        self.place = Place(d["place"]) if "place" in d else None
        self.discr = Op(d["discr"]) if "discr" in d else None
        self.cond = Op(d["cond"]) if "cond" in d else None
        self.target = d.get("target"); self.unwind = d.get("unwind")
        self.targets = [tuple(x) for x in d.get("targets", [])]
        self.otherwise = d.get("otherwise")
        self.assert_kind = d.get("kind"); self.expected = d.get("expected")
    @property
    def line(self):
        try: return int(self.sp.split(":")[1])
        except Exception: return 0
    def succs(self, unwind=False):
        """list of (label, bb)"""
        k = self.kind
        out = []
        if k == "goto": out.append(("goto", self.target))
        elif k == "switch":
            for v, b in self.targets: out.append((v, b))
            out.append(("otherwise", self.otherwise))
        elif k in ("drop", "assert"):
            out.append(("ok", self.target))
            if unwind and self.unwind is not None: out.append(("unwind", self.unwind))
        elif k == "call":
            if self.target is not None: out.append(("ret", self.target))
            if unwind and self.unwind is not None: out.append(("unwind", self.unwind))
        return out
    def __repr__(self):
        if self.kind == "call": return "CALL %r%r -> %r" % (self.callee, self.args, self.dest)
        if self.kind == "switch": return "SWITCH %r %r else %r" % (self.discr, self.targets, self.otherwise)
        if self.kind == "drop": return "DROP %r" % self.place
        if self.kind == "assert": return "ASSERT(%s) %r==%s" % (self.assert_kind, self.cond, self.expected)
        return self.kind

class Block:
    def __init__(self, d, idx):
        self.idx = idx; self.cleanup = d["cleanup"]
        self.stmts = [Stmt(s, idx, i) for i, s in enumerate(d["stmts"])]
        self.term = Term(d["term"], idx)

class Body:
    def __init__(self, d, unit):
        self.unit = unit; self.d = d
        self.path = d["path"]; self.kind = d["kind"]; self.sp = norm_sp(d.get("sp", ""))
        self.mac = d.get("mac")
        self.promoted = d.get("promoted")
        self.impl_trait = d.get("impl_trait"); self.impl_self = d.get("impl_self")
        self.parent = d.get("parent"); self.argc = d["argc"]; self.public = d.get("pub")
        self.locals = d["locals"]
        self.debug = [(x["name"], Place(x["v"]) if "l" in x["v"] else None) for x in d["debug"]]
        self._blocks = None
    @property
    def blocks(self):
        if self._blocks is None:
            self._blocks = [Block(b, i) for i, b in enumerate(self.d["blocks"])]
        return self._blocks
    @property
    def file(self): return self.sp.split(":")[0]
    @property
    def line(self):
        try: return int(self.sp.split(":")[1])
        except Exception: return 0
    @property
    def pkg(self): return self.unit.pkg
    def ty(self, local):
        x = self.locals[local]
        return x if isinstance(x, str) else x.get("ty", "")
    def ty_is(self, local, name):
        """type of `local` mentions the type `name` as a whole identifier (MReply does not count as Reply)"""
        return bool(re.search(r"(?<![A-Za-z0-9_])%s(?![A-Za-z0-9_])" % re.escape(name), self.ty(local)))
    def name_of(self, local):
        """source name(s) of a local (whole-local debug entries only)"""
        return [n for n, p in self.debug if p is not None and p.l == local and not p.p]
    def locals_named(self, name):
        return [p.l for n, p in self.debug if n == name and p is not None and not p.p]
    def upvar_named(self, name):
        return [p for n, p in self.debug if n == name and p is not None and p.p]
    def calls(self, *pats, cleanup=False):
        out = []
        for b in self.blocks:
            if b.cleanup and not cleanup: continue
            t = b.term
            if t.kind == "call" and (not pats or (not t.callee.indirect and t.callee.matches(*pats))):
                out.append(t)
        return out
    def stmts(self, cleanup=False):
        for b in self.blocks:
            if b.cleanup and not cleanup: continue
            for s in b.stmts: yield s
    def __repr__(self): return "<Body %s/%s>" % (self.unit.pkg, self.path)

class Unit:
    def __init__(self, path):
        self.file = path
        d = json.load(open(path))
        self.pkg = d["pkg"]; self.crate = d["crate"]; self.tag = d["tag"]
        self.manifest_dir = d.get("manifest_dir", "")
        self.items = d["items"]
        self.bodies = [Body(b, self) for b in d["bodies"]]
        self.kind = self.tag.split("-")[0]
        self.is_test = "-test" in self.tag
    def __repr__(self): return "<Unit %s %s %s>" % (self.pkg, self.crate, self.tag)

class Facts:
    def __init__(self, directory, views=True):
        self.dir = directory
        self.units = []
        self.views = views; self._vcache = {}
        seen = set()
        for f in sorted(glob.glob(os.path.join(directory, "*.json"))):
            base = os.path.basename(f)
            # host and target copies of the same unit are identical: keep one
            key = re.sub(r"-[0-9a-f]{16}\.json$", "", base)
            if key in seen: continue
            seen.add(key)
            self.units.append(Unit(f))
    def unit(self, pkg, crate=None, kind=None, test=False):
        for u in self.units:
            if u.pkg == pkg and (crate is None or u.crate == crate) and (kind is None or u.kind == kind) and u.is_test == test:
                if u.crate == "build_script_build" and crate is None: continue
                return u
        return None
    def bodies(self, pkg=None, test=False, include_build=False):
        for u in self.units:
            if pkg is not None and u.pkg != pkg: continue
            if u.is_test != test: continue
            if u.crate == "build_script_build" and not include_build: continue
            for b in u.bodies:
                if self.views and self.is_absorbed_helper(b): continue
                yield self.view(b)
    def raw_bodies(self, pkg=None, test=False, include_build=False):
        """bodies as compiled, without inlined views and without hiding absorbed helpers (used by the panic censuses, whose keys
        describe a construct in the function it is written in)"""
        for u in self.units:
            if pkg is not None and u.pkg != pkg: continue
            if u.is_test != test: continue
            if u.crate == "build_script_build" and not include_build: continue
            for b in u.bodies:
                yield b
    def is_absorbed_helper(self, b):
        """a private helper function the rules do not know by name, all of whose uses are direct calls that the views inline:
        it is analysed as part of its callers, not on its own"""
        if b.promoted is not None:
            owner = [x for x in b.unit.bodies if x.promoted is None and x.path == b.path]
            return bool(owner) and self.is_absorbed_helper(owner[0])
        if b.unit.is_test or b.unit.crate == "build_script_build": return False
        k = ("absorbed", id(b.unit))
        if k not in self._vcache:
            from .known_private import KNOWN_PRIVATE
            cands = {x.path for x in b.unit.bodies if x.promoted is None and x.kind != "Closure" and x.public is False and x.impl_trait is None and (x.pkg, x.path) not in KNOWN_PRIVATE}
            called = set(); escaped = set()
            for x in b.unit.bodies:
                for blk in x.d["blocks"]:
                    t = blk["term"]
                    if t.get("t") == "call" and "callee" in t:
                        c = t["callee"]
                        for pth in (c.get("resolved"), c.get("path")):
                            if pth in cands and pth != x.path: called.add(pth)
                        for a in t.get("args", []):
                            fn = (a.get("k") or {}).get("fn") if isinstance(a, dict) else None
                            if fn in cands: escaped.add(fn)
                    for st in blk["stmts"]:
                        for o in (st.get("rv") or {}).get("ops", []) if st.get("s") == "assign" else []:
                            fn = (o.get("k") or {}).get("fn") if isinstance(o, dict) else None
                            if fn in cands: escaped.add(fn)
            self._vcache[k] = (called - escaped)
        if b.kind == "Closure":
            # closures of an absorbed helper travel with it
            par = b.parent
            while par:
                if par in self._vcache[k]: return True
                nxt = [x for x in b.unit.bodies if x.promoted is None and x.path == par]
                par = nxt[0].parent if nxt else None
            return False
        return b.path in self._vcache[k]
    def view(self, b):
        """b with private helper functions the rules do not know by name inlined (see vlib/inline.py, vlib/known_private.py)"""
        if not self.views or b.promoted is not None: return b
        k = id(b)
        if k not in self._vcache:
            from .inline import inline_unknown_private
            self._vcache[k] = inline_unknown_private(self, b)
        return self._vcache[k]
    def find(self, pkg, path_pat, exact=False, promoted=False):
        """bodies in non-test units of pkg whose def-path matches"""
        out = []
        for b in self.bodies(pkg):
            if (b.promoted is not None) != promoted: continue
            if (b.path == path_pat) if exact else (path_pat in b.path):
                out.append(b)
        return out
    def one(self, pkg, path_pat, exact=True):
        r = self.find(pkg, path_pat, exact=exact)
        if len(r) == 0 and exact:
            # a type moved to another module prints with another path prefix: compare with module prefixes of type names removed
            norm = lambda p: re.sub(r"\b(?:[a-z_][a-z0-9_]*::)+(?=[A-Z])", "", p)
            want = norm(path_pat)
            r = [b for b in self.bodies(pkg) if b.promoted is None and norm(b.path) == want]
        if len(r) != 1:
            raise AnchorMissing("%s: expected exactly one body %r, found %d" % (pkg, path_pat, len(r)))
        return r[0]

class AnchorMissing(Exception):
    pass


def promoted_body(body, dbg):
    """the promoted-constant body a `<path>::promoted[i]` reference names (the owner may be a callee inlined into `body`)"""
    dbg = str(dbg)
    if "::promoted[" not in dbg: return None
    owner = dbg.split("::promoted[")[0].strip('"')
    idx = int(dbg.split("promoted[")[1].split("]")[0])
    strip = lambda x: re.sub(r"::<[^<>]*(?:<[^<>]*>[^<>]*)*>", "", x)
    cands = [b for b in body.unit.bodies if b.promoted == idx and b.path == owner]
    if not cands: cands = [b for b in body.unit.bodies if b.promoted == idx and strip(b.path) == strip(owner)]
    if not cands: cands = [b for b in body.unit.bodies if b.promoted == idx and b.path == body.path]
    return cands[0] if cands else None
