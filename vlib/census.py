"""May-panic construct census over MIR bodies (used by C06, C09, C12) and call-graph reachability inside the workspace."""

PANIC_FN_PARTS = ("core::panicking::", "std::rt::begin_panic", "core::panic::", "std::panicking::", "core::option::expect_failed", "core::result::unwrap_failed",
                  "core::slice::index::slice_", "core::str::slice_error_fail")
UNWRAPS = ("unwrap", "expect", "unwrap_err", "expect_err", "unwrap_unchecked")
INDEXES = ("index", "index_mut")
# std methods documented to panic on an out-of-range index / a non-boundary offset (the receiver type decides: Vec::truncate does not panic, String::truncate does)
STD_PANICS = (("string::String", ("truncate", "insert", "insert_str", "remove", "split_off", "drain", "replace_range")),
              ("impl str", ("split_at", "split_at_mut")),
              ("vec::Vec", ("remove", "insert", "swap_remove", "split_off", "drain", "extend_from_within", "splice")),
              ("impl [T]", ("split_at", "split_at_mut", "copy_from_slice", "clone_from_slice", "swap", "rotate_left", "rotate_right", "copy_within", "chunks", "chunks_exact", "windows", "select_nth_unstable")),
              ("vec_deque::VecDeque", ("insert", "split_off", "drain", "swap", "rotate_left", "rotate_right")),
              ("time::Duration", ("from_secs_f64", "from_secs_f32", "mul_f64", "mul_f32", "div_f64", "div_f32")),
              ("time::Instant", ("duration_since_unchecked",)))

def std_panicky(p, name):
    """`p` names method `name` of one of the receiver types above (…::String::truncate, …::Vec::<T, A>::remove, core::str::<impl str>::split_at)"""
    if not p.endswith("::" + name): return False
    q = p[:-len(name) - 2]
    if q.endswith(">") and not q.endswith("impl str>") and not q.endswith("impl [T]>"):
        depth = 0
        for i in range(len(q) - 1, -1, -1):
            if q[i] == ">": depth += 1
            elif q[i] == "<":
                depth -= 1
                if depth == 0: q = q[:i].rstrip(":"); break
    q = q.rstrip(">")
    return any(q.endswith(recv) and name in names for recv, names in STD_PANICS)


def panic_sites(body, skip_macros=()):
    """list of dicts(kind, what, key, sp, mac, obj) for the non-cleanup blocks of `body`"""
    out = []
    counts = {}
    from .cfg import DefUse, Slice
    du = DefUse(body); sl = Slice(body, du)
    def describe(op):
        """where the value a may-panic construct consumes comes from: producing call(s) / field / argument / constant"""
        if op is None: return "?"
        if op.is_const: return "const"
        parts = set()
        pl = op.place
        if pl.fields(): parts.add("field:" + pl.fields()[-1])
        try: orig = sl.origins(op)
        except Exception: orig = []
        for k, o in orig:
            if k == "call": parts.add("call:" + "::".join((o.callee.resolved or o.callee.path).replace("<", "").replace(">", "").split("::")[-2:])[:60])
            elif k == "arg": parts.add("arg")
            elif k == "const": parts.add("const")
            elif k == "bin": parts.add("arith")
        # fields read on the way (self.x.y.unwrap())
        for l in [pl.l]:
            for kk, d in du.value_defs(l):
                if kk == "stmt" and d.kind == "assign":
                    for q in ([d.rplace] if d.rplace is not None else []) + [x.place for x in d.ops if x.place is not None]:
                        if q.fields(): parts.add("field:" + q.fields()[-1])
        return "+".join(sorted(parts)) or "?"
    def add(kind, what, obj, operand=None, operands=None):
        mac = getattr(obj, "mac", None)
        if mac and any(m in mac for m in skip_macros): return
        k = "%s:%s" % (kind, what)
        n = counts.get(k, 0); counts[k] = n + 1
        src = describe(operand) if operands is None else "|".join(describe(o) for o in operands)
        out.append(dict(kind=kind, what=what, key="%s#%d" % (k, n), skey="%s<-%s" % (k, src), sp=obj.sp, mac=mac, obj=obj))
    for b in body.blocks:
        if b.cleanup: continue
        t = b.term
        if t.kind == "assert":
            # pointer alignment/null checks inserted by debug builds are not input-dependent
            if str(t.assert_kind) in ("other", "None") or "isaligned" in str(t.assert_kind) or "ull" in str(t.assert_kind)[:5]: continue
            # the arithmetic that is checked: operands of the checked operation feeding the condition
            ops = None
            if t.cond is not None and t.cond.place is not None:
                for kk, d in du.value_defs(t.cond.place.l):
                    if kk == "stmt" and d.kind == "assign" and d.rv == "bin": ops = d.ops
            add("assert", str(t.assert_kind), t, operands=ops or [])
        elif t.kind == "call" and not t.callee.indirect:
            c = t.callee
            p = c.resolved or c.path
            if c.name in UNWRAPS and ("Option" in p or "Result" in p):
                add("unwrap", "%s::%s" % ("Option" if "Option" in p else "Result", c.name), t, operand=t.args[0] if t.args else None)
            elif c.name in INDEXES and ("Index" in (c.trait or "") or "ops::Index" in p or "index::" in p):
                add("index", short(p), t, operands=t.args[:2])
            elif std_panicky(p, c.name):
                add("stdpanic", short(p), t, operands=t.args[1:3])
            elif any(x in p for x in PANIC_FN_PARTS) or c.name in ("panic", "panic_fmt", "panic_display", "unreachable_display", "assert_failed", "panic_explicit", "begin_panic", "panic_nounwind"):
                add("panic", c.name + ("[" + (t.mac or "") + "]" if t.mac else ""), t)
        elif t.kind == "call" and t.callee.indirect:
            pass
    return out


def short(p):
    p = p.replace("std::collections::", "").replace("std::ops::", "").replace("core::ops::", "")
    return p[:70]


def workspace_index(mir, pkgs=None):
    idx = {}
    for b in mir.bodies():
        if b.promoted is not None: continue
        if pkgs is not None and b.pkg not in pkgs: continue
        idx.setdefault((b.pkg, b.path), b)
    return idx


def reachable_bodies(mir, roots, pkgs=None, stop=None, include_closures=True):
    """workspace bodies reachable from `roots` (Body objects) through resolved calls (same package or any package in pkgs)
    and through closures defined in reached bodies"""
    by_path = {}
    for b in mir.raw_bodies():
        if b.promoted is not None: continue
        if pkgs is not None and b.pkg not in pkgs: continue
        by_path.setdefault(b.path, []).append(b)
    roots = [getattr(r, "origin", r) for r in roots]
    children = {}
    for bs in by_path.values():
        for b in bs:
            if b.parent: children.setdefault((b.pkg, b.parent), []).append(b)
    seen = {}; work = list(roots)
    while work:
        b = work.pop()
        k = (b.pkg, b.path)
        if k in seen: continue
        if stop and stop(b): continue
        seen[k] = b
        if include_closures:
            for c in children.get(k, []):
                work.append(c)
        for t in b.calls(cleanup=False):
            if t.callee.indirect: continue
            for cand in (t.callee.resolved, t.callee.path):
                hit = False
                for n in by_path.get(cand, []):
                    # prefer the same package; cross-package paths are printed with the crate name in front
                    if n.pkg == b.pkg or True:
                        work.append(n); hit = True
                if hit: break
            else:
                # cross-crate: callee printed as `crate::path`; strip the crate name
                cand = t.callee.resolved or t.callee.path
                if "::" in cand:
                    tail = cand.split("::", 1)[1]
                    for n in by_path.get(tail, []):
                        if n.pkg.replace("-", "_") == cand.split("::", 1)[0]: work.append(n)
    return list(seen.values())
