"""MIR-level inlining on the extracted facts.

Rules look at one function at a time. A refactoring that moves part of a function into a private helper (or merges a helper
back) changes which body holds the statements a rule is about, not what the program does. `inline()` builds a view of a body
in which calls to functions of the same crate are replaced by the callee's blocks (parameters become assignments, `return`
becomes an assignment to the call's destination plus a jump to the continuation, the callee's unwind exits join the caller's
unwind target). Calls a rule uses as its own anchors are named in `keep` and left alone. Block indices of the original body
are preserved; callee blocks are appended behind them.

Nothing is executed: this is a syntactic composition of two control-flow graphs, the same thing rustc's MIR inliner does.
"""
import copy, re
from .facts import Body, Callee

MAX_BLOCKS = 4000


def _matches(callee, pats):
    for p in pats:
        if p.startswith("="):
            if callee.name == p[1:]: return True
        elif p in callee.path or p in callee.resolved: return True
    return False


_IDX = re.compile(r"^\[_(\d+)\]$")


def _ren_place(p, off):
    q = {"l": p["l"] + off, "p": []}
    for e in p["p"]:
        m = _IDX.match(e) if isinstance(e, str) else None
        q["p"].append("[_%d]" % (int(m.group(1)) + off) if m else e)
    return q


def _ren_op(o, off):
    if "c" in o: return {"c": _ren_place(o["c"], off)}
    if "m" in o: return {"m": _ren_place(o["m"], off)}
    return o


def _ren_stmt(s, off):
    s = dict(s)
    if "lhs" in s: s["lhs"] = _ren_place(s["lhs"], off)
    if "l" in s and isinstance(s["l"], int): s["l"] = s["l"] + off
    if "rv" in s:
        rv = dict(s["rv"])
        if "ops" in rv: rv["ops"] = [_ren_op(o, off) for o in rv["ops"]]
        if "place" in rv: rv["place"] = _ren_place(rv["place"], off)
        s["rv"] = rv
    return s


def _ren_term(t, off, boff):
    t = dict(t)
    for k in ("dest", "place"):
        if k in t: t[k] = _ren_place(t[k], off)
    for k in ("discr", "cond"):
        if k in t: t[k] = _ren_op(t[k], off)
    if "args" in t: t["args"] = [_ren_op(a, off) for a in t["args"]]
    for k in ("target", "unwind", "otherwise"):
        if t.get(k) is not None and isinstance(t[k], int): t[k] = t[k] + boff
    if "targets" in t: t["targets"] = [[v, b + boff] for v, b in t["targets"]]
    return t


class Index:
    """bodies of one package's non-test units by def-path"""
    def __init__(self, facts):
        self.by = {}
        for u in facts.units:
            if u.is_test or u.crate == "build_script_build": continue
            for b in u.bodies:
                if b.promoted is None: self.by.setdefault((u.pkg, b.path), []).append(b)
    def lookup(self, pkg, callee):
        for p in (callee.resolved, callee.path):
            r = self.by.get((pkg, p))
            if r and len(r) == 1: return r[0]
        return None


_INDEX = {}

def index_for(facts):
    k = id(facts)
    if k not in _INDEX: _INDEX[k] = Index(facts)
    return _INDEX[k]


def inline(facts, body, keep=(), depth=3, also=None):
    """view of `body` with same-crate callees inlined (except calls matching `keep`), up to `depth` levels.
    `also(callee_body) -> bool` can veto a callee. Returns a Body; `.inlined` lists (callee path, call site)."""
    idx = index_for(facts)
    d = copy.deepcopy({k: v for k, v in body.d.items()})
    blocks = d["blocks"]; locs = d["locals"]; debug = d["debug"]
    level = {i: 0 for i in range(len(blocks))}       # inline depth of each block
    stack_of = {i: (body.path,) for i in range(len(blocks))}
    inlined = []
    work = list(range(len(blocks)))
    while work:
        bi = work.pop(0)
        t = blocks[bi]["term"]
        if t.get("t") != "call" or "callee" not in t: continue
        c = Callee(t["callee"])
        if c.indirect or c.virtual: continue
        if _matches(c, keep): continue
        if level[bi] >= depth: continue
        cb = idx.lookup(body.pkg, c)
        if cb is None or cb.path in stack_of[bi]: continue
        if cb.kind == "Closure": continue                      # closure bodies are reached through Fn*::call with a tupled argument list
        if also is not None and not also(cb): continue
        if len(cb.d["blocks"]) + len(blocks) > MAX_BLOCKS: continue
        if len(t.get("args", [])) != cb.argc: continue
        off = len(locs); boff = len(blocks)
        locs.extend(copy.deepcopy(cb.d["locals"]))
        for x in cb.d["debug"]:
            if "l" in x["v"]: debug.append({"name": x["name"], "v": _ren_place(x["v"], off)})
        sp = t.get("sp", "")
        # parameters
        for i, a in enumerate(t.get("args", [])):
            blocks[bi]["stmts"].append({"s": "assign", "lhs": {"l": off + 1 + i, "p": []}, "rv": {"r": "use", "ops": [a]}, "sp": sp, "inl": cb.path})
        cont = t.get("target"); unw = t.get("unwind"); dest = t.get("dest")
        blocks[bi]["term"] = {"t": "goto", "target": boff, "sp": sp, "inl_call": cb.path}
        for j, blk in enumerate(cb.d["blocks"]):
            nb = {"cleanup": blk["cleanup"], "stmts": [_ren_stmt(s, off) for s in blk["stmts"]], "term": _ren_term(blk["term"], off, boff)}
            k = nb["term"].get("t")
            if k == "return":
                if dest is not None:
                    nb["stmts"].append({"s": "assign", "lhs": dest, "rv": {"r": "use", "ops": [{"m": {"l": off, "p": []}}]}, "sp": nb["term"].get("sp", sp), "inl": cb.path})
                nb["term"] = {"t": "goto", "target": cont, "sp": nb["term"].get("sp", sp)} if cont is not None else {"t": "unreachable", "sp": sp}
            elif k == "resume" and unw is not None and isinstance(unw, int):
                nb["term"] = {"t": "goto", "target": unw, "sp": nb["term"].get("sp", sp)}
            blocks.append(nb)
            level[boff + j] = level[bi] + 1
            stack_of[boff + j] = stack_of[bi] + (cb.path,)
            work.append(boff + j)
        inlined.append((cb.path, sp))
    nb = Body(d, body.unit)
    nb.inlined = inlined
    nb.origin = body
    return nb


def inline_unknown_private(facts, body, depth=3):
    """the default view: inline callees that are private, non-trait functions of the same crate and are not in the frozen
    table of functions the rules know by name"""
    from .known_private import KNOWN_PRIVATE
    if body.unit.is_test or body.unit.crate == "build_script_build": return body
    def also(cb):
        return cb.public is False and cb.impl_trait is None and (cb.pkg, cb.path) not in KNOWN_PRIVATE
    idx = index_for(facts)
    # cheap pre-check: any candidate call at all?
    any_c = False
    for blk in body.d["blocks"]:
        t = blk["term"]
        if t.get("t") == "call" and "callee" in t and not t["callee"].get("indirect"):
            cb = idx.lookup(body.pkg, Callee(t["callee"]))
            if cb is not None and cb.kind != "Closure" and cb.path != body.path and also(cb): any_c = True; break
    if not any_c: return body
    return inline(facts, body, keep=(), depth=depth, also=also)
