"""MIR-level inlining on the extracted facts.

Rules look at one function at a time. A refactoring that moves part of a function into a private helper (or merges a helper
back) changes which body holds the statements a rule is about, not what the program does. `inline()` builds a view of a body
in which calls to functions of the same crate are replaced by the callee's blocks (parameters become assignments, `return`
becomes an assignment to the call's destination plus a jump to the continuation, the callee's unwind exits join the caller's
unwind target). Calls a rule uses as its own anchors are named in `keep` and left alone. Block indices of the original body
are preserved; callee blocks are appended behind them.

Nothing is executed: this is a syntactic composition of two control-flow graphs, the same thing rustc's MIR inliner does.
"""
import copy, re
from .facts import Body, Callee

MAX_BLOCKS = 4000


def _matches(callee, pats):
    for p in pats:
        if p.startswith("="):
            if callee.name == p[1:]: return True
        elif p in callee.path or p in callee.resolved: return True
    return False


_IDX = re.compile(r"^\[_(\d+)\]$")


def _ren_place(p, off):
    q = {"l": p["l"] + off, "p": []}
    for e in p["p"]:
        m = _IDX.match(e) if isinstance(e, str) else None
        q["p"].append("[_%d]" % (int(m.group(1)) + off) if m else e)
    return q


def _ren_op(o, off):
    if "c" in o: return {"c": _ren_place(o["c"], off)}
    if "m" in o: return {"m": _ren_place(o["m"], off)}
    return o


def _ren_stmt(s, off):
    s = dict(s)
    if "lhs" in s: s["lhs"] = _ren_place(s["lhs"], off)
    if "l" in s and isinstance(s["l"], int): s["l"] = s["l"] + off
    if "rv" in s:
        rv = dict(s["rv"])
        if "ops" in rv: rv["ops"] = [_ren_op(o, off) for o in rv["ops"]]
        if "place" in rv: rv["place"] = _ren_place(rv["place"], off)
        s["rv"] = rv
    return s


def _ren_term(t, off, boff):
    t = dict(t)
    for k in ("dest", "place"):
        if k in t: t[k] = _ren_place(t[k], off)
    for k in ("discr", "cond"):
        if k in t: t[k] = _ren_op(t[k], off)
    if "args" in t: t["args"] = [_ren_op(a, off) for a in t["args"]]
    for k in ("target", "unwind", "otherwise"):
        if t.get(k) is not None and isinstance(t[k], int): t[k] = t[k] + boff
    if "targets" in t: t["targets"] = [[v, b + boff] for v, b in t["targets"]]
    return t


class Index:
    """bodies of one package's non-test units by def-path"""
    def __init__(self, facts):
        self.by = {}
        for u in facts.units:
            if u.is_test or u.crate == "build_script_build": continue
            for b in u.bodies:
                if b.promoted is None: self.by.setdefault((u.pkg, b.path), []).append(b)
    def lookup(self, pkg, callee):
        for p in (callee.resolved, callee.path):
            r = self.by.get((pkg, p))
            if r and len(r) == 1: return r[0]
        return None


_INDEX = {}

def index_for(facts):
    k = id(facts)
    if k not in _INDEX: _INDEX[k] = Index(facts)
    return _INDEX[k]


def inline(facts, body, keep=(), depth=3, also=None):
    """view of `body` with same-crate callees inlined (except calls matching `keep`), up to `depth` levels.
    `also(callee_body) -> bool` can veto a callee. Returns a Body; `.inlined` lists (callee path, call site)."""
    idx = index_for(facts)
    d = copy.deepcopy({k: v for k, v in body.d.items()})
    blocks = d["blocks"]; locs = d["locals"]; debug = d["debug"]
    level = {i: 0 for i in range(len(blocks))}       # inline depth of each block
    stack_of = {i: (body.path,) for i in range(len(blocks))}
    inlined = []
    work = list(range(len(blocks)))
    while work:
        bi = work.pop(0)
        t = blocks[bi]["term"]
        if t.get("t") != "call" or "callee" not in t: continue
        c = Callee(t["callee"])
        if c.indirect or c.virtual: continue
        if _matches(c, keep): continue
        if level[bi] >= depth: continue
        cb = idx.lookup(body.pkg, c)
        if cb is None or cb.path in stack_of[bi]: continue
        if cb.kind == "Closure": continue                      # closure bodies are reached through Fn*::call with a tupled argument list
        if also is not None and not also(cb): continue
        if len(cb.d["blocks"]) + len(blocks) > MAX_BLOCKS: continue
        if len(t.get("args", [])) != cb.argc: continue
        off = len(locs); boff = len(blocks)
        locs.extend(copy.deepcopy(cb.d["locals"]))
        for x in cb.d["debug"]:
            if "l" in x["v"]: debug.append({"name": x["name"], "v": _ren_place(x["v"], off)})
        sp = t.get("sp", "")
        # parameters
        for i, a in enumerate(t.get("args", [])):
            blocks[bi]["stmts"].append({"s": "assign", "lhs": {"l": off + 1 + i, "p": []}, "rv": {"r": "use", "ops": [a]}, "sp": sp, "inl": cb.path})
        cont = t.get("target"); unw = t.get("unwind"); dest = t.get("dest")
        blocks[bi]["term"] = {"t": "goto", "target": boff, "sp": sp, "inl_call": cb.path}
        for j, blk in enumerate(cb.d["blocks"]):
            nb = {"cleanup": blk["cleanup"], "stmts": [_ren_stmt(s, off) for s in blk["stmts"]], "term": _ren_term(blk["term"], off, boff)}
            k = nb["term"].get("t")
            if k == "return":
                if dest is not None:
                    nb["stmts"].append({"s": "assign", "lhs": dest, "rv": {"r": "use", "ops": [{"m": {"l": off, "p": []}}]}, "sp": nb["term"].get("sp", sp), "inl": cb.path})
                nb["term"] = {"t": "goto", "target": cont, "sp": nb["term"].get("sp", sp)} if cont is not None else {"t": "unreachable", "sp": sp}
            elif k == "resume" and unw is not None and isinstance(unw, int):
                nb["term"] = {"t": "goto", "target": unw, "sp": nb["term"].get("sp", sp)}
            blocks.append(nb)
            level[boff + j] = level[bi] + 1
            stack_of[boff + j] = stack_of[bi] + (cb.path,)
            work.append(boff + j)
        inlined.append((cb.path, sp))
    nb = Body(d, body.unit)
    nb.inlined = inlined
    nb.origin = body
    return nb


def inline_unknown_private(facts, body, depth=3):
    """the default view: inline callees that are private, non-trait functions of the same crate and are not in the frozen
    table of functions the rules know by name"""
    from .known_private import KNOWN_PRIVATE
    if body.unit.is_test or body.unit.crate == "build_script_build": return body
    def also(cb):
        return cb.public is False and cb.impl_trait is None and (cb.pkg, cb.path) not in KNOWN_PRIVATE
    idx = index_for(facts)
    # cheap pre-check: any candidate call at all?
    any_c = False
    for blk in body.d["blocks"]:
        t = blk["term"]
        if t.get("t") == "call" and "callee" in t and not t["callee"].get("indirect"):
            cb = idx.lookup(body.pkg, Callee(t["callee"]))
            if cb is not None and cb.kind != "Closure" and cb.path != body.path and also(cb): any_c = True; break
    import os
    v = inline(facts, body, keep=(), depth=depth, also=also) if any_c else body
    if os.environ.get("VERIF_NO_DESUGAR"): return v
    v2 = desugar_closures(facts, v)
    if v2 is not v:
        # closures may call helper functions the rules do not know either
        v3 = inline(facts, v2, keep=(), depth=depth, also=also)
        v3.desugared = getattr(v2, "desugared", [])
        v3.inlined = list(getattr(v2, "inlined", [])) + [x for x in v3.inlined if x not in getattr(v2, "inlined", [])]
        v3.origin = getattr(v2, "origin", body)
        return v3
    return v


# ------------------------------------------------------------------------------------------------
# Closure-taking combinators and iterator adaptors of std, written out as the control flow they stand for.
#
# `opt.map_or(d, |x| f(x))` and `match opt { Some(x) => f(x), None => d }` are the same program, and so are
# `it.for_each(|x| body)` and `for x in it { body }`. std's side of it is not part of the workspace, so the view spells the
# documented behaviour of the adaptor out around the closure's own blocks (which are part of the workspace): a discriminant
# switch on the receiver for the one-shot combinators, a loop around a (synthetic) `Iterator::next` for the adaptors.
ONE_SHOT = ("map", "map_or", "is_some_and", "is_ok_and", "is_none_or", "and_then", "unwrap_or_else", "ok_or_else", "then", "filter", "inspect")
LOOPING = ("for_each", "try_for_each", "any", "all")
MAX_CLOSURE_BLOCKS = 80


def _agg(adt, variant, vidx, ops, lhs, sp):
    return {"s": "assign", "lhs": lhs, "rv": {"r": "agg", "kind": {"adt": adt, "variant": variant, "vidx": vidx, "fields": [str(i) for i in range(len(ops))]}, "ops": ops}, "sp": sp, "syn": True}


def _use(lhs, op, sp):
    return {"s": "assign", "lhs": lhs, "rv": {"r": "use", "ops": [op]}, "sp": sp, "syn": True}


def _L(l, p=()): return {"l": l, "p": list(p)}


def _from_fn_source(cur, du, by_path, t):
    """(closure body, local holding the closure) when the iterator handed to the adaptor call `t` is `std::iter::from_fn(closure)`"""
    from .cfg import Slice
    if not t.args or t.args[0].place is None: return None
    for k, o in Slice(cur, du, extra_pass=("=by_ref", "=into_iter")).origins(t.args[0], follow_agg=False):
        if k == "call" and not o.callee.indirect and o.callee.name == "from_fn" and "iter" in o.callee.path and o.args and o.args[0].place is not None:
            for kk, oo in Slice(cur, du).origins(o.args[0], follow_agg=False):
                if kk == "agg" and isinstance(oo.agg, dict) and oo.agg.get("closure"):
                    g = by_path.get(oo.agg["closure"])
                    if g is not None and len(g.d["blocks"]) <= MAX_CLOSURE_BLOCKS: return g, oo.lhs.l
    return None


def desugar_closures(facts, body, rounds=3):
    """view of `body` (a Body, possibly already an inlined view) with closure-taking std combinators and iterator adaptors
    replaced by explicit control flow around the closure's blocks. Returns the same object when nothing applies."""
    from .cfg import DefUse, ref_chain
    cur = body
    for _ in range(rounds):
        du = DefUse(cur)
        unit = cur.unit
        by_path = {b.path: b for b in unit.bodies if b.promoted is None}
        jobs = []
        for blk in cur.blocks:
            t = blk.term
            if blk.cleanup or t.kind != "call" or t.callee.indirect or t.target is None: continue
            n = t.callee.name
            if n in ("call_once", "call_mut", "call") and "std::ops::Fn" in (str(t.callee.trait or "") + t.callee.path) and len(t.args) == 2:
                # `f(x)` on a closure that was handed in (and is visible after inlining the function that receives it)
                target = None; env_local = None
                rb = by_path.get(t.callee.resolved) if t.callee.resolved else None
                if rb is not None and rb.kind == "Closure":
                    # rustc already resolved the call to the closure's body: the receiver operand is the environment (or a reference to it)
                    if len(rb.d["blocks"]) <= MAX_CLOSURE_BLOCKS and getattr(cur, "origin", cur).path != rb.path:
                        jobs.append((blk.idx, "direct_self", n, rb, None))
                    continue
                from .cfg import Slice
                orig = Slice(cur, du).origins(t.args[0])          # (the closure may travel inside another closure's environment)
                if not (len(orig) == 1 and orig[0][0] == "agg" and isinstance(orig[0][1].agg, dict) and orig[0][1].agg.get("closure")):
                    orig = Slice(cur, du).origins(t.args[0], follow_agg=False)
                if len(orig) == 1 and orig[0][0] == "agg" and isinstance(orig[0][1].agg, dict) and orig[0][1].agg.get("closure"):
                    target = by_path.get(orig[0][1].agg["closure"]); env_local = orig[0][1].lhs.l
                elif len(orig) == 1 and orig[0][0] == "const" and (orig[0][1].const or {}).get("fn"):
                    target = by_path.get(orig[0][1].const["fn"])
                if target is not None and len(target.d["blocks"]) <= MAX_CLOSURE_BLOCKS and getattr(cur, "origin", cur).path != target.path:
                    jobs.append((blk.idx, "direct", n, target, env_local))
                continue
            cbody = by_path.get(t.callee.resolved or t.callee.path) or by_path.get(t.callee.path)
            if cbody is not None and cbody.kind == "Closure" and len(t.args) == 2:
                # a local closure called by name (`let check = || ..; if check() {..}`): rustc resolves the call to the closure's body
                if len(cbody.d["blocks"]) <= MAX_CLOSURE_BLOCKS and getattr(cur, "origin", cur).path != cbody.path:
                    jobs.append((blk.idx, "direct_self", n, cbody, None))
                continue
            if n not in ONE_SHOT and n not in LOOPING: continue
            p = (t.callee.resolved or t.callee.path)
            self_ty = t.callee.impl_self or ""
            tr = t.callee.trait or ""
            if n in LOOPING:
                if "Iterator" not in (tr + p): continue
                kind = "iter"
            else:
                if not p.startswith("std::") and not p.startswith("core::") and "std::" not in p: continue
                if n == "then" and "bool" in p: kind = "bool"
                elif "Option" in self_ty or "option::Option" in p: kind = "option"
                elif "Result" in self_ty or "result::Result" in p: kind = "result"
                else: continue
                if n == "then" and kind != "bool": continue
            # the closure / fn item handed in (last argument)
            fa = t.args[-1] if t.args else None
            if fa is None: continue
            target = None; env_local = None
            if fa.is_const and (fa.const or {}).get("fn"):
                target = by_path.get(fa.const["fn"])
            elif fa.place is not None and not fa.place.p:
                for l in ref_chain(du, fa.place.l):
                    for k, d in du.value_defs(l):
                        if k == "stmt" and d.kind == "assign" and d.rv == "agg" and isinstance(d.agg, dict) and d.agg.get("closure"):
                            target = by_path.get(d.agg["closure"]); env_local = l
            if target is None or len(target.d["blocks"]) > MAX_CLOSURE_BLOCKS: continue
            if getattr(cur, "origin", cur).path == target.path: continue
            jobs.append((blk.idx, kind, n, target, env_local))
        if not jobs: break
        d = copy.deepcopy({k: v for k, v in cur.d.items()})
        blocks = d["blocks"]; locs = d["locals"]
        done = list(getattr(cur, "desugared", []))
        for bi, kind, n, cb, env_local in jobs:
            if len(blocks) + len(cb.d["blocks"]) + 8 > MAX_BLOCKS: continue
            t = blocks[bi]["term"]
            sp = t.get("sp", "")
            args = t.get("args", []); dest = t.get("dest"); cont = t.get("target"); unw = t.get("unwind")
            off = len(locs); locs.extend(copy.deepcopy(cb.d["locals"]))
            def fresh(ty):
                locs.append(ty); return len(locs) - 1
            is_closure = cb.kind == "Closure"
            nparams = cb.argc - (1 if is_closure else 0)
            first_param = off + (2 if is_closure else 1)
            # closure blocks
            boff = len(blocks)
            ret_blocks = []
            for j, blk in enumerate(cb.d["blocks"]):
                nb = {"cleanup": blk["cleanup"], "stmts": [_ren_stmt(s, off) for s in blk["stmts"]], "term": _ren_term(blk["term"], off, boff)}
                k = nb["term"].get("t")
                if k == "return": ret_blocks.append(boff + j)
                elif k == "resume" and isinstance(unw, int): nb["term"] = {"t": "goto", "target": unw, "sp": sp}
                blocks.append(nb)
            def new_block(stmts, term):
                blocks.append({"cleanup": False, "stmts": stmts, "term": term}); return len(blocks) - 1
            def enter(stmts, item_op):
                """statements binding env and (single) parameter, then jump into the closure"""
                st = list(stmts)
                if is_closure:
                    ety = cb.d["locals"][1] if len(cb.d["locals"]) > 1 else ""
                    ety = ety if isinstance(ety, str) else ety.get("ty", "")
                    src = env_local if env_local is not None else (args[-1]["m"]["l"] if "m" in args[-1] else args[-1]["c"]["l"])
                    if ety.startswith("&"): st.append({"s": "assign", "lhs": _L(off + 1), "rv": {"r": "ref", "bk": "mut" if ety.startswith("&mut") else "shared", "place": _L(src)}, "sp": sp, "syn": True})
                    else: st.append(_use(_L(off + 1), {"c": _L(src)}, sp))
                if nparams >= 1 and item_op is not None: st.append(_use(_L(first_param), item_op, sp))
                return st
            rty = cb.d["locals"][0]; rty = rty if isinstance(rty, str) else rty.get("ty", "")
            res = fresh(rty)
            if kind in ("direct", "direct_self"):
                # arguments arrive as one tuple: parameter i is its field i
                st = enter([], None) if kind == "direct" else [_use(_L(off + 1), args[0], sp)]
                tup = args[1]
                tl = tup["m"] if "m" in tup else tup.get("c")
                if tl is None: continue
                for i in range(nparams):
                    st.append(_use(_L(first_param + i), {"m": _L(tl["l"], list(tl["p"]) + [".%d" % i])}, sp))
                E = new_block(st, {"t": "goto", "target": boff, "sp": sp})
                for rb in ret_blocks:
                    blocks[rb]["stmts"].append(_use(dest, {"m": _L(off)}, sp))
                    blocks[rb]["term"] = {"t": "goto", "target": cont, "sp": sp}
                blocks[bi]["term"] = {"t": "goto", "target": E, "sp": sp, "syn_call": t.get("callee", {}).get("path")}
                done.append((cb.path, n, sp))
                continue
            if kind in ("option", "result"):
                good = 1 if kind == "option" else 0
                gname, bname = ("Some", "None") if kind == "option" else ("Ok", "Err")
                adt = "std::option::Option" if kind == "option" else "std::result::Result"
                a0 = args[0].get("m") or args[0].get("c") if isinstance(args[0], dict) else None
                recv_ty = "?recv"
                if a0 is not None and not a0["p"] and a0["l"] < len(locs):
                    recv_ty = locs[a0["l"]] if isinstance(locs[a0["l"]], str) else locs[a0["l"]].get("ty", "?recv")
                recv = fresh(recv_ty); dl = fresh("isize")
                # S: take the receiver, switch on its variant
                y_stmts = enter([], {"m": _L(recv, ["as %s#%d" % (gname, good), ".0#0"])})
                Y = new_block(y_stmts, {"t": "goto", "target": boff, "sp": sp})
                # what happens without / after the closure
                if n == "map":
                    J = new_block([_agg(adt, gname, good, [{"m": _L(res)}], dest, sp)], {"t": "goto", "target": cont, "sp": sp})
                    nst = [_agg(adt, bname, 1 - good, [] if kind == "option" else [{"m": _L(recv, ["as Err#1", ".0#0"])}], dest, sp)]
                elif n in ("map_or",):
                    J = new_block([_use(dest, {"m": _L(res)}, sp)], {"t": "goto", "target": cont, "sp": sp})
                    nst = [_use(dest, args[1], sp)]
                elif n in ("is_some_and", "is_ok_and"):
                    J = new_block([_use(dest, {"m": _L(res)}, sp)], {"t": "goto", "target": cont, "sp": sp})
                    nst = [_use(dest, {"k": {"ty": "bool", "int": 0}}, sp)]
                elif n == "is_none_or":
                    J = new_block([_use(dest, {"m": _L(res)}, sp)], {"t": "goto", "target": cont, "sp": sp})
                    nst = [_use(dest, {"k": {"ty": "bool", "int": 1}}, sp)]
                elif n == "and_then":
                    J = new_block([_use(dest, {"m": _L(res)}, sp)], {"t": "goto", "target": cont, "sp": sp})
                    nst = [_agg(adt, bname, 1 - good, [] if kind == "option" else [{"m": _L(recv, ["as Err#1", ".0#0"])}], dest, sp)]
                elif n == "inspect":
                    J = new_block([_use(dest, {"m": _L(recv)}, sp)], {"t": "goto", "target": cont, "sp": sp})
                    nst = [_use(dest, {"m": _L(recv)}, sp)]
                elif n == "filter" and kind == "option":
                    keep = new_block([_use(dest, {"m": _L(recv)}, sp)], {"t": "goto", "target": cont, "sp": sp})
                    drop = new_block([_agg(adt, "None", 0, [], dest, sp)], {"t": "goto", "target": cont, "sp": sp})
                    J = new_block([], {"t": "switch", "discr": {"m": _L(res)}, "targets": [[0, drop]], "otherwise": keep, "sp": sp})
                    nst = [_agg(adt, "None", 0, [], dest, sp)]
                    # filter hands the closure a reference to the payload
                    blocks[Y]["stmts"] = enter([{"s": "assign", "lhs": _L(first_param), "rv": {"r": "ref", "bk": "shared", "place": _L(recv, ["as Some#1", ".0#0"])}, "sp": sp, "syn": True}], None)
                elif n == "ok_or_else" and kind == "option":
                    # Some(x) -> Ok(x); None -> Err(f())
                    J = new_block([_agg("std::result::Result", "Err", 1, [{"m": _L(res)}], dest, sp)], {"t": "goto", "target": cont, "sp": sp})
                    blocks[Y]["stmts"] = [_agg("std::result::Result", "Ok", 0, [{"m": _L(recv, ["as Some#1", ".0#0"])}], dest, sp)]
                    blocks[Y]["term"] = {"t": "goto", "target": cont, "sp": sp}
                    nst = None
                    Nb = new_block(enter([], None), {"t": "goto", "target": boff, "sp": sp})
                elif n == "unwrap_or_else":
                    # the closure runs on the *bad* variant
                    J = new_block([_use(dest, {"m": _L(res)}, sp)], {"t": "goto", "target": cont, "sp": sp})
                    blocks[Y]["stmts"] = [_use(dest, {"m": _L(recv, ["as %s#%d" % (gname, good), ".0#0"])}, sp)]
                    blocks[Y]["term"] = {"t": "goto", "target": cont, "sp": sp}
                    nst = None
                    Nb = new_block(enter([], {"m": _L(recv, ["as Err#1", ".0#0"])} if kind == "result" else None), {"t": "goto", "target": boff, "sp": sp})
                else:
                    continue
                if nst is not None: Nb = new_block(nst, {"t": "goto", "target": cont, "sp": sp})
                for rb in ret_blocks:
                    blocks[rb]["stmts"].append(_use(_L(res), {"m": _L(off)}, sp))
                    blocks[rb]["term"] = {"t": "goto", "target": J, "sp": sp}
                S_stmts = [_use(_L(recv), args[0], sp), {"s": "assign", "lhs": _L(dl), "rv": {"r": "discr", "place": _L(recv)}, "sp": sp, "syn": True}]
                S = new_block(S_stmts, {"t": "switch", "discr": {"m": _L(dl)}, "targets": [[good, Y], [1 - good, Nb]], "otherwise": Nb, "sp": sp, "syn": True})
                blocks[bi]["term"] = {"t": "goto", "target": S, "sp": sp, "syn_call": t.get("callee", {}).get("path")}
            elif kind == "bool":
                J = new_block([_agg("std::option::Option", "Some", 1, [{"m": _L(res)}], dest, sp)], {"t": "goto", "target": cont, "sp": sp})
                for rb in ret_blocks:
                    blocks[rb]["stmts"].append(_use(_L(res), {"m": _L(off)}, sp))
                    blocks[rb]["term"] = {"t": "goto", "target": J, "sp": sp}
                Y = new_block(enter([], None), {"t": "goto", "target": boff, "sp": sp})
                Nb = new_block([_agg("std::option::Option", "None", 0, [], dest, sp)], {"t": "goto", "target": cont, "sp": sp})
                c = fresh("bool")
                S = new_block([_use(_L(c), args[0], sp)], {"t": "switch", "discr": {"m": _L(c)}, "targets": [[0, Nb]], "otherwise": Y, "sp": sp, "syn": True})
                blocks[bi]["term"] = {"t": "goto", "target": S, "sp": sp, "syn_call": t.get("callee", {}).get("path")}
            else:   # iterator adaptors
                item = fresh("?item"); dl = fresh("isize")
                H = new_block([], None)          # filled below
                Y = new_block(enter([], {"m": _L(item, ["as Some#1", ".0#0"])}), {"t": "goto", "target": boff, "sp": sp})
                if n == "for_each":
                    X = new_block([], {"t": "goto", "target": cont, "sp": sp})
                    for rb in ret_blocks: blocks[rb]["term"] = {"t": "goto", "target": H, "sp": sp}
                elif n == "try_for_each":
                    unit_ok = _agg("std::result::Result" if "Result" in rty else "std::option::Option" if "Option" in rty else "?", "Ok" if "Result" in rty else "Some", 0 if "Result" in rty else 1, [{"k": {"ty": "()", "zst": True}}], dest, sp)
                    X = new_block([unit_ok], {"t": "goto", "target": cont, "sp": sp})
                    stop = new_block([_use(dest, {"m": _L(res)}, sp)], {"t": "goto", "target": cont, "sp": sp})
                    rd = fresh("isize")
                    goodv = 0 if "Result" in rty else 1
                    J = new_block([{"s": "assign", "lhs": _L(rd), "rv": {"r": "discr", "place": _L(res)}, "sp": sp, "syn": True}],
                                  {"t": "switch", "discr": {"m": _L(rd)}, "targets": [[goodv, H]], "otherwise": stop, "sp": sp, "syn": True})
                    for rb in ret_blocks:
                        blocks[rb]["stmts"].append(_use(_L(res), {"m": _L(off)}, sp))
                        blocks[rb]["term"] = {"t": "goto", "target": J, "sp": sp}
                else:   # any / all
                    hit = 1 if n == "any" else 0
                    X = new_block([_use(dest, {"k": {"ty": "bool", "int": 1 - hit}}, sp)], {"t": "goto", "target": cont, "sp": sp})
                    stop = new_block([_use(dest, {"k": {"ty": "bool", "int": hit}}, sp)], {"t": "goto", "target": cont, "sp": sp})
                    J = new_block([], {"t": "switch", "discr": {"m": _L(res)}, "targets": [[0, H if hit == 1 else stop]], "otherwise": stop if hit == 1 else H, "sp": sp, "syn": True})
                    for rb in ret_blocks:
                        blocks[rb]["stmts"].append(_use(_L(res), {"m": _L(off)}, sp))
                        blocks[rb]["term"] = {"t": "goto", "target": J, "sp": sp}
                S = new_block([{"s": "assign", "lhs": _L(dl), "rv": {"r": "discr", "place": _L(item)}, "sp": sp, "syn": True}],
                              {"t": "switch", "discr": {"m": _L(dl)}, "targets": [[0, X], [1, Y]], "otherwise": X, "sp": sp, "syn": True})
                gen = _from_fn_source(cur, du, by_path, cur.blocks[bi].term)
                if gen is not None and len(blocks) + len(gen[0].d["blocks"]) + 4 <= MAX_BLOCKS:
                    # `iter::from_fn(|| ..)`: its next() *is* the closure; write that call out too
                    g, genv = gen
                    goff = len(locs); locs.extend(copy.deepcopy(g.d["locals"]))
                    gboff = len(blocks)
                    for j, gb in enumerate(g.d["blocks"]):
                        nb = {"cleanup": gb["cleanup"], "stmts": [_ren_stmt(x, goff) for x in gb["stmts"]], "term": _ren_term(gb["term"], goff, gboff)}
                        k = nb["term"].get("t")
                        if k == "return":
                            nb["stmts"].append(_use(_L(item), {"m": _L(goff)}, sp)); nb["term"] = {"t": "goto", "target": S, "sp": sp}
                        elif k == "resume" and isinstance(unw, int): nb["term"] = {"t": "goto", "target": unw, "sp": sp}
                        blocks.append(nb)
                    gty = g.d["locals"][1] if len(g.d["locals"]) > 1 else ""
                    gty = gty if isinstance(gty, str) else gty.get("ty", "")
                    bind = {"s": "assign", "lhs": _L(goff + 1), "rv": {"r": "ref", "bk": "mut", "place": _L(genv)}, "sp": sp, "syn": True} if gty.startswith("&") else _use(_L(goff + 1), {"c": _L(genv)}, sp)
                    blocks[H] = {"cleanup": False, "stmts": [bind], "term": {"t": "goto", "target": gboff, "sp": sp}}
                    done.append((g.path, "from_fn", sp))
                else:
                    blocks[H] = {"cleanup": False, "stmts": [], "term": {"t": "call", "callee": {"path": "std::iter::Iterator::next", "name": "next", "trait": "std::iter::Iterator", "impl_self": "?", "synthetic": True},
                                 "args": [args[0]], "dest": _L(item), "target": S, "unwind": unw, "sp": sp}}
                blocks[bi]["term"] = {"t": "goto", "target": H, "sp": sp, "syn_call": t.get("callee", {}).get("path")}
            done.append((cb.path, n, sp))
        nb = Body(d, cur.unit)
        nb.inlined = list(getattr(cur, "inlined", []))
        nb.desugared = done
        nb.origin = getattr(cur, "origin", cur)
        cur = nb
    return cur
