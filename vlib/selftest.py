"""Self-test of the checker: every check must be silent on the unchanged tree, must fire on each seeded change of its
property (seeded/<id>/patch.diff), must re-detect each repaired defect when its `fix:` commit is reverted, and must stay silent
on every behaviour-preserving refactoring under controls/<id>/patch.diff (all 20 checks are run against each of them).
All work happens on scratch copies of /repo; /repo itself is never touched.
  ./vcheck selftest            everything
  ./vcheck selftest C05 C07    only these properties
  ./vcheck selftest controls [C02-R1 ..]   only the negative controls (all checks against each)"""
import json, os, re, shutil, subprocess, sys, tempfile
from . import engine

VERIF = engine.VERIF


def _scratch():
    d = tempfile.mkdtemp(prefix="vrf-self.", dir="/var/tmp")
    subprocess.run(["rsync", "-a", "--exclude", "target", engine.REPO + "/", d + "/"], check=True)
    return d


def _run(prop, repo, ev):
    env = dict(os.environ, VERIF_EVIDENCE_DIR=ev, VERIF_CACHE_KEEP="40")
    r = subprocess.run([os.path.join(VERIF, "vcheck"), prop, "--repo", repo], capture_output=True, text=True, env=env)
    rules = sorted(set(re.findall(r"^VIOLATION property=\S+ replay=\S+ rule=(\S+) ", r.stdout, flags=re.M)))
    return r.returncode, rules


def controls(ids, ev, props=None):
    """all checks silent on every behaviour-preserving refactoring"""
    cdir = os.path.join(VERIF, "controls")
    bad = 0; n = 0
    allp = props or ["C%02d" % i for i in range(1, 21)]
    def one(cid):
        patch = os.path.join(cdir, cid, "patch.diff")
        s = _scratch()
        try:
            a = subprocess.run(["git", "apply", patch], cwd=s, capture_output=True, text=True)
            if a.returncode != 0: return cid, None, 0
            fired = {}; k = 0
            for p in allp:
                rc, rules = _run(p, s, ev); k += 1
                if rc != 0: fired[p] = rules
            return cid, fired, k
        finally:
            shutil.rmtree(s, ignore_errors=True)
    cids = [c for c in (sorted(os.listdir(cdir)) if os.path.isdir(cdir) else []) if (not ids or c in ids) and os.path.exists(os.path.join(cdir, c, "patch.diff"))]
    from concurrent.futures import ThreadPoolExecutor, as_completed
    with ThreadPoolExecutor(max_workers=int(os.environ.get("VERIF_JOBS", "6"))) as ex:
        for fu in as_completed([ex.submit(one, c) for c in cids]):
            cid, fired, k = fu.result(); n += k
            if fired is None: print("control %s: patch does not apply to the current tree (skipped)" % cid, flush=True); continue
            print("control %-8s %s" % (cid, "silent (%d checks)" % len(allp) if not fired else "FALSE ALARM %s" % fired), flush=True)
            bad += bool(fired)
    return n, bad


def mutants(ids, ev):
    """a refactored tree must still be decided: each `controls/<id>/mutants/<name>.diff` breaks the property on top of the
    behaviour-preserving refactoring `<id>`; the property's own check has to report it there as well"""
    cdir = os.path.join(VERIF, "controls")
    jobs = []
    for cid in sorted(os.listdir(cdir)) if os.path.isdir(cdir) else []:
        md = os.path.join(cdir, cid, "mutants")
        if (ids and cid not in ids) or not os.path.isdir(md): continue
        for m in sorted(os.listdir(md)):
            if m.endswith(".diff"): jobs.append((cid, m))
    def one(cid, m):
        s = _scratch()
        try:
            for patch in (os.path.join(cdir, cid, "patch.diff"), os.path.join(cdir, cid, "mutants", m)):
                a = subprocess.run(["git", "apply", patch], cwd=s, capture_output=True, text=True)
                if a.returncode != 0: return cid, m, None
            mprop = re.search(r"-(C\d\d)-", "-" + m)      # `mN-Cxx-what.diff`: the mutant breaks another property than the control's own
            rc, rules = _run(mprop.group(1) if mprop else cid[:3], s, ev)
            return cid, m, (rc, rules)
        finally:
            shutil.rmtree(s, ignore_errors=True)
    bad = 0; n = 0
    from concurrent.futures import ThreadPoolExecutor, as_completed
    with ThreadPoolExecutor(max_workers=int(os.environ.get("VERIF_JOBS", "6"))) as ex:
        for fu in as_completed([ex.submit(one, c, m) for c, m in jobs]):
            cid, m, r = fu.result()
            if r is None: print("mutant %s/%s: does not apply (skipped)" % (cid, m), flush=True); continue
            n += 1
            ok = r[0] != 0 and bool(r[1])
            print("mutant %-8s %-34s %s" % (cid, m, "detected by %s" % r[1] if ok else "MISSED"), flush=True)
            bad += not ok
    return n, bad


def selftest(args, tier="quick"):
    if args and args[0] == "mutants":
        ev = tempfile.mkdtemp(prefix="vrf-selfev.", dir="/var/tmp")
        try:
            n, bad = mutants(args[1:], ev)
        finally:
            shutil.rmtree(ev, ignore_errors=True)
        print("selftest mutants: %d runs, %d missed" % (n, bad))
        return 1 if bad else 0
    if args and args[0] == "controls":
        ev = tempfile.mkdtemp(prefix="vrf-selfev.", dir="/var/tmp")
        try:
            n, bad = controls([a for a in args[1:] if not re.fullmatch(r"C\d\d", a)], ev, [a for a in args[1:] if re.fullmatch(r"C\d\d", a)] or None)
        finally:
            shutil.rmtree(ev, ignore_errors=True)
        print("selftest controls: %d runs, %d controls with a false alarm" % (n, bad))
        return 1 if bad else 0
    props = [a for a in args if re.fullmatch(r"C\d\d", a)] or ["C%02d" % i for i in range(1, 21)]
    only_reverts = "reverts" in args
    ev = tempfile.mkdtemp(prefix="vrf-selfev.", dir="/var/tmp")
    bad = 0; n = 0
    try:
        # 1. silent on the unchanged tree
        for p in ([] if only_reverts else props):
            rc, rules = _run(p, engine.REPO, ev); n += 1
            ok = rc == 0
            print("%-8s unchanged tree: %s" % (p, "silent" if ok else "ALARM %s" % rules)); bad += not ok
        # 2. seeded changes
        seeded = os.path.join(VERIF, "seeded")
        for sid in ([] if only_reverts else sorted(os.listdir(seeded))):
            patch = os.path.join(seeded, sid, "patch.diff")
            if not os.path.exists(patch): continue
            p = sid[:3]
            if p not in props: continue
            s = _scratch()
            try:
                a = subprocess.run(["git", "apply", patch], cwd=s, capture_output=True, text=True)
                if a.returncode != 0:
                    print("%-8s seed %s: patch does not apply to the current tree (skipped)" % (p, sid)); continue
                rc, rules = _run(p, s, ev); n += 1
                ok = rc != 0 and bool(rules)
                print("%-8s seed %s: %s" % (p, sid, "caught by %s" % rules if ok else "NOT DETECTED")); bad += not ok
            finally:
                shutil.rmtree(s, ignore_errors=True)
        # 3. reverted fixes
        kf = json.load(open(os.path.join(VERIF, "known_findings.json")))
        for line in kf.get("fixed", []):
            m = re.match(r"fixed: property=(C\d\d) ([0-9a-f]{7,})", line)
            if not m or m.group(1) not in props: continue
            p, c = m.group(1), m.group(2)
            s = _scratch()
            try:
                a = subprocess.run(["git", "revert", "--no-edit", "-n", c], cwd=s, capture_output=True, text=True)
                if a.returncode != 0:
                    print("%-8s revert %s: does not revert cleanly on the current tree (skipped)" % (p, c)); continue
                rc, rules = _run(p, s, ev); n += 1
                ok = rc != 0 and bool(rules)
                print("%-8s revert %s: %s" % (p, c, "re-detected by %s" % rules if ok else "NOT DETECTED")); bad += not ok
            finally:
                shutil.rmtree(s, ignore_errors=True)
    finally:
        shutil.rmtree(ev, ignore_errors=True)
    print("selftest: %d runs, %d failures" % (n, bad))
    return 1 if bad else 0
