"""Branch literals along one enumerated path: for every bool switch on the path, which call (or constant, comparison, ...) produced
the tested value *on this path* (reaching definition, followed through moves, copies and `!`), and which way the path went."""


class Lit:
    __slots__ = ("kind", "obj", "truth", "block")
    def __init__(self, kind, obj, truth, block):
        self.kind, self.obj, self.truth, self.block = kind, obj, truth, block
    def __repr__(self):
        n = self.obj.callee.name if self.kind == "call" else self.obj
        return "%s(%s)=%s@bb%d" % (self.kind, n, self.truth, self.block)


def _reaching(body, path, pos, local, stmt_limit=None):
    """(kind, obj, position) of the last whole-local definition of `local` on path[:pos+1] before (block pos, stmt_limit)"""
    i = pos
    lim = stmt_limit
    while i >= 0:
        blk = body.blocks[path[i]]
        stmts = blk.stmts if lim is None else blk.stmts[:lim]
        for k in range(len(stmts) - 1, -1, -1):
            s = stmts[k]
            if s.kind == "assign" and s.lhs.l == local and not s.lhs.p: return ("stmt", s, (i, k))
        # the terminator of the previous block on the path may define it (call destination)
        if i > 0:
            t = body.blocks[path[i - 1]].term
            if t.kind == "call" and t.dest is not None and t.dest.l == local and not t.dest.p and t.target == path[i]:
                return ("call", t, (i - 1, None))
        i -= 1; lim = None
    return (None, None, None)


def resolve(body, path, pos, local):
    """leaf producing the value of bool `local` as read at the end of block path[pos]: (kind, obj, negated)"""
    neg = False; i = pos; lim = None
    for _ in range(20):
        k, d, where = _reaching(body, path, i, local, lim)
        if k is None: return ("arg" if 1 <= local <= body.argc else "unknown", local, neg)
        if k == "call": return ("call", d, neg)
        s = d
        if s.rv in ("use", "cast") and s.ops:
            o = s.ops[0]
            if o.is_const: return ("const", o.cint(), neg)
            if o.place is not None and not o.place.p:
                local = o.place.l; i, lim = where; continue
            return ("place", o.place, neg)
        if s.rv == "un" and s.op == "Not" and s.ops and s.ops[0].place is not None and not s.ops[0].place.p:
            neg = not neg; local = s.ops[0].place.l; i, lim = where; continue
        if s.rv == "bin": return ("bin", s, neg)
        if s.rv == "discr": return ("discr", s, neg)
        return ("other", s, neg)
    return ("unknown", local, neg)


def _field_literal(body, path, i, t):
    pl = t.discr.place
    if len(pl.p) != 1 or not pl.p[0].startswith("."): return None
    try: k = int(pl.p[0][1:].split("#")[0])
    except ValueError: return None
    kind, d, where = _reaching(body, path, i, pl.l)
    if kind != "stmt" or d.rv != "agg" or d.agg != "tuple" or k >= len(d.ops): return None
    v0, d0 = t.targets[0]
    if d0 == t.otherwise or v0 not in (0, 1): return None
    truth = (v0 == 1) if path[i + 1] == d0 else (v0 == 0)
    o = d.ops[k]
    if o.is_const: return Lit("const", o.cint(), truth, path[i])
    if o.place is None: return None
    if o.place.p: return Lit("place", o.place, truth, path[i])
    pos, lim = where
    kk, oo, neg = resolve_at(body, path, pos, lim, o.place.l)
    if neg: truth = not truth
    return Lit(kk, oo, truth, path[i])


def resolve_at(body, path, pos, stmt_limit, local):
    """like resolve(), but reads `local` as of statement `stmt_limit` of block path[pos]"""
    neg = False; i = pos; lim = stmt_limit
    for _ in range(20):
        k, d, where = _reaching(body, path, i, local, lim)
        if k is None: return ("arg" if 1 <= local <= body.argc else "unknown", local, neg)
        if k == "call": return ("call", d, neg)
        s = d
        if s.rv in ("use", "cast") and s.ops:
            o = s.ops[0]
            if o.is_const: return ("const", o.cint(), neg)
            if o.place is not None and not o.place.p:
                local = o.place.l; i, lim = where; continue
            return ("place", o.place, neg)
        if s.rv == "un" and s.op == "Not" and s.ops and s.ops[0].place is not None and not s.ops[0].place.p:
            neg = not neg; local = s.ops[0].place.l; i, lim = where; continue
        if s.rv == "bin": return ("bin", s, neg)
        if s.rv == "discr": return ("discr", s, neg)
        return ("other", s, neg)
    return ("unknown", local, neg)


def literals(body, path):
    """Lit for every bool-like switch taken on the path (two-way switches on a whole local)"""
    out = []
    for i in range(len(path) - 1):
        t = body.blocks[path[i]].term
        if t.kind != "switch" or t.discr is None or t.discr.place is None: continue
        if len(t.targets) != 1: continue
        if t.discr.place.p:
            # `match (a, b, c)`: a bool field of a tuple built on this path stands for the operand that was put there
            lit = _field_literal(body, path, i, t)
            if lit is not None: out.append(lit)
            continue
        v0, d0 = t.targets[0]
        nxt = path[i + 1]
        if d0 == t.otherwise: continue
        took_listed = (nxt == d0)
        # listed value v0 (normally 0 = false)
        if v0 not in (0, 1): continue
        truth = (v0 == 1) if took_listed else (v0 == 0)
        k, o, neg = resolve(body, path, i, t.discr.place.l)
        if neg: truth = not truth
        out.append(Lit(k, o, truth, path[i]))
    return out
