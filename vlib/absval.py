"""A small forward abstract interpretation used to prune infeasible branches: along a path (or in a product reachability) it tracks,
per local, either a known scalar constant or a known enum variant index. Everything it does not model is `unknown` (absent from the
store), so pruning only ever removes edges that no execution can take.

Modelled: constant assignments, moves/copies of whole locals, enum aggregates, discriminant reads, `?` (Try::branch maps Ok/Some to
Continue and Err/None to Break; FromResidual::from_residual yields Err/None), variant-preserving combinators (map, map_err).
A local whose address is taken mutably, or that is assigned in any other way, becomes unknown."""

KEEP_VARIANT = ("map_err", "map", "as_ref", "as_mut", "as_deref", "cloned", "copied", "inspect", "inspect_err")


# Fields written through a reference whose target is not itself known (`self.continues = x` with `self: &mut Self`) are kept under
# pseudo-locals: negative store keys, one per (base local, field path). They are forgotten at every call and at every write through
# any other dereference (which may alias), so they only ever describe what straight-line code between two such points stored.
_PSEUDO = {}
_PSEUDO_REV = {}


def _field_path(p):
    """(`*`, `.k`, `.j`, ..) -> (k, j, ..) when the projection is one deref followed by plain fields only; else None"""
    if not p or p[0] != "*": return None
    out = []
    for e in p[1:]:
        if not e.startswith("."): return None
        try: out.append(int(e[1:].split("#")[0]))
        except ValueError: return None
    return tuple(out) if out else None


def _pseudo_key(l, fpath, create=True):
    k = (l, fpath)
    if k not in _PSEUDO:
        if not create: return None
        _PSEUDO[k] = -(len(_PSEUDO) + 1); _PSEUDO_REV[_PSEUDO[k]] = k
    return _PSEUDO[k]


def _base_of(store, l):
    """the local a plain reborrow chain of `l` leads back to (`_7 = &*_1; _31 = move _7` -> 1)"""
    n = 0
    while n < 8:
        v = store.get(l)
        if v is not None and v[0] == "reborrow": l = v[1]; n += 1; continue
        break
    return l


def _forget_fields(store):
    if any(k < 0 for k in store): return {k: v for k, v in store.items() if k >= 0}
    return store


def read_place(store, place):
    """abstract value of a place: follows `as Variant#i` / `.k` projections into a known aggregate"""
    p = place.p
    if p and p[0] == "*" and len(p) > 1:
        # a field stored earlier through the same reference
        base = _base_of(store, place.l)
        for n in range(len(p), 1, -1):
            fp = _field_path(p[:n])
            if fp is None: continue
            k = _pseudo_key(base, fp, create=False)
            if k is not None and k in store:
                v = store[k]
                return _project(store, v, p[n:])
    v = store.get(place.l)
    if v is not None and v[0] == "reborrow": return v if not p else None
    return _project(store, v, p)


def _project(store, v, p):
    i = 0
    while v is not None and i < len(p):
        e = p[i]
        if e == "*":
            if v[0] == "refto": v = v[1]; i += 1; continue
            if v[0] != "ref": return None
            v = store.get(v[1]); i += 1; continue
        if e.startswith("as "):
            try: want = int(e.split("#")[1])
            except (IndexError, ValueError): return None
            if v[0] != "var" or v[1] != want: return None
            i += 1; continue
        if e.startswith("."):
            try: k = int(e[1:].split("#")[0])
            except ValueError: return None
            if v[0] != "var" or len(v) < 3 or v[2] is None or k >= len(v[2]): return None
            v = v[2][k]; i += 1; continue
        return None
    return v


_FACTS = [None]

def set_facts(facts):
    """lets the evaluator look at item definitions (variant order of enums) and at callee bodies (is an `eq` derived?)"""
    _FACTS[0] = facts


def _variant_index(ty_name, variant):
    f = _FACTS[0]
    if f is None: return None
    last = ty_name.split("::")[-1].split("<")[0]
    for u in f.units:
        for it in u.items:
            if it.get("kind") == "Enum" and it.get("path", "").split("::")[-1] == last:
                names = [v["name"] for v in it.get("variants", [])]
                if variant in names: return names.index(variant)
    return None


def const_value(op):
    """abstract value of a constant operand"""
    k = op.const or {}
    if op.cint() is not None: return ("int", op.cint())
    dbg = str(k.get("dbg", "") or "")
    if "::promoted[" in dbg and _FACTS[0] is not None:
        owner = dbg.split("::promoted[")[0].strip('"'); idx = int(dbg.split("promoted[")[1].split("]")[0])
        import re as _re
        strip = lambda x: _re.sub(r"::<[^<>]*(?:<[^<>]*>[^<>]*)*>", "", x)
        for u in _FACTS[0].units:
            for b in u.bodies:
                if b.promoted == idx and (b.path == owner or strip(b.path) == strip(owner)):
                    st = {}
                    for blk in b.blocks:
                        for x in blk.stmts: st = step_stmt(st, x)
                    v = st.get(0)
                    if v is not None and v[0] == "ref": return ("refto", st.get(v[1]))
                    return v
        return None
    val = k.get("val")
    if not val: return None
    val = val.replace("{{", "{").replace("}}", "}").strip()
    import re
    m = re.fullmatch(r"([\w:<>, ']+?)\s*\{(.*)\}", val)
    if m:
        fields = []
        for part in [x.strip() for x in m.group(2).split(",") if x.strip()]:
            if ":" not in part: return None
            v = part.split(":", 1)[1].strip()
            if v == "true": fields.append(("int", 1))
            elif v == "false": fields.append(("int", 0))
            elif re.fullmatch(r"-?\d+(_?[iu]\d+|_?[iu]size)?", v): fields.append(("int", int(re.match(r"-?\d+", v).group(0))))
            else: fields.append(None)
        return ("var", 0, tuple(fields))
    m = re.fullmatch(r"([\w:]+)::(\w+)", val)
    if m:
        idx = _variant_index(k.get("ty", m.group(1)), m.group(2))
        if idx is not None: return ("var", idx, ())
    return None


def _deref_value(store, v):
    n = 0
    while v is not None and v[0] in ("ref", "refto") and n < 6:
        v = store.get(v[1]) if v[0] == "ref" else v[1]; n += 1
    return v


def _derived_eq(callee):
    """the call is PartialEq::eq/ne that compares structurally: std's impls for scalars/Option, or an impl generated by derive"""
    p = callee.resolved or callee.path
    if callee.name not in ("eq", "ne") or "PartialEq" not in (str(callee.trait) + p): return False
    if p.startswith("std::") or p.startswith("core::") or "<impl std::cmp::PartialEq" in p or "std::cmp::impls" in p: return True
    # Option<T>/Result<T, E>: structural over T (T's own `==` is trusted to be structural for the scalar/fieldless values tracked here)
    if p.startswith("<std::option::Option<") or p.startswith("<std::result::Result<") or p.startswith("<core::option::Option<"): return True
    f = _FACTS[0]
    if f is None: return False
    for u in f.units:
        for b in u.bodies:
            if b.promoted is None and b.path == p: return bool(b.mac and "derive" in b.mac)
    return False


def step_stmt(store, s):
    if s.kind == "assign":
        lhs = s.lhs
        if lhs.p:
            if "*" not in lhs.p:
                # writing a field of a local does not change its variant; the field's old value is no longer what the store says
                v0 = store.get(lhs.l)
                if v0 is not None and v0[0] == "var" and len(v0) > 2 and v0[2] is not None and lhs.p[0].startswith("."):
                    try: k = int(lhs.p[0][1:].split("#")[0])
                    except ValueError: k = None
                    if k is not None and k < len(v0[2]) and v0[2][k] is not None:
                        nv = None
                        if len(lhs.p) == 1 and s.rv == "use" and s.ops:
                            o = s.ops[0]; nv = const_value(o) if o.is_const else (read_place(store, o.place) if o.place is not None else None)
                        store = dict(store); store[lhs.l] = ("var", v0[1], tuple(nv if i == k else x for i, x in enumerate(v0[2])))
                return store
            # a store through a reference: remember the field when the path is `(*base).f.g`, forget everything that may alias
            fp = _field_path(lhs.p)
            store = _forget_fields(store)
            if fp is not None:
                nv = None
                if s.rv == "use" and s.ops:
                    o = s.ops[0]; nv = const_value(o) if o.is_const else (read_place(store, o.place) if o.place is not None else None)
                elif s.rv == "agg" and isinstance(s.agg, dict) and "vidx" in s.agg and s.agg.get("adt"):
                    nv = ("var", s.agg["vidx"], tuple(const_value(o) if o.is_const else read_place(store, o.place) for o in s.ops))
                if nv is not None:
                    store = dict(store); store[_pseudo_key(_base_of(store, lhs.l), fp)] = nv
            return store
        l = lhs.l
        val = None
        if s.rv == "use" and s.ops:
            o = s.ops[0]
            if o.is_const: val = const_value(o)
            elif o.place is not None: val = read_place(store, o.place)
        elif s.rv == "agg" and isinstance(s.agg, dict) and "vidx" in s.agg and s.agg.get("adt"):
            val = ("var", s.agg["vidx"], tuple(const_value(o) if o.is_const else read_place(store, o.place) for o in s.ops))
        elif s.rv == "agg" and s.agg == "tuple":
            val = ("var", 0, tuple(const_value(o) if o.is_const else read_place(store, o.place) for o in s.ops))
        elif s.rv == "discr" and s.rplace is not None:
            v = read_place(store, s.rplace)
            if v is not None and v[0] == "var": val = ("int", v[1])
        elif s.rv in ("ref", "rawptr") and s.rplace is not None:
            if s.bk and "mut" in str(s.bk).lower() and not s.rplace.p:
                if s.rplace.l in store:
                    store = dict(store); del store[s.rplace.l]
            elif not s.rplace.p: val = ("ref", s.rplace.l)
            elif s.rplace.p == ("*",):
                v0 = store.get(s.rplace.l)
                if v0 is not None and v0[0] in ("ref", "refto"): val = v0          # reborrow
                elif v0 is None or v0[0] == "reborrow": val = ("reborrow", _base_of(store, s.rplace.l))          # of a reference whose target is not known
            elif not (s.bk and "mut" in str(s.bk).lower()):
                v0 = read_place(store, s.rplace)
                if v0 is not None: val = ("refto", v0)          # shared borrow of a known part: the target is frozen while it lives
        elif s.rv == "bin" and len(s.ops) == 2:
            a, b = [const_value(o) if o.is_const else (read_place(store, o.place) if o.place is not None else None) for o in s.ops]
            if a is not None and b is not None and a[0] == "int" and b[0] == "int":
                op = str(s.op or "")
                f = {"Eq": lambda x, y: int(x == y), "Ne": lambda x, y: int(x != y), "Lt": lambda x, y: int(x < y), "Le": lambda x, y: int(x <= y),
                     "Gt": lambda x, y: int(x > y), "Ge": lambda x, y: int(x >= y), "BitAnd": lambda x, y: x & y, "BitOr": lambda x, y: x | y, "BitXor": lambda x, y: x ^ y}.get(op)
                if f is not None: val = ("int", f(a[1], b[1]))
        elif s.rv == "un" and s.ops and str(s.op or "") == "Not":
            o = s.ops[0]
            a = const_value(o) if o.is_const else (read_place(store, o.place) if o.place is not None else None)
            if a is not None and a[0] == "int" and a[1] in (0, 1): val = ("int", 1 - a[1])          # bools only
        if val is not None:
            if store.get(l) != val: store = dict(store); store[l] = val
        elif l in store:
            store = dict(store); del store[l]
    elif s.kind == "setdiscr" and s.lhs is not None and s.lhs.l in store:
        store = dict(store); del store[s.lhs.l]
    return store


def step_block(body, store, b):
    for s in body.blocks[b].stmts: store = step_stmt(store, s)
    return store


def step_term(store, t):
    """store after the terminator's own effect (call destination)"""
    if t.kind in ("call", "drop"): store = _forget_fields(store)          # anything holding a `&mut` may have stored into the fields
    if t.kind != "call" or t.dest is None: return store
    d = t.dest
    val = None
    if not d.p and not t.callee.indirect and t.args and t.args[0].place is not None and not t.args[0].place.p:
        a = store.get(t.args[0].place.l)
        n = t.callee.name
        if a is not None and a[0] == "var":
            self_ty = t.callee.impl_self or ""
            if n == "branch" and "Try" in (t.callee.path + str(t.callee.trait)):
                pay = a[2] if len(a) > 2 else None
                if "Result" in self_ty: val = ("var", 0, pay) if a[1] == 0 else ("var", 1, (("var", 1, pay),))     # Ok(v) -> Continue(v), Err(e) -> Break(Err(e))
                elif "Option" in self_ty: val = ("var", 0, pay) if a[1] == 1 else ("var", 1, (("var", 0, ()),))    # Some(v) -> Continue(v), None -> Break(None)
            elif n in KEEP_VARIANT and ("Result" in self_ty or "Option" in self_ty) and "std::" in t.callee.path:
                val = a
    if not d.p and not t.callee.indirect and len(t.args) == 2 and _derived_eq(t.callee):
        vals = []
        for a in t.args:
            v = const_value(a) if a.is_const else (read_place(store, a.place) if a.place is not None else None)
            vals.append(_deref_value(store, v))
        a, b = vals
        def flat(v): return v is not None and (v[0] == "int" or (v[0] == "var" and (len(v) < 3 or v[2] == () or v[2] is not None and all(x is not None and flat(x) for x in v[2]))))
        if flat(a) and flat(b) and not (a[0] == "var" and len(a) > 2 and a[2] is None) and not (b[0] == "var" and len(b) > 2 and b[2] is None):
            same = (a == b) if a[0] == b[0] else None
            if a[0] == "var" and b[0] == "var" and a[1] != b[1]: same = False
            if same is not None: val = ("int", int(same == (t.callee.name == "eq")))
    if not d.p and not t.callee.indirect and t.callee.name == "then_some" and "bool" in t.callee.path and len(t.args) == 2:
        c = const_value(t.args[0]) if t.args[0].is_const else (read_place(store, t.args[0].place) if t.args[0].place is not None else None)
        if c is not None and c[0] == "int":
            pv = const_value(t.args[1]) if t.args[1].is_const else (read_place(store, t.args[1].place) if t.args[1].place is not None else None)
            val = ("var", 1, (pv,)) if c[1] else ("var", 0, ())
    if val is None and not d.p and not t.callee.indirect and t.args and ("std::option::Option" in t.callee.path or "std::result::Result" in t.callee.path):
        a0 = operand_value(store, t.args[0])
        a0 = _deref_value(store, a0)
        n = t.callee.name
        if a0 is not None and a0[0] == "var":
            is_opt = "Option" in t.callee.path
            good = (a0[1] == 1) if is_opt else (a0[1] == 0)
            pay = a0[2][0] if len(a0) > 2 and a0[2] else None
            if n in ("is_some", "is_ok"): val = ("int", int(good))
            elif n in ("is_none", "is_err"): val = ("int", int(not good))
            elif n in ("unwrap", "expect") and good and pay is not None: val = pay
            elif n == "unwrap_or" and len(t.args) == 2:
                if good and pay is not None: val = pay
                elif not good: val = operand_value(store, t.args[1])
            elif n in ("ok",) and not is_opt: val = ("var", 1, (pay,)) if good else ("var", 0, ())
            elif n in ("err",) and not is_opt: val = ("var", 0, ()) if good else ("var", 1, (pay,))
    if not d.p and not t.callee.indirect and t.callee.name == "from_residual":
        self_ty = t.callee.impl_self or ""
        if "Result" in self_ty: val = ("var", 1, None)
        elif "Option" in self_ty: val = ("var", 0, ())
    if d.p: return store
    if val is not None:
        store = dict(store); store[d.l] = val
    elif d.l in store:
        store = dict(store); del store[d.l]
    # a local whose address was handed to the callee may have been changed
    return store


def feasible_succs(store, t, succs):
    if t.kind == "switch" and t.discr is not None and t.discr.place is not None:
        v = store.get(t.discr.place.l) if not t.discr.place.p else read_place(store, t.discr.place)
        if v is not None and v[0] == "int":
            chosen = [(lab, d) for lab, d in succs if lab == v[1]]
            if not chosen: chosen = [(lab, d) for lab, d in succs if lab == "otherwise"]
            return chosen
    return succs


def refine_on_edge(body, du, store, src, lab, dst):
    """what taking the edge (src, lab, dst) of a switch tells about the value it tested"""
    t = body.blocks[src].term
    if t.kind != "switch" or t.discr is None or t.discr.place is None: return store
    if t.discr.place.p:
        # a switch on one field of a known tuple/struct value (`match (a, b, c) { .. }`): remember what the edge says about that field
        pl = t.discr.place
        if len(pl.p) == 1 and pl.p[0].startswith("."):
            v = store.get(pl.l)
            try: k = int(pl.p[0][1:].split("#")[0])
            except ValueError: return store
            if v is not None and v[0] == "var" and len(v) > 2 and v[2] is not None and k < len(v[2]):
                val = None
                if lab != "otherwise": val = ("int", lab)
                elif len(t.targets) == 1 and t.targets[0][0] in (0, 1) and ("bool" in str(body.ty(pl.l)) or True):
                    # two-way switch on a bool field: the other edge is the other value (only when the field is a bool: its listed value is 0)
                    fty = _field_ty(body, pl)
                    if fty == "bool": val = ("int", 1 - t.targets[0][0])
                if val is not None and v[2][k] != val:
                    nv = ("var", v[1], tuple(val if i == k else x for i, x in enumerate(v[2])))
                    store = dict(store); store[pl.l] = nv
        return store
    if lab == "otherwise": return store
    l = t.discr.place.l
    store = dict(store); store[l] = ("int", lab)
    ds = du.defs.get(l, [])
    if len(ds) == 1 and ds[0][0] == "stmt":
        s = ds[0][1]
        if s.kind == "assign" and s.rv == "discr" and s.rplace is not None and not s.rplace.p and s.bb == src:
            old = store.get(s.rplace.l)
            if not (old is not None and old[0] == "var" and old[1] == lab): store[s.rplace.l] = ("var", lab, None)
    return store


def _field_ty(body, place):
    """type of `_l.k` when `_l` is a tuple local whose type text is `(A, B, C)`; None when unknown"""
    ty = str(body.ty(place.l)).strip()
    if not (ty.startswith("(") and ty.endswith(")")): return None
    inner = ty[1:-1]; parts = []; depth = 0; cur = ""
    for ch in inner:
        if ch in "(<[": depth += 1
        elif ch in ")>]": depth -= 1
        if ch == "," and depth == 0: parts.append(cur.strip()); cur = ""
        else: cur += ch
    if cur.strip(): parts.append(cur.strip())
    try: k = int(place.p[0][1:].split("#")[0])
    except ValueError: return None
    return parts[k] if k < len(parts) else None


def sens_reach(cfg, du, starts, blocked_nodes=(), blocked_edges=(), limit=60000):
    """blocks reachable from `starts` (iterable of (block, store)) when branches whose tested value is known are pruned.
    Falls back to plain reachability when the product gets too large (still an over-approximation)."""
    body = cfg.body
    bn = set(blocked_nodes); be = set(blocked_edges)
    seen = set(); out = set(); work = []
    for b, st in starts:
        if b in bn: continue
        work.append((b, st))
    n = 0
    while work:
        b, st = work.pop()
        key = (b, tuple(sorted(st.items())))
        if key in seen: continue
        seen.add(key); out.add(b); n += 1
        if n > limit: return cfg.reach([s for s, _ in starts], blocked_nodes, blocked_edges) | out
        st = step_block(body, st, b)
        t = body.blocks[b].term
        succs = feasible_succs(st, t, cfg.succ[b])
        st2 = step_term(st, t)
        for lab, d in succs:
            if (b, d) in be or (b, lab, d) in be or d in bn: continue
            s3 = st2 if lab != "unwind" else st
            if t.kind == "switch": s3 = refine_on_edge(body, du, s3, b, lab, d)
            work.append((d, s3))
    return out


def sens_states(cfg, du, starts, blocked_nodes=(), blocked_edges=(), limit=60000):
    """like sens_reach, but keeps the stores: {block: [store at block entry, ...]}; None when the product gets too large"""
    body = cfg.body
    bn = set(blocked_nodes); be = set(blocked_edges)
    seen = set(); out = {}; work = [(b, st) for b, st in starts if b not in bn]
    while work:
        b, st = work.pop()
        key = (b, tuple(sorted(st.items())))
        if key in seen: continue
        seen.add(key); out.setdefault(b, []).append(st)
        if len(seen) > limit: return None
        st = step_block(body, st, b)
        t = body.blocks[b].term
        succs = feasible_succs(st, t, cfg.succ[b])
        st2 = step_term(st, t)
        for lab, d in succs:
            if (b, d) in be or (b, lab, d) in be or d in bn: continue
            s3 = st2 if lab != "unwind" else st
            if t.kind == "switch": s3 = refine_on_edge(body, du, s3, b, lab, d)
            work.append((d, s3))
    return out


def outcome_after(cfg, du, call, variant):
    """what the function does once `call` has returned the given variant (0/1) of its Result/Option: (returned, reached) where
    `returned` lists the abstract values of the return place at every `return` that can follow (None = unknown) and `reached` is the
    set of blocks that can follow. (None, None) when the call does not return into a plain local or the product is too large."""
    if call.target is None or call.dest is None or call.dest.p: return None, None
    states = sens_states(cfg, du, [(call.target, {call.dest.l: ("var", variant, None)})])
    if states is None: return None, None
    body = cfg.body; rets = []
    for b, stores in states.items():
        blk = body.blocks[b]
        if blk.cleanup or blk.term.kind != "return": continue
        for st in stores: rets.append(step_block(body, st, b).get(0))
    return rets, set(states)


def eval_returns(cfg, du, env0):
    """abstract values the function can return when started with the store `env0` (parameters seeded with abstract values):
    list with one entry per (return block, reaching store); None entries are unknown. None when the product is too large."""
    states = sens_states(cfg, du, [(0, dict(env0))])
    if states is None: return None
    body = cfg.body; out = []
    for b, stores in states.items():
        blk = body.blocks[b]
        if blk.cleanup or blk.term.kind != "return": continue
        for st in stores: out.append(step_block(body, st, b).get(0))
    return out


def struct_value(name, fields):
    """abstract value of a struct `name` (an item of the workspace) whose named fields have the given abstract values; the others are unknown"""
    f = _FACTS[0]
    if f is None: return None
    for u in f.units:
        for it in u.items:
            if it.get("kind") == "Struct" and it.get("path", "").split("::")[-1] == name and it.get("variants"):
                names = [x["name"] for x in it["variants"][0].get("fields", [])]
                if all(k in names for k in fields):
                    return ("var", 0, tuple(fields.get(n) for n in names))
    return None


def sens_reach_from_edge(cfg, du, edge, blocked_nodes=(), blocked_edges=()):
    src, lab, dst = edge
    st = refine_on_edge(cfg.body, du, step_block(cfg.body, {}, src), src, lab, dst)
    return sens_reach(cfg, du, [(dst, st)], blocked_nodes, blocked_edges)


def state_graph(cfg, du, limit=60000):
    """explicit product graph from the entry: nodes (block, store), edges carry the CFG edge they take. Returns (nodes, adj) with
    nodes[i] = block index and adj[i] = [(src_block, label, dst_block, j)], or None when the product is too large."""
    body = cfg.body
    ids = {}; nodes = []; adj = []
    def nid(b, st):
        k = (b, tuple(sorted(st.items())))
        if k not in ids:
            ids[k] = len(nodes); nodes.append(b); adj.append(None)
            work.append((ids[k], b, st))
        return ids[k]
    work = []
    nid(0, {})
    while work:
        i, b, st = work.pop()
        if len(nodes) > limit: return None
        st1 = step_block(body, st, b)
        t = body.blocks[b].term
        succs = feasible_succs(st1, t, cfg.succ[b])
        st2 = step_term(st1, t)
        out = []
        for lab, d in succs:
            s3 = st2 if lab != "unwind" else st1
            if t.kind == "switch": s3 = refine_on_edge(body, du, s3, b, lab, d)
            out.append((b, lab, d, nid(d, s3)))
        adj[i] = out
    return nodes, adj


def graph_reach(graph, blocked_nodes=(), blocked_edges=()):
    nodes, adj = graph
    bn = set(blocked_nodes); be = set(blocked_edges)
    if nodes[0] in bn: return set()
    seen = {0}; out = {nodes[0]}; work = [0]
    while work:
        i = work.pop()
        for (b, lab, d, j) in adj[i] or ():
            if (b, d) in be or (b, lab, d) in be or d in bn or j in seen: continue
            seen.add(j); out.add(d); work.append(j)
    return out


def walk(body, du, cfg, path, env0=None):
    """yields ("stmt", block, stmt, store_before) and ("term", block, term, store_before_term) along an enumerated path"""
    st = dict(env0 or {})
    for i, b in enumerate(path):
        if b < 0: break
        blk = body.blocks[b]
        for s in blk.stmts:
            yield ("stmt", b, s, st)
            st = step_stmt(st, s)
        t = blk.term
        yield ("term", b, t, st)
        if i + 1 < len(path):
            nxt = path[i + 1]
            labs = [lab for lab, d in cfg.succ[b] if d == nxt]
            st2 = step_term(st, t)
            if labs and labs[0] == "unwind": st2 = st
            if t.kind == "switch" and labs: st2 = refine_on_edge(body, du, st2, b, labs[0], nxt)
            st = st2


def operand_value(store, o):
    return const_value(o) if o.is_const else (read_place(store, o.place) if o.place is not None else None)
