"""A small forward abstract interpretation used to prune infeasible branches: along a path (or in a product reachability) it tracks,
per local, either a known scalar constant or a known enum variant index. Everything it does not model is `unknown` (absent from the
store), so pruning only ever removes edges that no execution can take.

Modelled: constant assignments, moves/copies of whole locals, enum aggregates, discriminant reads, `?` (Try::branch maps Ok/Some to
Continue and Err/None to Break; FromResidual::from_residual yields Err/None), variant-preserving combinators (map, map_err).
A local whose address is taken mutably, or that is assigned in any other way, becomes unknown."""

KEEP_VARIANT = ("map_err", "map", "as_ref", "as_mut", "as_deref", "cloned", "copied", "inspect", "inspect_err")


def read_place(store, place):
    """abstract value of a place: follows `as Variant#i` / `.k` projections into a known aggregate"""
    v = store.get(place.l)
    i = 0; p = place.p
    while v is not None and i < len(p):
        e = p[i]
        if e.startswith("as "):
            try: want = int(e.split("#")[1])
            except (IndexError, ValueError): return None
            if v[0] != "var" or v[1] != want: return None
            i += 1; continue
        if e.startswith("."):
            try: k = int(e[1:].split("#")[0])
            except ValueError: return None
            if v[0] != "var" or len(v) < 3 or v[2] is None or k >= len(v[2]): return None
            v = v[2][k]; i += 1; continue
        return None
    return v


def step_stmt(store, s):
    if s.kind == "assign":
        lhs = s.lhs
        if lhs.p:
            # writing a field does not change the variant; a write through the local's own deref or a downcast write keeps it
            return store
        l = lhs.l
        val = None
        if s.rv == "use" and s.ops:
            o = s.ops[0]
            if o.is_const:
                if o.cint() is not None: val = ("int", o.cint())
            elif o.place is not None: val = read_place(store, o.place)
        elif s.rv == "agg" and isinstance(s.agg, dict) and "vidx" in s.agg and s.agg.get("adt"):
            val = ("var", s.agg["vidx"], tuple((("int", o.cint()) if o.is_const and o.cint() is not None else None) if o.is_const else read_place(store, o.place) for o in s.ops))
        elif s.rv == "discr" and s.rplace is not None:
            v = read_place(store, s.rplace)
            if v is not None and v[0] == "var": val = ("int", v[1])
        elif s.rv in ("ref", "rawptr") and s.rplace is not None and s.bk and "mut" in str(s.bk).lower() and not s.rplace.p:
            if s.rplace.l in store:
                store = dict(store); del store[s.rplace.l]
        if val is not None:
            if store.get(l) != val: store = dict(store); store[l] = val
        elif l in store:
            store = dict(store); del store[l]
    elif s.kind == "setdiscr" and s.lhs is not None and s.lhs.l in store:
        store = dict(store); del store[s.lhs.l]
    return store


def step_block(body, store, b):
    for s in body.blocks[b].stmts: store = step_stmt(store, s)
    return store


def step_term(store, t):
    """store after the terminator's own effect (call destination)"""
    if t.kind != "call" or t.dest is None: return store
    d = t.dest
    val = None
    if not d.p and not t.callee.indirect and t.args and t.args[0].place is not None and not t.args[0].place.p:
        a = store.get(t.args[0].place.l)
        n = t.callee.name
        if a is not None and a[0] == "var":
            self_ty = t.callee.impl_self or ""
            if n == "branch" and "Try" in (t.callee.path + str(t.callee.trait)):
                pay = a[2] if len(a) > 2 else None
                if "Result" in self_ty: val = ("var", 0, pay) if a[1] == 0 else ("var", 1, (("var", 1, pay),))     # Ok(v) -> Continue(v), Err(e) -> Break(Err(e))
                elif "Option" in self_ty: val = ("var", 0, pay) if a[1] == 1 else ("var", 1, (("var", 0, ()),))    # Some(v) -> Continue(v), None -> Break(None)
            elif n in KEEP_VARIANT and ("Result" in self_ty or "Option" in self_ty) and "std::" in t.callee.path:
                val = a
    if not d.p and not t.callee.indirect and t.callee.name == "from_residual":
        self_ty = t.callee.impl_self or ""
        if "Result" in self_ty: val = ("var", 1, None)
        elif "Option" in self_ty: val = ("var", 0, ())
    if d.p: return store
    if val is not None:
        store = dict(store); store[d.l] = val
    elif d.l in store:
        store = dict(store); del store[d.l]
    # a local whose address was handed to the callee may have been changed
    return store


def feasible_succs(store, t, succs):
    if t.kind == "switch" and t.discr is not None and t.discr.place is not None and not t.discr.place.p:
        v = store.get(t.discr.place.l)
        if v is not None and v[0] == "int":
            chosen = [(lab, d) for lab, d in succs if lab == v[1]]
            if not chosen: chosen = [(lab, d) for lab, d in succs if lab == "otherwise"]
            return chosen
    return succs


def refine_on_edge(body, du, store, src, lab, dst):
    """what taking the edge (src, lab, dst) of a switch tells about the value it tested"""
    t = body.blocks[src].term
    if t.kind != "switch" or lab == "otherwise" or t.discr is None or t.discr.place is None or t.discr.place.p: return store
    l = t.discr.place.l
    store = dict(store); store[l] = ("int", lab)
    ds = du.defs.get(l, [])
    if len(ds) == 1 and ds[0][0] == "stmt":
        s = ds[0][1]
        if s.kind == "assign" and s.rv == "discr" and s.rplace is not None and not s.rplace.p and s.bb == src:
            old = store.get(s.rplace.l)
            if not (old is not None and old[0] == "var" and old[1] == lab): store[s.rplace.l] = ("var", lab, None)
    return store


def sens_reach(cfg, du, starts, blocked_nodes=(), blocked_edges=(), limit=60000):
    """blocks reachable from `starts` (iterable of (block, store)) when branches whose tested value is known are pruned.
    Falls back to plain reachability when the product gets too large (still an over-approximation)."""
    body = cfg.body
    bn = set(blocked_nodes); be = set(blocked_edges)
    seen = set(); out = set(); work = []
    for b, st in starts:
        if b in bn: continue
        work.append((b, st))
    n = 0
    while work:
        b, st = work.pop()
        key = (b, tuple(sorted(st.items())))
        if key in seen: continue
        seen.add(key); out.add(b); n += 1
        if n > limit: return cfg.reach([s for s, _ in starts], blocked_nodes, blocked_edges) | out
        st = step_block(body, st, b)
        t = body.blocks[b].term
        succs = feasible_succs(st, t, cfg.succ[b])
        st2 = step_term(st, t)
        for lab, d in succs:
            if (b, d) in be or (b, lab, d) in be or d in bn: continue
            s3 = st2 if lab != "unwind" else st
            if t.kind == "switch": s3 = refine_on_edge(body, du, s3, b, lab, d)
            work.append((d, s3))
    return out


def sens_reach_from_edge(cfg, du, edge, blocked_nodes=(), blocked_edges=()):
    src, lab, dst = edge
    st = refine_on_edge(cfg.body, du, step_block(cfg.body, {}, src), src, lab, dst)
    return sens_reach(cfg, du, [(dst, st)], blocked_nodes, blocked_edges)


def state_graph(cfg, du, limit=60000):
    """explicit product graph from the entry: nodes (block, store), edges carry the CFG edge they take. Returns (nodes, adj) with
    nodes[i] = block index and adj[i] = [(src_block, label, dst_block, j)], or None when the product is too large."""
    body = cfg.body
    ids = {}; nodes = []; adj = []
    def nid(b, st):
        k = (b, tuple(sorted(st.items())))
        if k not in ids:
            ids[k] = len(nodes); nodes.append(b); adj.append(None)
            work.append((ids[k], b, st))
        return ids[k]
    work = []
    nid(0, {})
    while work:
        i, b, st = work.pop()
        if len(nodes) > limit: return None
        st1 = step_block(body, st, b)
        t = body.blocks[b].term
        succs = feasible_succs(st1, t, cfg.succ[b])
        st2 = step_term(st1, t)
        out = []
        for lab, d in succs:
            s3 = st2 if lab != "unwind" else st1
            if t.kind == "switch": s3 = refine_on_edge(body, du, s3, b, lab, d)
            out.append((b, lab, d, nid(d, s3)))
        adj[i] = out
    return nodes, adj


def graph_reach(graph, blocked_nodes=(), blocked_edges=()):
    nodes, adj = graph
    bn = set(blocked_nodes); be = set(blocked_edges)
    if nodes[0] in bn: return set()
    seen = {0}; out = {nodes[0]}; work = [0]
    while work:
        i = work.pop()
        for (b, lab, d, j) in adj[i] or ():
            if (b, d) in be or (b, lab, d) in be or d in bn or j in seen: continue
            seen.add(j); out.add(d); work.append(j)
    return out
