#!/bin/bash
# builds the two extractors offline; nothing else is needed (rules are python3 stdlib)
set -euo pipefail
cd "$(dirname "$0")"
export CARGO_NET_OFFLINE=true
(cd tools/mirfacts && cargo +nightly build --release --offline)
(cd tools/astfacts && cargo build --release --offline)
echo "setup ok"
