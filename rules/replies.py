"""Reply-producing calls and the exactly-one-reply path rule (C01.R3, reused by C03/C08)."""
from vlib.cfg import Cfg, DefUse, enumerate_paths

def is_reply_call(t):
    c = t.callee
    if c.indirect: return False
    n = c.name
    if n.startswith("reply"): return True                      # reply, reply_struct, reply_parameters, reply_<error>, reply_invalid_parameter...
    tr = c.trait or ""
    if n == "call" and tr.endswith("Interface") and "VarlinkInterface" not in tr: return True   # delegation to a registered interface
    if tr.endswith("VarlinkInterface") and n not in ("call_upgraded",): return True               # generated: hand over to the implementation
    return False

def proxies(cx):
    out = []
    for b in cx.mir.bodies():
        if b.promoted is not None: continue
        if b.impl_trait and b.impl_trait.endswith("Interface") and b.path.endswith("::call") and "VarlinkInterfaceProxy" in (b.impl_self or ""):
            out.append(b)
    return out

def check_one_reply_paths(cx, rule):
    targets = [cx.mir.one("varlink", "<VarlinkService as Interface>::call"), cx.mir.one("varlink", "VarlinkService::call")]
    px = proxies(cx)
    cx.floor(rule, "generated Interface::call proxies", len(px), 6)
    arms_total = 0
    for body in targets + px:
        cx.saw(body)
        cfg = Cfg(body); du = DefUse(body)
        if cfg.cycles_exist():
            cx.bad(rule, "%s:%s:cyclic" % (body.pkg, body.path), body.sp, "dispatcher body contains a loop; the one-reply path rule needs an acyclic dispatcher")
            continue
        limit = []
        paths = enumerate_paths(cfg, 0, lambda blk: blk.term.kind == "return", du=du, on_limit=lambda: limit.append(1))
        if limit:
            cx.bad(rule, "%s:%s:path-limit" % (body.pkg, body.path), body.sp, "too many paths to enumerate"); continue
        reply_blocks = {b.idx: b.term for b in body.blocks if not b.cleanup and b.term.kind == "call" and is_reply_call(b.term)}
        arms_total += len(reply_blocks)
        bad = []
        hist = {}
        for p in paths:
            n = sum(1 for b in p if b in reply_blocks)
            if n == 1: hist[1] = hist.get(1, 0) + 1; continue
            if n == 0:
                # acceptable only when the function returns an Err produced by `?` (connection closes)
                last_def = None
                for b in p:
                    t = body.blocks[b].term
                    if t.kind == "call" and t.dest is not None and t.dest.l == 0 and not t.dest.p: last_def = t
                    for s in body.blocks[b].stmts:
                        if s.kind == "assign" and s.lhs.l == 0 and not s.lhs.p: last_def = s
                via_q = last_def is not None and getattr(last_def, "callee", None) is not None and last_def.callee.name == "from_residual"
                if not via_q:
                    # the Err may have travelled through locals (a helper's return value handed on): ask the abstract store
                    from vlib import absval
                    st = None
                    for kind, b2, x, st_ in absval.walk(body, du, cfg, p):
                        if kind == "term" and x.kind == "return": st = st_
                    v = (st or {}).get(0)
                    via_q = v is not None and v[0] == "var" and v[1] == 1
                if via_q: hist["0+Err"] = hist.get("0+Err", 0) + 1; continue
                bad.append((0, p))
            else:
                bad.append((n, p))
        key = "%s:%s" % (body.pkg, body.path)
        if bad:
            n, p = bad[0]
            where = [body.blocks[b].term.sp for b in p if b in reply_blocks]
            cx.bad(rule, key, body.sp, "%d of %d paths produce %s replies (first: %d replies at %s; blocks %s)" %
                   (len(bad), len(paths), "a wrong number of", n, where or "-", p[:30]), witness={"path": p, "replies": n})
        else:
            cx.ok(rule, key, body.sp, "%d paths, %d reply sites: %s" % (len(paths), len(reply_blocks), hist))
    cx.floor(rule, "reply-producing call sites in dispatchers", arms_total, 30)
