"""C06 — malformed or hostile input is contained."""
import re
from vlib.cfg import Cfg, DefUse, Slice, ref_chain
from vlib.cond import switch_cond, variant_edge, bool_edges
from vlib.census import panic_sites, reachable_bodies
from vlib.facts import AnchorMissing
from . import handle_common as hc
from . import C01

LISTEN_WORKER = "server::listen::{closure#1}"

# may-panic constructs on the request path, each with the reason it cannot fire for any peer input
PANIC_TABLE = {
    # key: package : kind : operation <- where the consumed value comes from (independent of the enclosing function, so that
    # moving the statement into a helper keeps its entry)
    'varlink:assert:overflow:Sub<-arith+call:T::write|const':
        "busy -= 1 after the producer's += 1 for the same job (C14.R4 pairing)",
    'varlink:assert:overflow:Sub<-call:BufRead::read_until|const':
        'len - 1 behind the `len == 0` early return',
    'varlink:index:<HashMap<K, V, S, A> as Index<&Q>>::index<-arg+field:ifaces|arg':
        'ifaces[key] behind contains_key(key) (checked by C03.R2)',
    'varlink:index:<HashMap<K, V, S, A> as Index<&Q>>::index<-arg+field:ifaces|call:serde_json::from_value':
        'ifaces[key] behind contains_key(key) (checked by C03.R4)',
    'varlink:index:core::str::traits::<impl Index<I> for str>::index<-call:serde_json::from_slice|call:impl str::rfind':
        "method[..n]: n is the byte position of an ASCII '.' returned by rfind on the same string, always a char boundary",
    'varlink:index:core::str::traits::<impl Index<I> for str>::index<-*|call:impl str::rfind':
        "method[..n]: n is the byte position of an ASCII '.' returned by rfind on the same string, always a char boundary",
    'varlink:unwrap:Option::unwrap<-arg':
        'call.request.as_ref().unwrap(): Call::new always stores Some(request) (C04.R1 request-stored); upgraded calls never reach Interface::call',
    'varlink:unwrap:Option::unwrap<-arg+field:request':
        'call.request.as_ref().unwrap(): Call::new always stores Some(request) (C04.R1 request-stored); upgraded calls never reach Interface::call',
    'varlink:unwrap:Result::unwrap<-call:Stream::split':
        'stream.split().unwrap(): try_clone of the accepted socket fails only on descriptor exhaustion; noted as a residual hazard (panics this worker, busy count leaks) — not input-controlled',
    'varlink:unwrap:Result::unwrap<-call:T::lock':
        'receiver.lock(): poisoned only if another worker panicked while holding it (it holds it only inside recv())',
    'varlink:unwrap:Result::unwrap<-call:T::recv':
        'recv(): the sender lives in the ThreadPool, which joins the workers before it is dropped',
    'varlink:unwrap:Result::unwrap<-call:T::write':
        'num_busy.write(): poisoned only after a panic under that lock; the critical sections only add/subtract',
    'varlink:unwrap:Result::unwrap<-call:serde_json::to_value':
        'inside json!({"description": <&\'static str>}): serialising a string slice to a Value cannot fail',
}
GEN_UNWRAP = "call.request.unwrap() in a generated dispatcher: Call::new always stores Some(request)"


def run(cx):
    cx.rule("C06.R1", "no reply capability before a successful parse: every Call::new in handle() is dominated by the Ok edge of the parser, handle() never writes to its writer itself, and the parser is fed the raw message bytes (no lossy re-encoding that would make invalid UTF-8 acceptable)")
    cx.rule("C06.R2", "a handler error closes exactly that connection: Err -> Stream::shutdown -> leave the loop, without panicking")
    cx.rule("C06.R3", "panic-site census of the request path (handle, the listen worker, the pool worker and everything they reach in the library, plus the generated dispatchers): every may-panic construct is a reviewed table entry")
    cx.rule("C06.R4", "nesting stays bounded: serde_json's recursion limit is never disabled (no disable_recursion_limit call, no unbounded_depth feature) and no thread is given a stack smaller than the default the limit was sized for (Builder::stack_size census)")
    cx.rule("C06.R5", "a truncated message cannot spin the worker: a loop around handle() re-enters it without reading fresh bytes only on the edge that says an upgrade just happened; otherwise every cycle handle() -> handle() passes a blocking read (whose EOF/empty result ends the loop)")
    cx.rule("C06.R6", "undecodable request data ends the connection: on the request path of the library (handle() and everything it reaches) the Err of a serde_json decoder (from_slice/from_str/from_value) is never absorbed — once it has occurred, every return that can follow is Err (so the worker shuts the stream down) whatever the spelling (`?`, `.ok()?` in a helper, a match)")
    r1(cx); r2(cx); r3(cx); r4(cx); r4_stack(cx); r5(cx); r6(cx)


def hc_try_edges(body, du, call):
    from vlib.cfg import question_mark_edges
    return question_mark_edges(body, du, call)


def r1(cx):
    h = hc.analyse_handle(cx)
    body, cfg, du = h.body, h.cfg, h.du
    sl = Slice(body, du)
    # the parser call(s): anything from serde_json that produces the Request
    parsers = [t for t in body.calls() if not t.callee.indirect and "serde_json" in t.callee.path and t.callee.name in ("from_slice", "from_str", "from_reader", "from_value")]
    if h.deser_ctor is not None:
        # streaming form: Deserializer::from_slice(buf) + T::deserialize(&mut de). serde_json::from_slice is exactly that plus de.end():
        # without it bytes behind the first JSON value are silently accepted
        P = h.deser_ctor
        ends = [t for t in body.calls("=end") if "serde_json" in (t.callee.path + t.callee.resolved) and "Deserializer" in (t.callee.path + t.callee.resolved + str(t.callee.impl_self or ""))]
        from vlib import absval
        good = False
        if ends:
            news = [t for t in body.calls("=new") if "Call" in t.callee.path]
            ce, be = hc_try_edges(body, du, h.from_slice)
            ee, _x = hc_try_edges(body, du, ends[0])
            good = ce is not None and ee is not None and bool(news) and cfg.must_pass_after(ce, [t.bb for t in news], {e.bb for e in ends}) and all(cfg.edge_dominates(ee, t.bb) for t in news)
        cx.check(good, "C06.R1", "varlink:handle:whole-message-parser", "%s %s" % (h.from_slice.sp, body.path),
                 "the message is read with a streaming Deserializer but `end()` is not checked before the request is served: `<request><garbage>` is answered instead of closing the connection",
                 note_ok="Deserializer::from_slice + deserialize + end()")
        parsers = [P]
    else:
        cx.check(len(parsers) == 1 and parsers[0].callee.name in ("from_slice", "from_str"), "C06.R1", "varlink:handle:single-parser", body.sp,
                 "expected exactly one serde_json parser call on the message (%s)" % [t.callee.name for t in parsers], note_ok=parsers[0].callee.name if parsers else "")
    if len(parsers) != 1: return
    P = parsers[0]
    # raw bytes: the parser's input derives from the read buffer without a lossy conversion
    pin = Slice(body, du, extra_pass=("=from_utf8", "=as_str", "=as_bytes", "=as_slice")).origins(P.args[0])
    lossy = [o.callee.name for k, o in pin if k == "call" and ("lossy" in o.callee.name or o.callee.name in ("to_string_lossy", "from_utf8_unchecked"))]
    from_buf = any(k == "call" and o.callee.name == "new" and o.dest.l in h.buf_locals for k, o in pin)
    cx.check(not lossy and from_buf, "C06.R1", "varlink:handle:parser-sees-raw-bytes", "%s %s" % (P.sp, body.path),
             "the message is %s before it is parsed: byte sequences that are not valid UTF-8 are turned into U+FFFD and accepted, so a malformed message is answered instead of closing the connection" % (lossy or "not taken from the read buffer"),
             note_ok="parser input is the read buffer itself (strict UTF-8 validation by serde_json)")
    from vlib.cfg import question_mark_edges
    ok_edge, _err = question_mark_edges(body, du, h.parse_done if h.deser_ctor is not None else P)
    if ok_edge is None: raise AnchorMissing("handle: `?` on the parser result")
    cn = [t for t in h.call_news]
    cx.floor("C06.R1", "Call::new sites in handle()", len(cn), 1)
    for i, t in enumerate(cn):
        cx.check(cfg.edge_dominates(ok_edge, t.bb), "C06.R1", "varlink:handle:Call::new#%d:after-parse" % i, "%s %s" % (t.sp, body.path),
                 "a Call (the only way to reply) is created on a path that did not pass a successful parse", note_ok="dominated by the parser's Ok edge")
    # handle never writes directly
    direct = [t for t in body.calls("=write_all", "=write", "=flush", "=write_fmt") if "io" in t.callee.resolved]
    cx.check(not direct, "C06.R1", "varlink:handle:no-direct-write", body.sp, "handle() writes to the connection itself at %s" % [t.sp for t in direct], note_ok="replies only through Call")
    # the upgraded escape hatch is reachable only with an upgraded interface
    nu = [t for t in body.calls("=new_upgraded")]
    for i, t in enumerate(nu):
        doms = []
        for b in body.blocks:
            if b.cleanup or b.term.kind != "switch": continue
            c = switch_cond(body, du, b.term)
            if c.kind == "discr" and "Option" in body.ty(c.place.l) and cfg.edge_dominates(variant_edge(b.term, 1), t.bb): doms.append(b.idx)
        cx.check(bool(doms), "C06.R1", "varlink:handle:new_upgraded#%d:only-when-upgraded" % i, "%s %s" % (t.sp, body.path), "Call::new_upgraded is reachable without an upgraded interface", note_ok="behind upgraded_iface == Some")


def r2(cx):
    C01.r4.__globals__  # same rule, reported under this property
    from .roles import listen_worker
    body = listen_worker(cx)
    cx.saw(body)
    cfg = Cfg(body); du = DefUse(body)
    hcalls = [t for t in body.calls("=handle") if "ConnectionHandler" in t.callee.path]
    cx.floor("C06.R2", "handle() call sites in the listen worker", len(hcalls), 1)
    for i, t in enumerate(hcalls):
        sw = None
        for b in sorted(cfg.reach(t.target)):
            term = body.blocks[b].term
            if term.kind == "switch":
                c = switch_cond(body, du, term)
                if c.kind == "discr" and c.place.l == t.dest.l and not c.place.p: sw = term; break
        if sw is None:
            cx.bad("C06.R2", "listen-worker:handle#%d:Err-edge" % i, t.sp, "result of handle() is not matched"); continue
        err = variant_edge(sw, 1)
        shut = {x.bb for x in body.calls("=shutdown")}
        passes = cfg.must_pass_after(err, cfg.returns(), shut)
        again = t.bb in cfg.after(err)
        r = cfg.after(err)
        pan = [ps for ps in panic_sites(body) if ps["obj"].bb in r and ps["obj"].bb not in cfg.after(variant_edge(sw, 0)) and not (ps["mac"] and "print" in ps["mac"])]
        cx.check(passes and not again and not pan, "C06.R2", "listen-worker:handle#%d:Err-edge" % i, "%s %s" % (t.sp, body.path),
                 ("a path from handle()'s Err edge leaves the worker without Stream::shutdown; " if not passes else "") + ("the Err edge re-enters handle(); " if again else "") +
                 ("the error arm can panic (%s at %s): the worker dies before closing the connection and its busy count leaks" % (pan[0]["what"], pan[0]["sp"]) if pan else ""),
                 note_ok="Err -> shutdown -> break, no may-panic construct in the arm")
        # the shared handler is untouched by the error (nothing is stored)
    return


def r3(cx):
    from .roles import listen_worker, pool_worker
    roots = [cx.mir.one("varlink", hc.HANDLE), listen_worker(cx), pool_worker(cx)]
    def stop(b):
        return "error.rs" in b.sp or bool(b.mac and "derive" in b.mac)
    bodies = reachable_bodies(cx.mir, roots, pkgs={"varlink"}, stop=stop)
    n = 0
    for b in sorted(bodies, key=lambda b: b.path):
        cx.saw(b)
        for ps in panic_sites(b):
            if ps["mac"] and ("eprintln" in ps["mac"] or "format" in ps["mac"]): continue
            n += 1
            key = "%s:%s" % (b.pkg, ps["skey"])
            if key not in PANIC_TABLE and ps["kind"] == "index":
                # for an index expression the reviewed reason is about the index value; where the container came from may differ
                gk = re.sub(r"<-[^|]*\|", "<-*|", key)
                if gk in PANIC_TABLE: key = gk
            if key in PANIC_TABLE: cx.ok("C06.R3", key, "%s %s" % (ps["sp"], b.path), "table: " + PANIC_TABLE[key])
            else: cx.bad("C06.R3", key, "%s %s" % (ps["sp"], b.path), "new may-panic construct (%s %s) on the request path: a peer-controlled value reaching it would kill the worker; it needs a reviewed table entry" % (ps["kind"], ps["what"]))
    cx.floor("C06.R3", "library functions on the request path", len(bodies), 15)
    cx.floor("C06.R3", "may-panic constructs examined in the library", n, 8)
    # generated dispatchers: only the request unwrap
    from .replies import proxies
    for b in proxies(cx):
        cx.saw(b)
        for ps in panic_sites(b):
            key = "%s:%s:%s" % (b.pkg, b.path, ps["key"])
            good = ps["kind"] == "unwrap" and ps["what"] == "Option::unwrap" and ps["key"].endswith("#0")
            cx.check(good, "C06.R3", key, "%s %s" % (ps["sp"], b.path), "generated dispatcher contains a may-panic construct other than the request unwrap (%s %s)" % (ps["kind"], ps["what"]), note_ok=GEN_UNWRAP)


def r4(cx):
    hits = []
    for b in cx.mir.bodies():
        if b.promoted is not None: continue
        for t in b.calls("=disable_recursion_limit"):
            hits.append("%s %s" % (t.sp, b.path))
    cx.check(not hits, "C06.R4", "workspace:disable_recursion_limit", "-", "serde_json's recursion limit is disabled at %s: deeply nested input can overflow the stack" % hits, note_ok="never called")
    feats = []
    for path, txt in cx.ast.texts.items():
        if path.endswith("Cargo.toml") and "unbounded_depth" in txt: feats.append(path)
    lock = cx.ast.text("Cargo.lock")
    cx.check(not feats, "C06.R4", "workspace:unbounded_depth-feature", "Cargo.toml", "feature unbounded_depth requested in %s" % feats, note_ok="not requested by any manifest")
    m = re.search(r'name = "serde_json"\nversion = "([^"]+)"', lock)
    cx.check(bool(m), "C06.R4", "workspace:serde_json-pinned", "Cargo.lock", "serde_json not pinned", note_ok="serde_json %s (default recursion limit 128)" % (m.group(1) if m else "?"))


DEFAULT_STACK = 2 * 1024 * 1024

def r4_stack(cx):
    """serde_json's limit of 128 levels bounds the recursion only if the thread has the stack for 128 levels: no thread of the library is given less than the default 2 MiB"""
    n = 0; spawns = 0
    for b in cx.mir.bodies(test=False):
        if b.promoted is not None: continue
        spawns += len([t for t in b.calls("=spawn", "=spawn_scoped", "=spawn_unchecked") if "thread" in t.callee.path])
        for i, t in enumerate(b.calls("=stack_size")):
            if "thread" not in t.callee.path: continue
            n += 1; cx.saw(b)
            a = t.args[1]
            v = a.cint() if a.is_const else None
            if v is None:
                vals = {o.cint() for k, o in Slice(b).origins(a) if k == "const"}
                v = vals.pop() if len(vals) == 1 else None
            cx.check(v is not None and v >= DEFAULT_STACK, "C06.R4", "%s:%s:stack_size#%d" % (b.pkg, b.path, i), "%s %s" % (t.sp, b.path),
                     "thread stack set to %s bytes (default is 2 MiB): recursive deserialisation of a message nested up to serde_json's limit can overflow it, which aborts the whole process instead of failing the one connection" % (v if v is not None else "a non-constant number of"),
                     note_ok="stack of %s bytes" % v)
    cx.check(spawns >= 2, "C06.R4", "workspace:thread-stack-default", "-", "expected at least 2 thread spawn sites, saw %d" % spawns, note_ok="%d spawn sites, %d with an explicit stack size" % (spawns, n))


def r5(cx):
    n = 0
    for body in cx.mir.bodies(test=False):
        if body.promoted is not None: continue
        hs = [t for t in body.calls("=handle") if "ConnectionHandler" in (t.callee.path + (t.callee.trait or ""))]
        if not hs: continue
        cfg = Cfg(body); du = DefUse(body)
        reads = {t.bb for t in body.calls("=read", "=fill_buf", "=read_until", "=read_exact", "=poll", "=recv", "=accept") if "RwLock" not in t.callee.path and "Mutex" not in t.callee.path}
        for i, h in enumerate(hs):
            if h.target is None or h.bb not in cfg.reach(h.target): continue
            n += 1; cx.saw(body)
            # locals holding the interface member of the result
            from .C02 import tail_places
            tuples = tail_places(body, du, h)
            iface = set()
            for st in body.stmts():
                if st.kind != "assign" or st.lhs.p: continue
                for o in st.ops:
                    p = o.place
                    if p is None or any(e.startswith("as Err") for e in p.p): continue
                    f = tuple(p.fields())
                    for (l, pre) in tuples:
                        if p.l == l and f[:len(pre) + 1] == pre + ("1",): iface.add(st.lhs.l)
            from vlib.cfg import forward_taint, enumerate_paths, ref_base
            from vlib.pathcond import literals
            Ti = forward_taint(body, du, iface, no_flow=("=is_empty", "=is_some", "=is_none", "=len"))
            from .C02 import remembered_iface
            P = remembered_iface(body, du, h)
            def upgraded_now(lit):
                if lit.kind != "call" or not lit.obj.args or lit.obj.args[0].place is None: return False
                a = lit.obj.args[0].place.l
                if ref_base(du, a)[0] in P: return False                 # a statement about earlier steps, not about this one
                if not any(l in Ti for l in ref_chain(du, a) + [ref_base(du, a)[0]]): return False
                return (lit.obj.callee.name == "is_some" and lit.truth) or (lit.obj.callee.name == "is_none" and not lit.truth)
            stops = (reads - {h.bb}) | {h.bb}
            limit = []
            paths = enumerate_paths(cfg, h.target, lambda blk: blk.idx in stops or blk.term.kind == "return", du=du, on_limit=lambda: limit.append(1))
            spin = [p for p in paths if p[-1] == h.bb and not any(upgraded_now(l) for l in literals(body, p))]
            cx.check(not spin and not limit, "C06.R5", "%s:%s:handle#%d:no-spin" % (body.pkg, body.path, i), "%s %s" % (h.sp, body.path),
                     "handle() can be re-entered without reading from the stream and without an upgrade having happened (e.g. blocks %s): for a message that ends at EOF without its NUL, handle() hands the same bytes back every time and the loop never ends (the connection is never closed, the worker never becomes idle)" % (spin[0][:20] if spin else "path limit"),
                     note_ok="every path back into handle() passes a read or the `upgrade just happened` test (%d read blocks, %d paths)" % (len(reads), len(paths)))
    cx.floor("C06.R5", "handle() call sites inside a loop", n, 3)


def r6(cx):
    from vlib import absval
    root = cx.mir.one("varlink", hc.HANDLE)
    def stop(b):
        return "error.rs" in b.sp or bool(b.mac and "derive" in b.mac)
    raw = reachable_bodies(cx.mir, [root], pkgs={"varlink"}, stop=stop, include_closures=False)
    n = 0
    seen = set()
    for rb in sorted(raw, key=lambda b: b.path):
        if rb.promoted is not None or rb.kind == "Closure": continue
        if cx.mir.is_absorbed_helper(rb): continue          # decided where it is spliced in
        body = cx.mir.view(rb)
        if body.path in seen: continue
        seen.add(body.path)
        dec = [t for t in body.calls() if not t.callee.indirect and "serde_json" in t.callee.path and t.callee.name in ("from_slice", "from_str", "from_value", "from_reader") and "Deserializer" not in t.callee.path]
        # the streaming spelling: T::deserialize(&mut serde_json::Deserializer) and its end()
        dec += [t for t in body.calls("=deserialize", "=end") if not t.callee.indirect and t.dest is not None and not t.dest.p and "serde_json" in body.ty(t.dest.l) and "Error" in body.ty(t.dest.l)]
        if not dec: continue
        cx.saw(body)
        cfg = Cfg(body); du = DefUse(body)
        for i, t in enumerate(dec):
            n += 1
            key = "varlink:%s:%s#%d:error-propagates" % (body.path, t.callee.name, i)
            site = "%s %s" % (t.sp, body.path)
            if not body.ty(0).startswith("std::result::Result<"):
                cx.bad("C06.R6", key, site, "a decoder error is turned into a %s by a public function: its callers cannot close the connection for it" % body.ty(0)); continue
            rets, reached = absval.outcome_after(cfg, du, t, 1)
            good = rets is not None and bool(rets) and all(v is not None and v[0] == "var" and v[1] == 1 for v in rets)
            cx.check(good, "C06.R6", key, site,
                     "after %s failed the function can still return something other than Err (%s): request data that does not decode is answered or ignored instead of ending the connection" % (t.callee.name, "the result of a reply call / Ok" if rets else "not evaluated"),
                     note_ok="Err -> every return is Err")
    cx.floor("C06.R6", "decoder calls on the request path", n, 2)
