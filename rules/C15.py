"""C15 — the listen loop stops when and only when it should, and drains cleanly."""
from vlib.cfg import Cfg, DefUse, Slice, ref_chain
from vlib.cond import switch_cond, bool_edges, variant_edge, dominating_edges
from vlib.facts import AnchorMissing


def variant_index(cx, pkg, enum_path, name):
    u = cx.mir.unit(pkg, kind="lib") or cx.mir.unit(pkg)
    for it in u.items:
        if it["path"] == enum_path:
            for i, v in enumerate(it["variants"]):
                if v["name"] == name: return i
    raise AnchorMissing("variant %s::%s" % (enum_path, name))


def run(cx):
    cx.rule("C15.R1", "idle timeout: the Timeout error is returned only when the countdown is used up AND no connection is being served; the countdown (idle_timeout*1000 ms) is restarted after every accepted connection and whenever workers are busy at the deadline, and is decreased by exactly the poll quantum otherwise")
    cx.rule("C15.R2", "stop flag: with a flag configured the poll quantum is a constant in (0, 1000] ms, every timed-out poll loads the flag, and a set flag returns Ok(())")
    cx.rule("C15.R3", "drain before return: on every return after the pool exists the pool is dropped (workers joined) before the listener; ThreadPool::drop sends one Terminate per worker on the job channel and then joins every worker")
    cx.rule("C15.R4", "unlink what was bound: listeners created by bind carry the `false` tag, activated ones `true`, and Listener::drop removes the socket file exactly for (UNIX, false); nothing but drop takes the socket out of a Listener (drop needs it to find the path)")
    cx.rule("C15.R5", "accept() waits for the requested number of milliseconds: tv_sec = ms / 1000 and tv_usec = (ms % 1000) * 1000, a select() timeout is reported as ErrorKind::Timeout, and Timeout is built only behind the `descriptor not readable after select()` edge (listen() charges one poll interval per Timeout)")
    r1_r2(cx); r3(cx); r4(cx); r5(cx)


def r1_r2(cx):
    ls = cx.mir.one("varlink", "server::listen")
    cx.saw(ls)
    cfg = Cfg(ls); du = DefUse(ls); sl = Slice(ls, du)
    mut_borrowed = {st.rplace.l for st in ls.stmts() if st.kind == "assign" and st.rv == "ref" and st.rplace is not None and not st.rplace.p and st.bk and "mut" in str(st.bk).lower()}
    def canon(l):
        """the variable a local stands for: the first one on its copy/reference chain that is assigned more than once or borrowed
        mutably (a counter that is updated in place or through a `&mut` handed to a helper), else the end of the chain"""
        ch = [x for x in ref_chain(du, l) if not str(ls.ty(x)).startswith("&")] or ref_chain(du, l)
        for x in ch:
            if x in mut_borrowed or len(du.defs.get(x, [])) > 1: return x
        return ch[-1]
    acc = ls.calls("=accept"); ex = ls.calls("=execute")
    if len(acc) != 1 or len(ex) != 1: raise AnchorMissing("listen: accept/execute")
    acc, ex = acc[0], ex[0]
    site = "%s %s" % (acc.sp, ls.path)
    # quantum local: second argument of accept
    wt = canon(acc.args[1].place.l)
    # ... which must be the poll quantum itself: accept(0) means "block until a connection arrives" (no select()), so a timeout
    # that is computed down towards zero (`quantum.min(countdown)`, a subtraction) turns the last poll of a period into an endless wait
    shrunk = [o for k, o in Slice(ls, du).origins(acc.args[1]) if k == "call" and not o.callee.indirect and o.callee.name in ("min", "saturating_sub", "checked_sub", "wrapping_sub", "clamp")] + \
             [o for k, o in Slice(ls, du).origins(acc.args[1]) if k == "bin" and str(o.op).startswith("Sub")]
    cx.check(not shrunk, "C15.R2", "varlink:listen:accept-timeout-is-the-quantum", site,
             "the timeout handed to accept() is computed with %s: it can become 0, and accept(0) blocks without polling — with a stop flag and no idle timeout listen() never looks at the flag again" % (sorted({getattr(o, "callee", None).name if hasattr(o, "callee") else str(o.op) for o in shrunk})),
             note_ok="accept(quantum): the configured poll interval or the idle budget, unmodified")
    if shrunk: return
    # Timeout arm
    ti = variant_index(cx, "varlink", "error::ErrorKind", "Timeout")
    tedge = None
    for b in ls.blocks:
        if b.cleanup or b.term.kind != "switch": continue
        c = switch_cond(ls, du, b.term)
        if c.kind == "discr" and any(k == "call" and o.callee.name == "kind" for k, o in sl.origins(c.place)):
            tedge = variant_edge(b.term, ti)
        if c.kind == "call" and c.term.callee.name in ("eq", "ne") and len(c.term.args) == 2:
            # `*e.kind() == ErrorKind::Timeout`
            a0, a1 = c.term.args
            for x, y in ((a0, a1), (a1, a0)):
                if any(k == "call" and o.callee.name == "kind" for k, o in sl.origins(x)):
                    is_to = False
                    for k, o in sl.origins(y, follow_agg=False):
                        if k == "agg" and isinstance(o.agg, dict) and o.agg.get("variant") == "Timeout": is_to = True
                        if k == "const":
                            from vlib.facts import promoted_body
                            dbg = str((o.const or {}).get("dbg", "") or "")
                            if "Timeout" in str((o.const or {}).get("val", "")): is_to = True
                            if "promoted[" in dbg:
                                pb = promoted_body(ls, dbg)
                                if pb is not None and any(st.kind == "assign" and ((st.rv == "agg" and isinstance(st.agg, dict) and st.agg.get("variant") == "Timeout") or any(oo.is_const and "Timeout" in str((oo.const or {}).get("val", "")) for oo in st.ops)) for st in pb.stmts()): is_to = True
                    if is_to:
                        te, fe = bool_edges(b.term, c)
                        tedge = te if c.term.callee.name == "eq" else fe
    if tedge is None: raise AnchorMissing("listen: match on e.kind()")
    arm = cfg.after(tedge, blocked_nodes={acc.bb})
    err_rets = [s for s in ls.stmts() if s.kind == "assign" and s.lhs.l == 0 and s.rv == "agg" and isinstance(s.agg, dict) and s.agg.get("variant") == "Err" and s.bb in arm]
    if not err_rets:
        # the error may be built in a helper and travel through `?`: the construction of ErrorKind::Timeout is the site then
        err_rets = [s for s in ls.stmts() if s.kind == "assign" and s.rv == "agg" and isinstance(s.agg, dict) and s.bb in arm and
                    ((s.agg.get("variant") == "Timeout" and s.agg.get("adt", "").endswith("ErrorKind")) or (s.agg.get("variant") == "Err" and s.agg.get("adt", "").endswith("Result")))]
    # the countdown: the local compared with the quantum in the Timeout arm
    tw = None
    for b in ls.blocks:
        if b.cleanup or b.term.kind != "switch" or b.idx not in arm: continue
        c = switch_cond(ls, du, b.term)
        if c.kind == "bin" and c.op in ("Le", "Lt", "Ge", "Gt") and c.a.place is not None and c.b.place is not None:
            la = canon(c.a.place.l); lb = canon(c.b.place.l)
            if lb == wt and la != wt: tw = la
            elif la == wt and lb != wt: tw = lb
    if tw is None: raise AnchorMissing("listen: no comparison of a countdown with the poll quantum in the Timeout arm")
    def is_idle_ms(s):
        """assignment `countdown = idle_timeout * 1000` (possibly through a hoisted local)"""
        if s.kind != "assign" or tuple(s.lhs.p) not in ((), ("*",)) or (s.lhs.l != tw if not s.lhs.p else canon(s.lhs.l) != tw) or s.rv != "use" or not s.ops or s.ops[0].place is None: return False
        if s.lhs.p and s.lhs.l == tw: return False
        for k, o in sl.origins(s.ops[0]):
            if k == "bin" and o.op.startswith("Mul") and any(x.is_const and x.cint() == 1000 for x in o.ops):
                other = [x for x in o.ops if not x.is_const]
                if other and other[0].place is not None:
                    for kk, dd in du.defs.get(other[0].place.l, []):
                        if kk == "stmt" and dd.ops and dd.ops[0].place is not None and "idle_timeout" in dd.ops[0].place.fields(): return True
        return False
    resets = [s for s in ls.stmts() if is_idle_ms(s)]
    import os
    if os.environ.get("VERIF_DEBUG"): print("DEBUG C15 tw", tw, "wt", wt, "resets", [(str(x), x.bb) for x in resets], "mut_borrowed", sorted(mut_borrowed))
    if not resets: raise AnchorMissing("listen: the countdown is never set to idle_timeout * 1000")
    # the two conditions
    le_edge = busy0_edge = None; busy_false = None; le_false = None
    for b in ls.blocks:
        if b.cleanup or b.term.kind != "switch" or b.idx not in arm: continue
        c = switch_cond(ls, du, b.term)
        if c.kind != "bin": continue
        te, fe = bool_edges(b.term, c)
        la = canon(c.a.place.l) if c.a.place is not None else None
        lb = canon(c.b.place.l) if c.b.place is not None else None
        if c.op in ("Le", "Lt") and la == tw and lb == wt: le_edge, le_false = te, fe
        if c.op in ("Ge", "Gt") and la == wt and lb == tw: le_edge, le_false = te, fe
        # the negated spellings: `countdown > quantum` / `quantum < countdown` are true exactly when the budget is NOT used up
        if c.op == "Gt" and la == tw and lb == wt: le_edge, le_false = fe, te
        if c.op == "Lt" and la == wt and lb == tw: le_edge, le_false = fe, te
        if c.op == "Eq" and c.b.is_const and c.b.cint() == 0 and any(k == "call" and o.callee.name == "num_busy" for k, o in sl.origins(c.a)): busy0_edge, busy_false = te, fe
    why = []
    if not err_rets: why.append("no Timeout return")
    if le_edge is None: why.append("no comparison `countdown <= quantum`")
    if busy0_edge is None: why.append("no test num_busy() == 0")
    if not why:
        for s in err_rets:
            if not cfg.edge_dominates(le_edge, s.bb): why.append("Timeout is returned before the countdown is used up")
            if not cfg.edge_dominates(busy0_edge, s.bb): why.append("Timeout is returned while connections are still being served")
    cx.check(not why, "C15.R1", "varlink:listen:timeout-only-when-idle", site, "; ".join(sorted(set(why))), note_ok="return Err(Timeout) only behind countdown <= quantum and num_busy() == 0")
    # restart after each accepted connection
    rb = {s.bb for s in resets}
    cx.check(cfg.must_pass(ex.target, [acc.bb], rb), "C15.R1", "varlink:listen:countdown-restarts-on-accept", "%s %s" % (ex.sp, ls.path),
             "after a connection was accepted the loop reaches accept() again without restarting the idle countdown: the server can time out less than idle_timeout after the last connection",
             note_ok="execute() -> countdown = idle_timeout*1000 -> accept()")
    if busy_false is not None:
        cx.check(cfg.must_pass(busy_false[2], [acc.bb], rb), "C15.R1", "varlink:listen:countdown-restarts-when-busy", site,
                 "with workers busy at the deadline the countdown is not restarted", note_ok="busy at the deadline -> countdown restarts")
    # decrement by exactly the quantum on the other edge
    decs = [s for s in ls.stmts() if s.kind == "assign" and s.rv == "bin" and s.op.startswith("Sub") and s.ops[0].place is not None and canon(s.ops[0].place.l) == tw]
    okd = len(decs) == 1 and decs[0].ops[1].place is not None and canon(decs[0].ops[1].place.l) == wt and le_false is not None and cfg.edge_dominates(le_false, decs[0].bb)
    cx.check(okd, "C15.R1", "varlink:listen:countdown-decrement", site, "the countdown is not decreased by exactly the poll quantum on the not-yet-expired edge", note_ok="countdown -= quantum")
    # nothing else writes the countdown
    others = [s for s in ls.stmts() if s.kind == "assign" and ((s.lhs.l == tw and not s.lhs.p) or (tuple(s.lhs.p) == ("*",) and s.lhs.l != tw and canon(s.lhs.l) == tw)) and s not in resets
              and not any(s.ops and s.ops[0].place is not None and s.ops[0].place.l == d.lhs.l for d in decs) and s not in decs]
    cx.check(not others, "C15.R1", "varlink:listen:countdown-writers", site, "unexpected writes to the countdown at %s" % [s.sp for s in others], note_ok="%d restarts, 1 decrement" % len(resets))
    # the quantum: unwrap_or(map(stop.as_ref(), |_| K), countdown)
    q = [o for k, o in sl.origins(acc.args[1]) if k == "call"]
    # the constant a closure handed to Option::map returns (`stop.as_ref().map(|_| K)`), or a constant alternative of the quantum
    from .roles import _closure_args
    cl0 = []
    q = q + [o for kk, o in Slice(ls, du, extra_pass=("=unwrap_or", "=unwrap_or_else")).origins(acc.args[1]) if kk == "call"]
    for t in q:
        if t.callee.name in ("map", "map_or", "map_or_else"):
            for pth in _closure_args(ls, du, t):
                cl0 += [b for b in ls.unit.bodies if b.promoted is None and b.path == pth]
    if not cl0: cl0 = [b for b in ls.unit.bodies if b.promoted is None and b.parent == ls.path and b.path.endswith("{closure#0}")]
    k = None
    if cl0:
        vals = [s.ops[0].cint() for s in cl0[0].stmts() if s.kind == "assign" and s.lhs.l == 0 and s.ops and s.ops[0].is_const]
        k = vals[0] if len(vals) == 1 else None
    if k is None:
        consts = sorted({o.cint() for kk, o in sl.origins(acc.args[1]) if kk == "const" and o.cint() is not None})
        if len(consts) == 1: k = consts[0]
    if k is None:
        # `stop.map(|_| K).unwrap_or(countdown)` written out in the view: K is the one constant alternative of the wait time
        consts = sorted({o.cint() for kk, o in Slice(ls, du, extra_pass=("=unwrap_or", "=unwrap_or_else")).origins(acc.args[1]) if kk == "const" and o.cint() is not None})
        if len(consts) == 1: k = consts[0]
    cx.check(k is not None and 0 < k <= 1000, "C15.R2", "varlink:listen:poll-quantum", cl0[0].sp if cl0 else site, "poll quantum with a stop flag is %s ms (must be a constant in (0, 1000])" % k, note_ok="%s ms" % k)
    # the flag is loaded on every timed-out poll when configured, true -> Ok(())
    loads = [t for t in ls.calls("=load") if "Atomic" in t.callee.path and t.bb in arm]
    okl = False
    if len(loads) == 1:
        some = None
        for b in ls.blocks:
            if b.cleanup or b.term.kind != "switch" or b.idx not in arm: continue
            c = switch_cond(ls, du, b.term)
            if c.kind == "discr" and any(kk == "call" and dd.callee.name in ("as_ref", "as_deref", "clone") for kk, dd in du.defs.get(c.place.l, [])) and "Option" in ls.ty(c.place.l) \
               and cfg.edge_dominates(variant_edge(b.term, 1), loads[0].bb):
                some = variant_edge(b.term, 1)
        for b in ls.blocks:
            if b.cleanup or b.term.kind != "switch": continue
            c = switch_cond(ls, du, b.term)
            if c.kind == "call" and c.term is loads[0]:
                te, fe = bool_edges(b.term, c)
                okr = [s.bb for s in ls.stmts() if s.kind == "assign" and s.lhs.l == 0 and s.rv == "agg" and isinstance(s.agg, dict) and s.agg.get("variant") == "Ok"]
                okl = some is not None and cfg.must_pass(some[2], [acc.bb] + cfg.returns(), {loads[0].bb}) and any(x in cfg.after(te, blocked_nodes={acc.bb}) for x in okr) and acc.bb not in cfg.after(te)
    if not okl and loads:
        okl = stop_flag_by_paths(ls, cfg, du, tedge, acc, loads)
    cx.check(okl, "C15.R2", "varlink:listen:stop-flag-polled", site, "a timed-out poll with a configured stop flag does not always load the flag, or a set flag does not return Ok(())", note_ok="Timeout & Some(flag): load(); true -> return Ok(())")


def stop_flag_by_paths(ls, cfg, du, tedge, acc, loads):
    """on every feasible path from the Timeout edge back to accept() or out of listen(): a configured flag (the Option matched on
    `Some`) is loaded, and once the load returned true the path leaves with Ok(()) without accepting again"""
    from vlib.cfg import enumerate_paths
    from vlib.pathcond import literals
    hit = [False]
    paths = enumerate_paths(cfg, tedge[2], lambda blk: blk.idx == acc.bb or blk.term.kind == "return", du=du, on_limit=lambda: hit.__setitem__(0, True))
    if hit[0]: return False
    load_bbs = {t.bb for t in loads}
    okr = {s.bb for s in ls.stmts() if s.kind == "assign" and s.lhs.l == 0 and s.rv == "agg" and isinstance(s.agg, dict) and s.agg.get("variant") == "Ok"}
    sl = Slice(ls, du, extra_pass=("=as_ref", "=as_deref", "=clone"))
    def is_flag_option(place):
        sl.origins(place)
        if any(any(e.startswith(".") for e in proj) and "stop_listening" in str(proj) for (_l, proj) in sl.last_seen): return True
        for (l, proj) in sl.last_seen:
            for k, d in du.defs.get(l, []):
                if k == "stmt" and d.kind == "assign":
                    for q in ([d.rplace] if d.rplace is not None else []) + [o.place for o in d.ops if o.place is not None]:
                        if "stop_listening" in q.fields(): return True
        return False
    n_set = 0
    for p in paths:
        if p[-1] < 0: continue
        some = False
        for a, b in zip(p, p[1:]):
            t = ls.blocks[a].term
            if t.kind != "switch" or t.discr is None or t.discr.place is None or t.discr.place.p: continue
            ds = du.value_defs(t.discr.place.l)
            if len(ds) == 1 and ds[0][0] == "stmt" and ds[0][1].rv == "discr" and ds[0][1].rplace is not None and "Option" in ls.ty(ds[0][1].rplace.l):
                labs = [lab for lab, d in cfg.succ[a] if d == b]
                if labs and labs[0] == 1 and is_flag_option(ds[0][1].rplace): some = True
        loaded = any(b in load_bbs for b in p)
        if some and not loaded: return False
        lt = [l.truth for l in literals(ls, p) if l.kind == "call" and l.obj in loads]
        if lt and lt[-1] is True:
            n_set += 1
            if ls.blocks[p[-1]].term.kind != "return" or not any(b in okr for b in p): return False
    return n_set > 0


def r3(cx):
    ls = cx.mir.one("varlink", "server::listen")
    cfg = Cfg(ls); du = DefUse(ls)
    tn = [t for t in ls.calls("server::ThreadPool::new") if t.callee.name == "new"]
    ln = [t for t in ls.calls("server::Listener::new") if t.callee.name == "new"]
    if len(tn) != 1 or len(ln) != 1: raise AnchorMissing("listen: pool/listener construction")
    pool = tn[0].dest.l
    lis = None
    sl = Slice(ls, du)
    for b in ls.blocks:
        if b.cleanup: continue
        for s in b.stmts:
            if s.kind == "assign" and not s.lhs.p and "Listener" in ls.ty(s.lhs.l) and s.ops and s.ops[0].place is not None and \
               any(k == "call" and o is ln[0] for k, o in Slice(ls, du, extra_pass=("=branch",)).origins(s.ops[0])): lis = s.lhs.l
    if lis is None: raise AnchorMissing("listen: listener local")
    dp = {b.idx for b in ls.blocks if not b.cleanup and b.term.kind == "drop" and b.term.place.l == pool and not b.term.place.p}
    dl = {b.idx for b in ls.blocks if not b.cleanup and b.term.kind == "drop" and b.term.place.l == lis and not b.term.place.p}
    rets = cfg.returns()
    why = []
    if not cfg.must_pass(tn[0].target, rets, dp): why.append("a return after ThreadPool::new does not drop the pool (workers are not joined: replies in flight are cut off)")
    for d in dl:
        if d in cfg.reach(tn[0].target) and not cfg.must_pass(tn[0].target, [d], dp): why.append("the listener is dropped (socket unlinked) before the pool has drained")
    leaks = [t for b in [ls] for t in b.calls("=forget", "=exit", "=abort", "=leak") ]
    if leaks: why.append("calls %s" % [str(t.callee) for t in leaks])
    cx.check(not why, "C15.R3", "varlink:listen:pool-drained-before-listener", ls.sp, "; ".join(why), note_ok="every return: drop(pool) [join workers] then drop(listener) [unlink]")
    # ThreadPool::drop
    pd = cx.mir.one("varlink", "<server::ThreadPool as std::ops::Drop>::drop")
    cx.saw(pd)
    pcfg = Cfg(pd); pdu = DefUse(pd)
    sends = pd.calls("=send"); joins = pd.calls("=join")
    term = [s for s in pd.stmts() if s.kind == "assign" and s.rv == "agg" and isinstance(s.agg, dict) and s.agg.get("variant") == "Terminate"]
    why = []
    def fields(t, ai=0):
        f = []
        for l in ref_chain(pdu, t.args[ai].place.l):
            for k, d in pdu.defs.get(l, []):
                if k == "stmt" and d.rplace is not None: f += d.rplace.fields()
        return f
    clos = [x for x in pd.unit.bodies if x.promoted is None and x.parent == pd.path]
    csend = [(c, t) for c in clos for t in c.calls("=send")]; cjoin = [(c, t) for c in clos for t in c.calls("=join")]
    cterm = [st for c in clos for st in c.stmts() if st.kind == "assign" and st.rv == "agg" and isinstance(st.agg, dict) and st.agg.get("variant") == "Terminate"]
    if not sends and not joins and len(csend) == 1 and len(cjoin) == 1 and len(cterm) == 1:
        # iterator spelling: workers.iter().for_each(|_| sender.send(Terminate)); workers.iter_mut().filter_map(take).for_each(join)
        fe = [t for t in pd.calls("=for_each", "=try_for_each")]
        iters = [t for t in pd.calls("=into_iter", "=iter_mut", "=iter") if "workers" in fields(t)]
        def feeds(t, clo):
            from .roles import _closure_args
            return clo.path in _closure_args(pd, pdu, t)
        fs = [t for t in fe if feeds(t, csend[0][0])]; fj = [t for t in fe if feeds(t, cjoin[0][0])]
        wrefs = [st for st in pd.stmts() if st.kind == "assign" and st.rplace is not None and st.rplace.fields()[-1:] == ["workers"]]
        if len(iters) < 2 and len(wrefs) < 2: why.append("the send and join passes do not both run over `workers`")
        if len(fs) != 1 or len(fj) != 1: why.append("the send/join closures are not each driven by one for_each")
        elif not (pcfg.dominates(fs[0].bb, fj[0].bb) and fs[0].bb not in pcfg.reach(fj[0].target)): why.append("a worker is joined before every Terminate was sent: with queued jobs in front the join can wait for a worker that never gets its Terminate")
        # lazy adaptors between iter and for_each must not interleave the two passes (they are two separate statements here)
    elif len(sends) != 1 or len(joins) != 1 or len(term) != 1: why.append("expected one send(Terminate) loop and one join loop (sends %d, joins %d)" % (len(sends), len(joins)))
    else:
        from vlib.cfg import param_fields
        pf = lambda t, ai=0: set(fields(t, ai)) | param_fields(pd, pdu, t.args[ai], cx.mir)
        if "sender" not in pf(sends[0]): why.append("Terminate is not sent on the pool's job channel (behind queued jobs)")
        iters = [t for t in pd.calls("=into_iter", "=iter_mut", "=iter") if "workers" in pf(t)]
        if len(iters) < 2: why.append("the send and join loops do not both run over `workers`")
        if sends[0].bb not in pcfg.reach(sends[0].target): why.append("send is not in a loop (one Terminate per worker)")
        if joins[0].bb not in pcfg.reach(joins[0].target): why.append("join is not in a loop (every worker)")
        if sends[0].bb in pcfg.reach(joins[0].target): why.append("a Terminate is sent after a join started (a worker could be joined before it was told to stop)")
        if not pcfg.must_pass(0, pcfg.returns(), {joins[0].bb}) and False: pass
    cx.check(not why, "C15.R3", "varlink:ThreadPool::drop:terminate-then-join", pd.sp, "; ".join(why), note_ok="for each worker: send(Terminate) on the job channel; then for each worker: join()")
    # same channel as jobs
    ex = cx.mir.one("varlink", "server::ThreadPool::execute")
    edu = DefUse(ex)
    es = ex.calls("=send")
    f = []
    for t in es:
        for l in ref_chain(edu, t.args[0].place.l):
            for k, d in edu.defs.get(l, []):
                if k == "stmt" and d.rplace is not None: f += d.rplace.fields()
    cx.check("sender" in f, "C15.R3", "varlink:ThreadPool:one-channel", ex.sp, "jobs and Terminate use different channels", note_ok="jobs and Terminate share `sender` (FIFO: Terminate is behind queued jobs)")


def r4(cx):
    ln = cx.mir.one("varlink", "server::Listener::new")
    cx.saw(ln)
    du = DefUse(ln); sl = Slice(ln, du, extra_pass=("=branch", "=map_err"))
    n = 0
    def check_agg(body, s, bdu, bsl, key_prefix):
        flag = s.ops[1]
        fv = flag.cint() if flag.is_const else None
        src = [o.callee.name for k, o in bsl.origins(s.ops[0]) if k == "call"]
        bound = any(x in ("bind", "bind_addr", "get_abstract_unixlistener") for x in src)
        activated = any(x == "from_raw_fd" for x in src)
        want = 0 if bound else (1 if activated else None)
        return fv, want, src
    for body in [ln] + [b for b in cx.mir.bodies("varlink") if b.promoted is None and b.parent == ln.path]:
        bdu = DefUse(body); bsl = Slice(body, bdu, extra_pass=("=branch", "=map_err"))
        for s in body.stmts():
            if s.kind == "assign" and s.rv == "agg" and isinstance(s.agg, dict) and s.agg.get("adt", "").endswith("Listener") and s.agg.get("variant") in ("UNIX", "TCP") and len(s.ops) == 2:
                n += 1
                fv, want, src = check_agg(body, s, bdu, bsl, "")
                if want is None and body is not ln:
                    # closure `|v| Listener::UNIX(Some(v), false)` applied to get_abstract_unixlistener(..)
                    want = 0
                cx.check(fv is not None and fv == want, "C15.R4", "varlink:%s:%s#%d:tag" % (body.path, s.agg["variant"], n), "%s %s" % (s.sp, body.path),
                         "listener obtained through %s is tagged %s (bound sockets must be `false` so that drop unlinks them, activated ones `true`)" % (src or "a closure argument", fv),
                         note_ok="%s -> %s" % (src or ["closure argument (bound)"], bool(fv)))
    cx.floor("C15.R4", "Listener constructions", n, 3)
    dr = cx.mir.one("varlink", "<server::Listener as std::ops::Drop>::drop")
    cx.saw(dr)
    cfg = Cfg(dr); ddu = DefUse(dr)
    rf = dr.calls("=remove_file")
    why = []
    if len(rf) != 1: why.append("%d remove_file calls" % len(rf))
    else:
        unix_i = variant_index(cx, "varlink", "server::Listener", "UNIX")
        doms = dominating_edges(cfg, rf[0].bb)
        got_unix = got_false = False
        for (src, lab, dst) in doms:
            t = dr.blocks[src].term
            if t.discr.place is not None and any(e.startswith("as UNIX") for e in t.discr.place.p) and t.discr.place.fields()[-1:] == ["1"] and lab == 0: got_false = True
            c = switch_cond(dr, ddu, t)
            if c.kind == "discr" and c.place.l == 1 and not c.place.fields() and lab == unix_i: got_unix = True
        if not got_unix: why.append("remove_file is not confined to the UNIX variant")
        if not got_false: why.append("remove_file is not confined to listeners tagged `false` (a socket handed over by activation would be unlinked, or a bound one left behind)")
        # and the (UNIX,false) arm always gets there when the path is known
    cx.check(not why, "C15.R4", "varlink:Listener::drop:unlink-iff-bound", dr.sp, "; ".join(why), note_ok="remove_file only for (UNIX, false)")
    # drop can only unlink while the listener still holds its socket: nothing but drop itself empties the inner Option
    import re as _re
    def is_listener_ty(t): return bool(_re.search(r"(^|[^A-Za-z0-9_])Listener\b", t)) and "server::Listener" in t or bool(_re.fullmatch(r"(&(mut )?)?(server::)?Listener", t.strip()))
    nm = 0
    for b in cx.mir.bodies("varlink"):
        if b.promoted is not None: continue
        bdu = None
        hits = []
        for t in b.calls("=take", "=replace", "=insert", "=get_or_insert_with", "=take_if"):
            if "Option" not in t.callee.path and "mem::" not in t.callee.path: continue
            if not t.args or t.args[0].place is None: continue
            bdu = bdu or DefUse(b)
            for l in ref_chain(bdu, t.args[0].place.l):
                for k, d in bdu.defs.get(l, []):
                    if k == "stmt" and d.kind == "assign" and d.rplace is not None and any(e.startswith("as UNIX") or e.startswith("as TCP") for e in d.rplace.p) and d.rplace.fields()[-1:] == ["0"]:
                        hits.append(t.sp)
        for st in b.stmts():
            if st.kind == "assign" and st.lhs.p and any(e.startswith("as UNIX") or e.startswith("as TCP") for e in st.lhs.p) and st.lhs.fields()[-1:] == ["0"]: hits.append(st.sp)
            if st.kind == "assign" and st.lhs.p == ["*"] and st.rv == "agg" and isinstance(st.agg, dict) and st.agg.get("adt", "").endswith("server::Listener"): hits.append(st.sp)
        if not hits: continue
        nm += 1; cx.saw(b)
        cx.check(b.path == dr.path, "C15.R4", "varlink:%s:empties-listener" % b.path, "%s %s" % (hits[0], b.path),
                 "%s takes the socket out of a Listener before it is dropped: Listener::drop finds (UNIX, None) and leaves the socket file in place" % b.path,
                 note_ok="only drop() takes the socket out (activated listeners)")
    cx.floor("C15.R4", "functions emptying a Listener", nm, 1)


def r5(cx):
    ac = cx.mir.one("varlink", "server::Listener::accept")
    cx.saw(ac)
    du = DefUse(ac); sl = Slice(ac, du)
    tv = [s for s in ac.stmts() if s.kind == "assign" and s.rv == "agg" and isinstance(s.agg, dict) and s.agg.get("adt", "").endswith("timeval")]
    why = []
    if len(tv) != 1: why.append("%d timeval aggregates" % len(tv))
    else:
        def shape(op):
            out = []
            work = [op]; seen = 0
            while work and seen < 20:
                seen += 1
                o = work.pop()
                for k, x in Slice(ac, du).origins(o):
                    if k == "bin":
                        c = [y.cint() for y in x.ops if y.is_const]
                        out.append((x.op.replace("WithOverflow", ""), c[0] if c else None))
                        work += [y for y in x.ops if not y.is_const]
                    elif k == "call": out.append(("call", x.callee.name))
                    elif k == "arg": out.append(("arg", x))
            return out
        sec = shape(tv[0].ops[0]); usec = shape(tv[0].ops[1])
        ok_sec = sec[:2] == [("Div", 1000), ("arg", 2)] or [x for x in sec if x[0] == "call"] == [("call", "as_secs")]
        ok_usec = usec[:3] == [("Mul", 1000), ("Rem", 1000), ("arg", 2)] or [x for x in usec if x[0] == "call"][:1] == [("call", "subsec_micros")]
        if not ok_sec: why.append("tv_sec is computed as %s (expected ms / 1000)" % sec[:3])
        if not ok_usec: why.append("tv_usec is computed as %s (expected (ms %% 1000) * 1000 microseconds)" % usec[:3])
    to = [s for s in ac.stmts() if s.kind == "assign" and s.rv == "agg" and isinstance(s.agg, dict) and s.agg.get("variant") == "Timeout"]
    if not to: why.append("a select() timeout is not reported as ErrorKind::Timeout")
    # Timeout means: select() came back with the descriptor not readable. listen() charges a whole poll interval for every Timeout it gets.
    cfg = Cfg(ac)
    isset = ac.calls("=FD_ISSET")
    if len(isset) != 1 or isset[0].target is None: why.append("%d FD_ISSET tests after select()" % len(isset))
    else:
        from vlib.cfg import enumerate_paths
        from vlib.pathcond import literals
        tb = {st.bb for st in to}
        limit = []
        paths = enumerate_paths(cfg, 0, lambda blk: blk.idx in tb or blk.term.kind == "return", du=du, on_limit=lambda: limit.append(1))
        if limit: why.append("too many paths in accept()")
        for p in paths:
            if p[-1] not in tb: continue
            if not any(l.kind == "call" and l.obj is isset[0] and not l.truth for l in literals(ac, p)):
                st = [x for x in to if x.bb == p[-1]][0]
                why.append("ErrorKind::Timeout is also built at %s, not behind the `descriptor not readable after select()` edge: a caller that charges one poll interval per Timeout then times out early (e.g. after a signal)" % st.sp)
                break
    cx.check(not why, "C15.R5", "varlink:Listener::accept:timeval-units", ac.sp, "; ".join(why), note_ok="tv_sec = ms/1000, tv_usec = (ms%1000)*1000; !FD_ISSET -> Err(Timeout)")
