"""C05 — `continues` only answers `more`; a `more` iteration ends at the final reply."""
from vlib.cfg import Cfg, DefUse, Slice, enumerate_paths, ref_base
from vlib.cond import switch_cond, bool_edges
from vlib.facts import AnchorMissing
from . import client_common as cc
from .C04 import r1_flag


def run(cx):
    cx.rule("C05.R1", "server gate: in reply_struct every path that writes with the implementation's continues flag set has passed wants_more()==true, the mismatch error is returned before anything is serialised or written, `continues: true` is put on a reply only there, set_continues stores exactly its argument and wants_more() is true exactly for more == Some(true)")
    cx.rule("C05.R2", "client iteration protocol: next() calls recv() only while continuing; recv() updates self.continues from every parsed reply before any return, hands the stream back exactly on the final reply; more() arms the iterator")
    r1(cx)
    cc.check_next(cx, "C05.R2", "varlink")
    cc.check_recv_protocol(cx, "C05.R2", "varlink")


def call_flag_field(cx):
    """name of the private Call field that carries the `continues` flag: the one CallTrait::set_continues assigns its argument to"""
    sc = cx.mir.one("varlink", "<Call<'_> as CallTrait>::set_continues")
    du = DefUse(sc); sl = Slice(sc, du)
    names = set()
    for s in sc.stmts():
        if s.kind == "assign" and s.lhs.p and ref_base(du, s.lhs.l)[0] == 1 and s.lhs.fields() and any(k == "arg" and o == 2 for k, o in sl.origins(s.ops[0])):
            names.add(s.lhs.fields()[-1])
    if len(names) != 1: raise AnchorMissing("set_continues: the field that stores the flag (%s)" % sorted(names))
    return names.pop()


def r1(cx, rule="C05.R1"):
    body = cx.mir.one("varlink", "<Call<'_> as CallTrait>::reply_struct")
    cx.saw(body)
    cfg = Cfg(body); du = DefUse(body)
    site = body.sp
    # helper functions of the library that write to Call.writer count as write points
    from .C04 import call_writer_writes
    writer_fns = set()
    for b in cx.mir.bodies("varlink"):
        if b.promoted is None and b.path != body.path and call_writer_writes(b, DefUse(b))[0]: writer_fns.add(b.path)
    helper_calls = [t for t in body.calls() if not t.callee.indirect and (t.callee.resolved in writer_fns or t.callee.path in writer_fns)]
    writes = [t for t in body.calls("=write_all", "=write", "=flush", "=to_string", "=to_writer", "=to_vec")] + helper_calls
    wa = [t for t in body.calls("=write_all", "=write")] + helper_calls
    if not wa: raise AnchorMissing("reply_struct: no write")
    # switches on self.<continues flag> and on wants_more(); the flag is the field set_continues() stores its argument in
    flag = call_flag_field(cx)
    root = lambda l: ref_base(du, l)[0]
    csw = []; wsw = []
    for b in body.blocks:
        if b.cleanup or b.term.kind != "switch": continue
        c = switch_cond(body, du, b.term)
        if c.kind == "field" and c.place.fields()[-1:] == [flag] and root(c.place.l) == 1: csw.append((b.term, c))
        if c.kind == "call" and c.term.callee.name == "wants_more": wsw.append((b.term, c))
    # self.continues is not modified inside reply_struct (so both reads agree)
    mods = [s for s in body.stmts() if s.kind == "assign" and s.lhs.p and root(s.lhs.l) == 1 and flag in s.lhs.fields()]
    if (not csw or len(wsw) != 1) and not mods:
        # the gate may be computed from values (`match (self.continues, self.wants_more(), ..)`, a mode enum): decide it per path
        if r1_by_paths(cx, rule, body, cfg, du, flag, wa, writes, site): 
            _r1_census(cx, rule, body, flag)
            return
    cx.check(len(csw) >= 1 and len(wsw) == 1 and not mods, rule, "varlink:reply_struct:gate-present", site,
             "reply_struct does not test self.continues and wants_more() (continues tests: %d, wants_more tests: %d, writes to self.continues: %d)" % (len(csw), len(wsw), len(mods)),
             note_ok="%d tests of self.continues, one wants_more() test" % len(csw))
    if not csw or len(wsw) != 1: return
    wt, wf = bool_edges(*wsw[0])
    ctrue = {bool_edges(t, c)[0][:1] + bool_edges(t, c)[0][2:] for t, c in csw}       # (src, dst)
    cfalse = {bool_edges(t, c)[1][:1] + bool_edges(t, c)[1][2:] for t, c in csw}
    setc = [s for s in body.stmts() if s.kind == "assign" and s.lhs.p and root(s.lhs.l) == 2 and s.lhs.fields()[-1:] == ["continues"]]
    limit = []
    paths = enumerate_paths(cfg, 0, lambda blk: blk.idx == wa[0].bb or blk.term.kind == "return", du=du, on_limit=lambda: limit.append(1))
    if limit: cx.bad(rule, "varlink:reply_struct:path-limit", site, "too many paths")
    bad = []; nwrite = 0
    for p in paths:
        if p[-1] != wa[0].bb: continue
        edges = set(zip(p, p[1:]))
        took_true = bool(edges & ctrue); took_false = bool(edges & cfalse)
        if took_true and took_false: continue          # infeasible: self.continues is not written in between
        nwrite += 1
        has_set = any(s.bb in p for s in setc)
        if took_true and (wt[0], wt[2]) not in edges: bad.append(("continues set, wants_more()==true edge not taken", p))
        if took_true and not has_set: bad.append(("continues set but the reply is written without continues: true", p))
        if took_false and has_set: bad.append(("continues not set but the reply carries continues: true", p))
    cx.check(not bad and nwrite >= 2, rule, "varlink:reply_struct:continues-only-for-more", site,
             "%d feasible path(s) to the write violate the gate: %s (blocks %s)" % (len(bad), bad[0][0] if bad else "-", bad[0][1][:20] if bad else "-"),
             note_ok="%d feasible paths to the write; continues:true is written iff self.continues and the request asked for more" % nwrite)
    # mismatch returns before anything is serialised or written
    mism = cc.err_variant_blocks(body, "CallContinuesMismatch")
    ser = [t.bb for t in writes]
    after_false = cfg.reach_sens(du, wf)
    good = bool(mism) and all(m in after_false for m in mism) and not any(x in after_false for x in ser) and not any(m in cfg.reach(x) for x in ser for m in mism)
    cx.check(good, rule, "varlink:reply_struct:mismatch-writes-nothing", site, "CallContinuesMismatch is not returned on the wants_more()==false edge before serialising/writing",
             note_ok="wants_more()==false -> Err(CallContinuesMismatch), nothing serialised")
    _r1_census(cx, rule, body, flag)


def r1_by_paths(cx, rule, body, cfg, du, flag, wa, writes, site):
    """the gate of reply_struct decided on the feasible paths: which way the branches that depend on self.<flag> and on
    wants_more() went (path literals see through moves, `!`, tuples that are matched on), whether the reply that is written
    carries continues: true, and where CallContinuesMismatch is built. Returns False when the paths do not show a gate at all."""
    from vlib.pathcond import literals
    root = lambda l: ref_base(du, l)[0]
    def flag_lit(l): return l.kind == "place" and l.obj is not None and l.obj.fields()[-1:] == [flag] and root(l.obj.l) == 1
    def more_lit(l): return l.kind == "call" and l.obj.callee.name == "wants_more"
    some_true = set()
    for st in body.stmts():
        if st.kind == "assign" and st.rv == "agg" and isinstance(st.agg, dict) and st.agg.get("variant") == "Some" and st.ops and st.ops[0].is_const and st.ops[0].cint() == 1: some_true.add(st.lhs.l)
    def sets_continues(st):
        if st.kind != "assign": return False
        if st.lhs.p and st.lhs.fields()[-1:] == ["continues"] and body.ty_is(st.lhs.l, "Reply"): return True
        if st.rv == "agg" and isinstance(st.agg, dict) and st.agg.get("adt", "").split("::")[-1] == "Reply" and st.ops and st.ops[0].place is not None and st.ops[0].place.l in some_true: return True
        return False
    setc = {st.bb for st in body.stmts() if sets_continues(st)}
    mism = set(cc.err_variant_blocks(body, "CallContinuesMismatch"))
    if not setc or not mism: return False
    limit = []
    stops = {wa[0].bb} | mism
    paths = enumerate_paths(cfg, 0, lambda blk: blk.idx in stops or blk.term.kind == "return", du=du, on_limit=lambda: limit.append(1))
    if limit: return False
    bad = []; nwrite = 0; nmis = 0; saw_gate = False
    ser = {t.bb for t in writes}
    for p in paths:
        if p[-1] < 0: continue
        lits = literals(body, p)
        c = [l.truth for l in lits if flag_lit(l)]; w = [l.truth for l in lits if more_lit(l)]
        cv = None if not c else (c[0] if len(set(c)) == 1 else "mixed"); wv = None if not w else (w[0] if len(set(w)) == 1 else "mixed")
        if cv == "mixed" or wv == "mixed": continue          # contradictory branch outcomes: not an execution
        if p[-1] == wa[0].bb:
            nwrite += 1
            has_set = any(b in setc for b in p)
            if cv is None: bad.append(("the reply is written on a path that never looked at self.%s" % flag, p)); continue
            saw_gate = True
            if cv and wv is not True: bad.append(("continues set, but the path did not establish wants_more()==true", p))
            if cv and not has_set: bad.append(("continues set but the reply is written without continues: true", p))
            if not cv and has_set: bad.append(("continues not set but the reply carries continues: true", p))
        elif p[-1] in mism:
            nmis += 1
            if not (cv is True and wv is False): bad.append(("CallContinuesMismatch is built on a path without self.%s==true and wants_more()==false" % flag, p))
            if any(b in ser for b in p[:-1]): bad.append(("something is serialised/written before CallContinuesMismatch is returned", p))
        elif body.blocks[p[-1]].term.kind == "return" and cv is True and wv is False:
            bad.append(("continues without more does not end in CallContinuesMismatch: the attempt succeeds silently (Mismatch is only raised on some of these paths)", p))
    if not saw_gate: return False
    cx.ok(rule, "varlink:reply_struct:gate-present", site, "self.%s and wants_more() decide every path to the write (value-level gate)" % flag)
    cx.check(not bad and nwrite >= 2, rule, "varlink:reply_struct:continues-only-for-more", site,
             "%d feasible path(s) violate the gate: %s (blocks %s)" % (len(bad), bad[0][0] if bad else "-", bad[0][1][:20] if bad else "-"),
             note_ok="%d feasible paths to the write; continues:true is written iff self.continues and the request asked for more" % nwrite)
    cx.check(nmis >= 1 and not [b for b in bad if "Mismatch" in b[0]], rule, "varlink:reply_struct:mismatch-writes-nothing", site,
             "CallContinuesMismatch is not returned exactly for continues without more, before anything is serialised", note_ok="continues && !wants_more() -> Err(CallContinuesMismatch), nothing serialised")
    return True


def _r1_census(cx, rule, body, flag):
    # census: Some(true) assigned to a Reply.continues only here; constructors leave it None
    n = 0
    for b in cx.mir.bodies("varlink"):
        if b.promoted is not None: continue
        for s in b.stmts():
            if s.kind == "assign" and s.lhs.p and s.lhs.fields()[-1:] == ["continues"] and b.ty_is(s.lhs.l, "Reply"):
                n += 1
                cx.check(b.path == body.path, rule, "varlink:%s:sets-Reply.continues" % b.path, "%s %s" % (s.sp, b.path), "Reply.continues is assigned outside reply_struct's gate", note_ok="the gated assignment")
            if s.kind == "assign" and s.rv == "agg" and isinstance(s.agg, dict) and s.agg.get("adt", "").split("::")[-1] == "Reply" and b.path == body.path and s.ops and s.ops[0].place is not None:
                # `Reply { continues: Some(true), ..reply }` inside the gate counts as the gated assignment
                if any(k == "stmt" and d.rv == "agg" and isinstance(d.agg, dict) and d.agg.get("variant") == "Some" for k, d in DefUse(b).defs.get(s.ops[0].place.l, [])): n += 1
            if s.kind == "assign" and s.rv == "agg" and isinstance(s.agg, dict) and s.agg.get("adt", "").split("::")[-1] == "Reply" and b.path != body.path:
                o = s.ops[0] if s.ops else None
                isnone = o is not None and o.place is not None and any(k == "stmt" and d.rv == "agg" and isinstance(d.agg, dict) and d.agg.get("variant") == "None" for k, d in DefUse(b).defs.get(o.place.l, []))
                if "Reply::" in b.path:
                    cx.check(isnone, rule, "varlink:%s:continues-None" % b.path, "%s %s" % (s.sp, b.path), "constructor builds a Reply with continues already set", note_ok="continues: None")
    cx.floor(rule, "assignments to Reply.continues in the library", n, 1)
    # set_continues stores its argument
    sc = cx.mir.one("varlink", "<Call<'_> as CallTrait>::set_continues")
    cx.saw(sc)
    ass = [s for s in sc.stmts() if s.kind == "assign" and s.lhs.p and ref_base(DefUse(sc), s.lhs.l)[0] == 1 and s.lhs.fields()[-1:] == [flag]]
    calls = [t for t in sc.calls()]
    good = len(ass) == 1 and not calls and ass[0].rv == "use" and ass[0].ops[0].place is not None and [k for k, _ in Slice(sc).origins(ass[0].ops[0])] == ["arg"]
    cx.check(good, rule, "varlink:set_continues:stores-argument", sc.sp, "set_continues does not store exactly its argument (the gate in reply_struct would never see the implementation's request)", note_ok="self.continues = cont")
    r1_flag(cx, rule=rule, only=("wants_more",))
