"""C16 — all transports and address forms behave identically (the structural parts that make them differ when wrong)."""
from vlib.cfg import Cfg, DefUse, Slice, ref_chain, const_strings
from vlib.cond import switch_cond, bool_edges, variant_edge
from vlib.facts import AnchorMissing

FORK_SAFE = ("dup2", "dup", "dup3", "close", "fcntl", "getpid", "setsid", "_exit", "signal", "sigaction", "sigprocmask", "chdir", "setpgid", "prctl", "umask")
SEARCH_FIRST = {"split", "split_once", "splitn", "find", "split_terminator"}
SEARCH_LAST = {"rsplit", "rsplit_once", "rsplitn", "rfind", "rsplit_terminator"}


def const_strs(body, name):
    """ordered constant string arguments of calls named `name`"""
    out = []
    for t in body.calls("=" + name):
        for a in t.args:
            if a.is_const and a.cstr() is not None: out.append((a.cstr(), t))
    out.sort(key=lambda x: (x[1].line, x[1].sp))
    return out


def callees_in_pkg(cx, body, depth=2):
    """workspace bodies of the same package called (transitively, bounded) from `body`, body itself first"""
    seen = {body.path: body}; work = [(body, 0)]
    idx = {b.path: b for b in cx.mir.bodies(body.pkg) if b.promoted is None}
    while work:
        b, d = work.pop()
        if d >= depth: continue
        for t in b.calls():
            if t.callee.indirect: continue
            for cand in (t.callee.resolved, t.callee.path):
                c = idx.get(cand)
                if c is not None and c.path not in seen:
                    seen[c.path] = c; work.append((c, d + 1))
        # closures defined in b
        for p, c in idx.items():
            if c.parent == b.path and p not in seen:
                seen[p] = c; work.append((c, d + 1))
    return list(seen.values())


def param_strip_signature(cx, body):
    """how ';' parameters are cut: set of (search callee, first|last)"""
    sig = set()
    for b in callees_in_pkg(cx, body):
        for t in b.calls():
            if t.callee.indirect: continue
            n = t.callee.name
            if n not in SEARCH_FIRST | SEARCH_LAST: continue
            consts = [a for a in t.args if a.is_const]
            if any(a.cint() == 59 or a.cstr() == ";" for a in consts):
                sig.add((n, "first" if n in SEARCH_FIRST else "last"))
    return sig


def run(cx):
    cx.rule("C16.R1", "client and server address parsers agree: same ordered scheme table (tcp:, unix:@, unix:), same first-';' parameter cut, same InvalidAddress fall-through; the activation branch accepts the same schemes")
    cx.rule("C16.R2", "activation protocol tables agree: the spawner sets VARLINK_ADDRESS, LISTEN_FDS=1, LISTEN_FDNAMES=varlink, LISTEN_PID=<pid of the exec'ed process> and puts the socket on descriptor 3; the consumer reads the same names, starts at 3, and returns a descriptor only behind LISTEN_PID present and equal to its own pid")
    cx.rule("C16.R3", "only async-signal-safe calls between fork and exec: the pre_exec closure calls nothing but an allow-listed set of libc functions")
    cx.rule("C16.R4", "a raw descriptor has one owner: a value from into_raw_fd feeds at most one from_raw_fd, and a borrowed as_raw_fd value feeds none (table of reviewed exceptions)")
    cx.rule("C16.R5", "connection constructors agree: with_* fill reader/writer from split() of the stream they store, *_no_rw leave both empty; child/tempdir are set exactly by the spawning constructors")
    cx.rule("C16.R6", "an inherited and a self-bound listening socket are accepted from alike: listen() puts the listener into blocking mode (set_nonblocking(false)) before its first accept() — accept(0) calls accept(2) without select(), which fails with EAGAIN on a socket the activator left non-blocking")
    r1(cx); r2(cx); r3(cx); r4(cx); r5(cx); r5_split(cx); r6(cx)


def r1(cx):
    cl = cx.mir.one("varlink", "client::varlink_connect")
    sv = cx.mir.one("varlink", "server::Listener::new")
    cx.saw(cl); cx.saw(sv)
    want = ["tcp:", "unix:@", "unix:"]
    for who, body in (("client", cl), ("server", sv)):
        got = [s for s, _ in const_strs(body, "strip_prefix")]
        cx.check(got == want, "C16.R1", "varlink:%s:scheme-table" % who, body.sp,
                 "scheme prefixes tested in order %s, expected %s (unix:@ must be tried before unix:)" % (got, want), note_ok="strip_prefix order %s" % got)
        sig = param_strip_signature(cx, body)
        cx.check(bool(sig) and all(k == "first" for _, k in sig), "C16.R1", "varlink:%s:param-cut" % who, body.sp,
                 "';' parameters are cut with %s; both sides must cut at the FIRST ';' (unix:path;mode=..;group=..)" % sorted(sig), note_ok="cuts at first ';' via %s" % sorted(n for n, _ in sig))
        inv = [s for s in body.stmts() if s.kind == "assign" and s.rv == "agg" and isinstance(s.agg, dict) and s.agg.get("variant") == "InvalidAddress"]
        cx.check(len(inv) >= 1, "C16.R1", "varlink:%s:invalid-address" % who, body.sp, "no InvalidAddress fall-through", note_ok="%d InvalidAddress exits" % len(inv))
        # number of split(';') sites: the two unix forms, none for tcp
        nsplit = sum(1 for b in callees_in_pkg(cx, body) for t in b.calls() if not t.callee.indirect and t.callee.name in SEARCH_FIRST | SEARCH_LAST and any(a.is_const and (a.cint() == 59 or a.cstr() == ";") for a in t.args))
        cx.check(nsplit == 2, "C16.R1", "varlink:%s:param-cut-sites" % who, body.sp, "%d ';' cuts, expected 2 (unix path and abstract forms; tcp has no parameters)" % nsplit, note_ok="2 cut sites")
    act = [s for s, _ in const_strs(sv, "starts_with")]
    cx.check(act == ["tcp:", "unix:"], "C16.R1", "varlink:server:activation-schemes", sv.sp, "activation branch tests %s, expected ['tcp:', 'unix:']" % act, note_ok="tcp:, unix:")


def r2(cx):
    sp = cx.mir.one("varlink", "client::varlink_exec")
    co = cx.mir.one("varlink", "server::activation_listener")
    cx.saw(sp); cx.saw(co)
    envs = {}
    _esl = Slice(sp, DefUse(sp))
    def _cs(op):
        if op.is_const: return op.cstr()
        c = const_strings(sp, _esl, op)
        return c[0] if len(c) == 1 else None
    for t in sp.calls("std::process::Command::env"):
        if t.callee.name == "env" and len(t.args) >= 3:
            envs[_cs(t.args[1])] = _cs(t.args[2]) or "<computed>"
        elif t.callee.name == "envs" and len(t.args) >= 2:
            # `.envs([(k, v), ..])`: an array (or vec) of pairs
            for k0, o0 in _esl.origins(t.args[1], follow_agg=False):
                if k0 != "agg": envs[None] = "<computed>"; continue
                for pair in o0.ops:
                    for k1, o1 in _esl.origins(pair, follow_agg=False):
                        if k1 == "agg" and len(o1.ops) == 2: envs[_cs(o1.ops[0])] = _cs(o1.ops[1]) or "<computed>"
                        else: envs[None] = "<computed>"
    pre = [b for b in cx.mir.bodies("varlink") if b.parent == sp.path and b.promoted is None]
    pre_exec_calls = sp.calls("=pre_exec")
    if len(pre_exec_calls) != 1: raise AnchorMissing("varlink_exec: expected one pre_exec call")
    clos = None
    du = DefUse(sp); sl = Slice(sp, du)
    for k, o in sl.origins(pre_exec_calls[0].args[1], follow_agg=False):
        if k == "agg" and isinstance(o.agg, dict) and "closure" in o.agg: clos = o.agg["closure"]
    clos_body = None
    for b in pre:
        if clos and (b.path == clos or b.path.endswith(clos.split("::")[-1])): clos_body = b
    if clos_body is None:
        # fall back: the closure that calls dup2
        for b in pre:
            if b.calls("=dup2"): clos_body = b
    if clos_body is None: raise AnchorMissing("varlink_exec: pre_exec closure body not found")
    cx.saw(clos_body)
    # set_var inside the closure also counts as "set" (it is R3 that objects to it)
    for t in clos_body.calls("=set_var"):
        k = t.args[0].cstr() if t.args and t.args[0].is_const else None
        v = t.args[1].cstr() if len(t.args) > 1 and t.args[1].is_const else "<computed>"
        envs[k] = v
    def ctext(a):
        k = a.const or {}
        return k.get("str") or str(k.get("dbg") or "")
    # the shell command: a string literal, or the template of a format! (a byte-string constant in the MIR)
    shell = [ctext(a) for a in [x for t in sp.calls() for x in t.args] + [o for st in sp.stmts() if st.kind == "assign" for o in st.ops] if a.is_const and "exec " in ctext(a)]
    pid_in_shell = any("LISTEN_PID=$$" in s for s in shell)
    if pid_in_shell: envs["LISTEN_PID"] = "$$ of the shell that exec()s the service"
    if "LISTEN_PID" in envs and envs["LISTEN_PID"] == "<computed>":
        # computed in the child: must come from getpid()
        ok = any(t.callee.name == "getpid" for t in clos_body.calls())
        envs["LISTEN_PID"] = "getpid() in the child" if ok else "<not the child's pid>"
    want = {"VARLINK_ADDRESS": None, "LISTEN_FDS": "1", "LISTEN_FDNAMES": "varlink", "LISTEN_PID": None}
    for k, v in want.items():
        got = envs.get(k)
        good = got is not None and (v is None or got == v) and got != "<not the child's pid>"
        cx.check(good, "C16.R2", "varlink:varlink_exec:env:%s" % k, sp.sp, "activation variable %s is %r (expected %s)" % (k, got, v or "set"), note_ok="%s=%s" % (k, got))
    extra = sorted(set(k for k in envs if k) - set(want))
    cx.check(not extra, "C16.R2", "varlink:varlink_exec:env:no-others", sp.sp, "unexpected variables %s" % extra, note_ok="exactly the four protocol variables")
    d2 = [t for t in clos_body.calls("=dup2")]
    targets = [t.args[1].cint() for t in d2 if t.args[1].is_const]
    cx.check(3 in targets, "C16.R2", "varlink:varlink_exec:fd3", clos_body.sp, "the listening socket is not dup2()ed onto descriptor 3 (targets %s)" % targets, note_ok="dup2(fd, 3)")
    # the fd == 3 case: CLOEXEC must be cleared, otherwise exec closes the socket
    cfg = Cfg(clos_body); cdu = DefUse(clos_body)
    handled = False
    for b in clos_body.blocks:
        if b.cleanup or b.term.kind != "switch": continue
        c = switch_cond(clos_body, cdu, b.term)
        if c.kind == "bin" and c.op in ("Ne", "Eq") and ((c.b.is_const and c.b.cint() == 3) or (c.a.is_const and c.a.cint() == 3)):
            te, fe = bool_edges(b.term, c)
            same_edge = fe if c.op == "Ne" else te
            r = cfg.after(same_edge, blocked_nodes={x for x in cfg.reach(( te if c.op == "Ne" else fe)[2]) if False})
            for t in clos_body.calls("=fcntl"):
                if t.bb in r and len(t.args) >= 3 and t.args[1].is_const and t.args[1].cint() == 2: handled = True     # F_SETFD == 2
    if not handled:
        # `match fd { 3 => fcntl(..), _ => dup2(..) }`: an integer switch with the value 3 among its targets
        for b in clos_body.blocks:
            t = b.term
            if b.cleanup or t.kind != "switch": continue
            for v, dst in t.targets:
                if v == 3 and len(t.targets) >= 1 and dst != t.otherwise:
                    r = cfg.after((b.idx, 3, dst))
                    for x in clos_body.calls("=fcntl"):
                        if x.bb in r and len(x.args) >= 3 and x.args[1].is_const and x.args[1].cint() == 2: handled = True
    cx.check(handled, "C16.R2", "varlink:varlink_exec:fd3-cloexec", clos_body.sp,
             "when the listener already is descriptor 3 nothing clears its close-on-exec flag: the activated service starts without its socket",
             note_ok="fd == 3: fcntl(F_SETFD, 0)")
    # the parent keeps no copy of the listening socket: it is an owned UnixListener that is dropped when varlink_exec returns; once
    # the child has it, only the child's copy must remain (otherwise a service that fails to start leaves the client's connect()
    # hanging on a socket nobody will ever accept from)
    leaks = [t for t in sp.calls("=into_raw_fd", "=forget", "=leak", "=into_raw", "=from_raw_fd") if "Child" not in t.callee.path]
    cx.check(not leaks, "C16.R2", "varlink:varlink_exec:parent-drops-listener", sp.sp,
             "the listening socket is turned into a bare descriptor with %s (%s): the parent never closes its copy, so a connection to a service that failed to start hangs instead of failing" % (leaks[0].callee.name if leaks else "", leaks[0].sp if leaks else ""),
             note_ok="the UnixListener is only borrowed (as_raw_fd) and dropped on return")
    # consumer
    _cdu = DefUse(co); _csl = Slice(co, _cdu)
    def var_name(t):
        if not t.args: return None
        if t.args[0].is_const: return t.args[0].cstr()
        c = const_strings(co, _csl, t.args[0])
        return c[0] if len(c) == 1 else None
    names = [var_name(t) for t in co.calls("std::env::var") if var_name(t)]
    cx.check(sorted(names) == ["LISTEN_FDNAMES", "LISTEN_FDS", "LISTEN_PID"], "C16.R2", "varlink:activation_listener:names", co.sp,
             "consumer reads %s" % names, note_ok="reads LISTEN_FDS, LISTEN_PID, LISTEN_FDNAMES")
    ccfg = Cfg(co); cdu2 = DefUse(co); csl = Slice(co, cdu2)
    somes = [s for s in co.stmts() if s.kind == "assign" and s.lhs.l == 0 and s.rv == "agg" and isinstance(s.agg, dict) and s.agg.get("variant") == "Some"]
    cx.floor("C16.R2", "Some(fd) results of activation_listener", len(somes), 1)
    pidvar = [t for t in co.calls("std::env::var") if var_name(t) == "LISTEN_PID"]
    if len(pidvar) != 1: raise AnchorMissing("activation_listener: env::var(LISTEN_PID)")
    ok_edge = None; eq_edge = None; implied_present = False
    for b in co.blocks:
        if b.cleanup or b.term.kind != "switch": continue
        c = switch_cond(co, cdu2, b.term)
        if c.kind == "discr" and c.place.l == pidvar[0].dest.l and not c.place.p:
            ok_edge = variant_edge(b.term, 0)
        if c.kind == "call" and c.term.callee.name in ("eq", "ne"):
            srcs = set()
            osl = Slice(co, cdu2, extra_pass=("=ok",))
            for a in c.term.args:
                for k, o in osl.origins(a):
                    if k == "call": srcs.add(o.callee.name)
            if ("id" in srcs or "getpid" in srcs) and "parse" in srcs:
                te, fe = bool_edges(b.term, c)
                eq_edge = te if c.term.callee.name == "eq" else fe
                # `parsed == Some(id)` / `== Ok(id)`: equality with a present value implies that the variable was present and numeric
                psl = Slice(co, cdu2, extra_pass=("=ok", "=as_str", "=as_ref", "=deref", "=parse", "=trim"))
                from_var = any(k == "call" and o is pidvar[0] for a in c.term.args for k, o in psl.origins(a))
                wrapped = any(k == "agg" and isinstance(o.agg, dict) and o.agg.get("variant") in ("Some", "Ok") for a in c.term.args for k, o in csl.origins(a, follow_agg=False))
                if from_var and wrapped: implied_present = True
    for i, s in enumerate(somes):
        good = eq_edge is not None and ccfg.edge_dominates(eq_edge, s.bb) and (implied_present or (ok_edge is not None and ccfg.edge_dominates(ok_edge, s.bb)))
        cx.check(good, "C16.R2", "varlink:activation_listener:Some#%d:behind-own-pid" % i, "%s %s" % (s.sp, co.path),
                 "a descriptor is returned on a path where LISTEN_PID is absent or differs from this process: a server would adopt a socket that was not meant for it",
                 note_ok="dominated by LISTEN_PID present and == process::id()")
    base = []
    for s in somes:
        for k, o in csl.origins(s.ops[0]):
            if k == "const" and o.cint() is not None: base.append(o.cint())
            if k == "bin":
                base += [x.cint() for x in o.ops if x.is_const]
    cx.check(base and all(b == 3 for b in base), "C16.R2", "varlink:activation_listener:starts-at-3", co.sp, "descriptor numbering starts at %s, expected 3" % base, note_ok="SD_LISTEN_FDS_START = 3")
    eqs = [s for s, _ in const_strs(co, "eq")]
    # the compared fd name lives in a promoted constant
    inner = [b for b in co.unit.bodies if b.promoted is None and b.kind == "Closure" and (b.path + "::").startswith(co.path + "::")]      # e.g. `.position(|n| n == "varlink")`
    for cb in inner: eqs += [s for s, _ in const_strs(cb, "eq")]
    prom = [b for b in co.unit.bodies if (b.path == co.path or any(b.path == cb.path for cb in inner)) and b.promoted is not None]
    lits = []
    for b in prom:
        for s in b.stmts():
            if s.kind == "assign" and s.ops and s.ops[0].is_const and s.ops[0].cstr() is not None: lits.append(s.ops[0].cstr())
    cx.check("varlink" in lits + eqs, "C16.R2", "varlink:activation_listener:fdname", co.sp, "fd name compared with %s, spawner sets 'varlink'" % (lits + eqs), note_ok="matches 'varlink'")


def r3(cx):
    n = 0
    for body in cx.mir.bodies():
        if body.promoted is not None: continue
        for t in body.calls("=pre_exec"):
            n += 1
            du = DefUse(body); sl = Slice(body, du)
            clos = None
            for k, o in sl.origins(t.args[1], follow_agg=False):
                if k == "agg" and isinstance(o.agg, dict) and "closure" in o.agg: clos = o.agg["closure"]
            cb = [b for b in cx.mir.bodies(body.pkg) if b.promoted is None and b.parent == body.path and clos and b.path.split("::")[-1] == clos.split("::")[-1]]
            if len(cb) != 1:
                cx.bad("C16.R3", "%s:%s:pre_exec-closure" % (body.pkg, body.path), t.sp, "pre_exec argument is not a closure defined here (cannot be reviewed)"); continue
            c = cb[0]; cx.saw(c)
            badc = []
            for x in c.calls(cleanup=True):
                if x.callee.indirect: badc.append("indirect call"); continue
                if x.callee.path.startswith("libc::") and x.callee.name in FORK_SAFE: continue
                badc.append(str(x.callee)[:80])
            drops = [b.term for b in c.blocks if b.term.kind == "drop"]
            heap = [str(d.place) for d in drops if any(w in c.ty(d.place.l) for w in ("String", "Vec<", "PathBuf", "Box<"))]
            cx.check(not badc and not heap, "C16.R3", "%s:%s:fork-safe" % (c.pkg, c.path), c.sp,
                     "code between fork and exec calls %s%s — std holds the environment lock across fork and another thread may hold the allocator lock: the child can block forever (with_activate never returns)" % (sorted(set(badc)), (" and drops heap values " + str(heap)) if heap else ""),
                     note_ok="only %s" % sorted({x.callee.name for x in c.calls()}))
    cx.floor("C16.R3", "pre_exec sites", n, 1)


# from_raw_fd sites whose argument is not an into_raw_fd value: reviewed one by one
FD_TABLE = {
    "varlink:server::Listener::new": "descriptor number received through socket activation (LISTEN_FDS): ownership is handed over by the protocol",
}


def r4(cx):
    n = 0
    for pkg in ("varlink", "varlink-cli"):
        for body in cx.mir.bodies(pkg):
            if body.promoted is not None: continue
            frs = body.calls("=from_raw_fd")
            if not frs: continue
            cx.saw(body)
            du = DefUse(body); sl = Slice(body, du)
            by_src = {}
            for i, t in enumerate(frs):
                n += 1
                key = "%s:%s:from_raw_fd#%d" % (pkg, body.path, i)
                site = "%s %s" % (t.sp, body.path)
                kinds = []
                for k, o in sl.origins(t.args[0]):
                    if k == "call": kinds.append((o.callee.name, o))
                    else: kinds.append((k, o))
                names = [k for k, _ in kinds]
                if "into_raw_fd" in names:
                    for k, o in kinds:
                        if k == "into_raw_fd": by_src.setdefault(id(o), []).append((key, site, o))
                    cx.ok("C16.R4", key, site, "owns a descriptor released by into_raw_fd")
                elif "as_raw_fd" in names:
                    fkey = "%s:%s" % (pkg, body.path)
                    if fkey in FD_BORROW_OK:
                        cx.note("C16.R4", key, site, "borrowed descriptor wrapped: " + FD_BORROW_OK[fkey])
                    else:
                        cx.bad("C16.R4", key, site, "wraps a descriptor obtained with as_raw_fd (still owned by its original object) in a new owner: the descriptor is closed twice")
                else:
                    fkey = "%s:%s" % (pkg, body.path)
                    cx.check(fkey in FD_TABLE, "C16.R4", key, site, "from_raw_fd on a value of unreviewed origin %s" % names, note_ok=FD_TABLE.get(fkey, ""))
            for src, uses in by_src.items():
                if len(uses) > 1:
                    cx.bad("C16.R4", uses[0][0] + ":double-owner", uses[0][1], "one into_raw_fd value (%s) becomes %d owners: the descriptor is closed more than once (IO-safety abort in debug builds)" % (uses[0][2].sp, len(uses)))
    cx.floor("C16.R4", "from_raw_fd sites", n, 4)


FD_BORROW_OK = {
    "varlink-cli:proxy::handle": "stdin/stdout of the bridge process wrapped for epoll watching; the process exits when the bridge ends (noted, see DESIGN C16.R4)",
    "varlink-cli:proxy::handle_connect": "same as proxy::handle",
}


def r5(cx):
    table = {
        "with_address": dict(rw=True, child=False), "with_address_no_rw": dict(rw=False, child=False),
        "with_activate": dict(rw=True, child=True), "with_activate_no_rw": dict(rw=False, child=True),
        "with_bridge": dict(rw=True, child=True), "with_bridge_no_rw": dict(rw=False, child=True),
    }
    for name, want in table.items():
        body = cx.mir.one("varlink", "Connection::%s" % name)
        cx.saw(body)
        du = DefUse(body); sl = Slice(body, du, extra_pass=("std::io::BufReader::<R>::new",))
        aggs = [s for s in body.stmts() if s.kind == "assign" and s.rv == "agg" and isinstance(s.agg, dict) and s.agg.get("adt", "").split("::")[-1] == "Connection"]
        key = "varlink:Connection::%s" % name
        if len(aggs) != 1 or len(aggs[0].ops) != 6:
            cx.bad("C16.R5", key, body.sp, "constructor does not build exactly one Connection value"); continue
        a = aggs[0]
        def kind(op):
            o = sl.origins(op, follow_agg=True)
            calls = [x.callee.name for k, x in o if k == "call"]
            through = [s.agg.get("variant") for s in getattr(sl, "last_through", []) if hasattr(s, "agg") and isinstance(getattr(s, "agg", None), dict)]
            if not calls and all(k in ("agg", "const") for k, _ in o): return "None", calls
            return "Some", calls
        rk, rc = kind(a.ops[0]); wk, wc = kind(a.ops[1]); sk, sc = kind(a.ops[3]); ck, cc = kind(a.ops[4]); tk, tc = kind(a.ops[5])
        # path-sensitive refinement: when the constructor goes through a shared helper steered by a constant (an enum saying which
        # halves to fill), the value each member has on the feasible paths is read from the abstract store at the aggregate
        from vlib import absval
        from vlib.cfg import enumerate_paths
        cfg5 = Cfg(body)
        paths = enumerate_paths(cfg5, 0, lambda blk: blk.idx == a.bb or blk.term.kind == "return", du=du, max_paths=4000)
        seen = {i: set() for i in (0, 1, 4, 5)}
        for pth in paths:
            if pth[-1] != a.bb: continue
            for kind_, b, x, st in absval.walk(body, du, cfg5, pth):
                if kind_ == "stmt" and x is a:
                    for i in seen:
                        v = absval.operand_value(st, a.ops[i])
                        seen[i].add("Some" if v is not None and v[0] == "var" and v[1] == 1 else "None" if v is not None and v[0] == "var" and v[1] == 0 else "?")
        def refine(cur, i):
            return seen[i].pop() if len(seen[i]) == 1 and "?" not in seen[i] else cur
        rk, wk, ck, tk = refine(rk, 0), refine(wk, 1), refine(ck, 4), refine(tk, 5)
        why = []
        if want["rw"]:
            if not (rk == "Some" and "split" in rc): why.append("reader is not the read half of stream.split() (%s %s)" % (rk, rc))
            if not (wk == "Some" and "split" in wc): why.append("writer is not the write half of stream.split() (%s %s)" % (wk, wc))
            # the stream that is split is the stream that is stored
            splits = body.calls("=split")
            if len(splits) == 1:
                sbase = set(ref_chain(du, splits[0].args[0].place.l))
                stored = set()
                for k, o in sl.origins(a.ops[3]):
                    if k == "call": stored.add(o.dest.l)
                srcs = set()
                for k, o in Slice(body, du).origins(splits[0].args[0]):
                    if k == "call": srcs.add(o.dest.l)
                if not (stored & srcs): why.append("the stream that is split is not the stream stored in the connection")
            else: why.append("%d split() calls" % len(splits))
        else:
            if rk != "None" or wk != "None": why.append("no_rw constructor fills reader/writer (%s/%s)" % (rk, wk))
        if sk != "Some": why.append("stream not stored")
        if want["child"] != (ck == "Some"): why.append("child is %s, expected %s" % (ck, "Some" if want["child"] else "None"))
        if (name.startswith("with_activate")) != (tk == "Some"): why.append("tempdir is %s" % tk)
        cx.check(not why, "C16.R5", key, body.sp, "; ".join(why), note_ok="reader/writer=%s stream=Some child=%s tempdir=%s" % (rk, ck, tk))


def r5_split(cx):
    """Stream::split hands out two handles of the SAME socket (for every transport)"""
    n = 0
    for body in cx.mir.bodies("varlink"):
        if body.promoted is not None or not body.path.endswith("::split") or not (body.impl_trait or "").endswith("Stream"): continue
        n += 1
        cx.saw(body)
        du = DefUse(body); sl = Slice(body, du, extra_pass=("=branch", "=map_err", "std::boxed::Box::<T>::new"))
        oks = [s for s in body.stmts() if s.kind == "assign" and s.lhs.l == 0 and s.rv == "agg" and isinstance(s.agg, dict) and s.agg.get("variant") == "Ok"]
        why = []
        if len(oks) != 1: why.append("%d Ok results" % len(oks))
        else:
            from vlib.facts import Place
            tup = oks[0].ops[0]
            for i, nm in ((0, "reader"), (1, "writer")):
                p = Place({"l": tup.place.l, "p": list(tup.place.p) + [".%d" % i]})
                o = sl.origins(p)
                tc = [x for k, x in o if k == "call" and x.callee.name == "try_clone"]
                if len(tc) != 1 or not any(k == "arg" and v == 1 for k, v in Slice(body, du).origins(tc[0].args[0])): why.append("the %s half is not try_clone() of this stream" % nm)
        cx.check(not why, "C16.R5", "varlink:%s:both-halves-same-socket" % body.path, body.sp, "; ".join(why), note_ok="(try_clone(self), try_clone(self))")
    cx.floor("C16.R5", "Stream::split implementations", n, 2)


def r6(cx):
    from vlib.cfg import ref_base
    ls = cx.mir.one("varlink", "server::listen")
    cx.saw(ls)
    cfg = Cfg(ls); du = DefUse(ls)
    acc = [t for t in ls.calls("=accept") if "Listener" in t.callee.path]
    if not acc: raise AnchorMissing("listen: accept")
    root = lambda t: ref_base(du, t.args[0].place.l)[0] if t.args and t.args[0].place is not None else None
    snb = [t for t in ls.calls("=set_nonblocking") if "Listener" in t.callee.path and root(t) == root(acc[0])]
    blocking = [t for t in snb if len(t.args) > 1 and t.args[1].is_const and t.args[1].cint() == 0]
    nonblocking = [t for t in snb if t not in blocking]
    good = bool(blocking) and all(any(cfg.dominates(b.bb, a.bb) for b in blocking) for a in acc) and not any(a.bb in cfg.reach(n.target) for n in nonblocking for a in acc if n.target is not None and not any(b.bb in cfg.reach(n.target) and a.bb in cfg.reach(b.target) for b in blocking))
    cx.check(good, "C16.R6", "varlink:listen:listener-made-blocking", "%s %s" % (acc[0].sp, ls.path),
             "accept() is reached without listener.set_nonblocking(false): a listening socket inherited in non-blocking mode makes accept(0) fail with EAGAIN, so an activated service behaves differently from one that bound the address itself",
             note_ok="set_nonblocking(false) dominates accept()")
