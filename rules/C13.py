"""C13 — concurrent connections are served independently."""
import re
from vlib.cfg import Cfg, DefUse, Slice, ref_chain
from vlib.cond import switch_cond, bool_edges, variant_edge
from vlib.facts import AnchorMissing

from .roles import job_calls, listen_worker, pool_worker
POOLW = "server::Worker::new::{closure#0}"
INTERIOR = ("Cell<", "RefCell<", "Mutex<", "RwLock<", "Atomic", "UnsafeCell<", "OnceCell<", "OnceLock<", "LazyLock<", "mpsc::", "Condvar")


def adt_table(cx, pkg):
    u = cx.mir.unit(pkg, kind="lib") or cx.mir.unit(pkg)
    return {it["path"]: it for it in u.items}


def interior_fields(tab, path, seen=None, trail=""):
    """fields (transitively through workspace ADTs, stopping at dyn) whose type names an interior-mutability wrapper"""
    seen = seen if seen is not None else set()
    out = []
    if path in seen or path not in tab: return out
    seen.add(path)
    for v in tab[path]["variants"]:
        for f in v["fields"]:
            ty = f["ty"]
            shallow = re.sub(r"\(dyn [^)]*\)", "dyn", ty)
            hit = [w for w in INTERIOR if w in shallow]
            where = "%s%s.%s: %s" % (trail, path.split("::")[-1], f["name"], ty[:80])
            if hit: out.append(where)
            for other in tab:
                if re.search(r"(?<![A-Za-z0-9_:])%s(?![A-Za-z0-9_])" % re.escape(other), shallow) or re.search(r"(?<![A-Za-z0-9_])%s(?![A-Za-z0-9_])" % re.escape(other.split("::")[-1]), shallow):
                    out += interior_fields(tab, other, seen, trail + path.split("::")[-1] + ".")
    return out


def run(cx):
    cx.rule("C13.R1", "per-connection state is private to the job: the closure given to the pool captures only the accepted stream and the shared handler; everything passed to handle() besides the handler derives from that stream or from values created inside this invocation")
    cx.rule("C13.R2", "the shared service is immutable through &self: VarlinkService/ServiceInfo contain no interior-mutability type (stopping at the registered dyn Interface), and handle/call/call_upgraded take &self")
    cx.rule("C13.R3", "no lock is held while a connection is served: no guard acquired before the job call in the pool worker is alive at the job, and the acceptor holds no guard across accept()")
    cx.rule("C13.R5", "a worker that died is never counted as idle: the pool's busy counter is decremented only in the worker loop, behind the normal return of the job (no Drop impl or helper releases the slot during unwinding) — the growth test `busy >= workers` then still starts a replacement for a worker whose job panicked")
    cx.rule("C13.R4", "a connection's end ends its job: reader and writer handed to handle() are the two halves of the captured stream, and end-of-input on that stream leaves the worker loop")
    cx.rule("C13.R6", "waiting for the next connection does not reconfigure the socket connections inherit from: Listener::accept() (helpers included) sets no socket option (read/write timeout, non-blocking mode, setsockopt) — an accepted TCP socket inherits SO_RCVTIMEO and friends from the listener, so a timeout meant for accept() would cut off every peer that is silent for that long")
    cx.rule("C13.R7", "below the worker limit no connection waits behind another: execute() counts the new job before it tests `busy > workers`, and grows the pool on that test alone while workers < max — otherwise a connection accepted while every worker is held by an open (slow, idle) connection stays queued until some other connection ends (same analysis as C14.R3, reported here for the isolation clause)")
    r1(cx); r2(cx); r3(cx); r4(cx); r5(cx); r6(cx)
    from .C14 import growth_rule
    growth_rule(cx, "C13.R7")


def r1(cx):
    listen = cx.mir.one("varlink", "server::listen")
    w = listen_worker(cx)
    cx.saw(listen); cx.saw(w)
    wpath = getattr(w, "origin", w).path
    aggs = [s for s in listen.stmts() if s.kind == "assign" and s.rv == "agg" and isinstance(s.agg, dict) and s.agg.get("closure", "") == wpath]
    if len(aggs) != 1: raise AnchorMissing("listen: worker closure aggregate")
    tys = [listen.ty(o.place.l) if o.place is not None else "const" for o in aggs[0].ops]
    good = len(tys) == 2 and any("dyn stream::Stream" in t or "Stream" in t for t in tys) and any(t.startswith("std::sync::Arc<H") or "Arc<H" in t for t in tys)
    cx.check(good, "C13.R1", "varlink:listen:worker-captures", "%s %s" % (aggs[0].sp, listen.path),
             "the per-connection job captures %s; only the accepted stream and Arc<handler> may cross into a worker" % tys, note_ok="captures: %s" % tys)
    if w.argc == 1: cx.ok("C13.R1", "varlink:listen:worker-takes-no-arguments", w.sp, "FnOnce() — nothing is handed in by the worker thread")
    else: cx.note("C13.R1", "varlink:listen:worker-takes-arguments", w.sp, "the job takes %d argument(s) from the worker thread; what flows from them into handle() is checked below" % (w.argc - 1))
    du = DefUse(w)
    hs = [t for t in w.calls("=handle") if "ConnectionHandler" in t.callee.path]
    if not hs: raise AnchorMissing("worker: handle call")
    for i, t in enumerate(hs):
        for ai, nm in ((1, "reader"), (2, "writer"), (3, "upgraded interface")):
            a = t.args[ai]
            sl = Slice(w, du, extra_pass=("=chain", "=as_slice", "std::io::BufReader::<R>::new", "=split", "=take", "=by_ref"))
            orig = sl.origins(a)
            foreign = []
            for k, o in orig:
                if k == "arg" and o != 1: foreign.append("closure argument %d" % o)
            # upvar use: only field 0 (the stream); field 1 is the handler
            upv = set()
            for l in set().union(*[set(ref_chain(du, x.place.l)) for x in [a] if x.place is not None]) | {o.dest.l for k, o in orig if k == "call"}:
                pass
            for s in w.stmts():
                pass
            cx.check(not foreign, "C13.R1", "varlink:worker:handle#%d:%s-is-private" % (i, nm.replace(" ", "-")), "%s %s" % (t.sp, w.path),
                     "the %s passed to handle() derives from %s: it outlives this connection and is seen by the next connection served by the same thread" % (nm, foreign),
                     note_ok="derives from the captured stream / locals of this invocation")
    # buffers created here
    news = [t for t in w.calls("=new", "=with_capacity") if "Vec" in t.callee.path or "BufReader" in t.callee.path]
    cx.floor("C13.R1", "per-connection buffers created inside the job", len(news), 1)


def r2(cx):
    tab = adt_table(cx, "varlink")
    for root in ("VarlinkService", "ServiceInfo"):
        if root not in tab: raise AnchorMissing("ADT %s" % root)
        bad = interior_fields(tab, root)
        cx.check(not bad, "C13.R2", "varlink:%s:no-interior-mutability" % root, tab[root]["sp"],
                 "%s, shared by all workers through Arc, contains interior-mutable state (%s): one connection can change what another observes" % (root, bad[:3]),
                 note_ok="%d fields, none interior-mutable (dyn Interface is the user's responsibility)" % sum(len(v["fields"]) for v in tab[root]["variants"]))
    for p in ("<VarlinkService as ConnectionHandler>::handle", "VarlinkService::call", "VarlinkService::call_upgraded", "<VarlinkService as Interface>::call"):
        b = cx.mir.one("varlink", p)
        t = b.ty(1)
        cx.check(t.startswith("&") and not t.startswith("&mut") and "VarlinkService" in t, "C13.R2", "varlink:%s:takes-shared-self" % p, b.sp, "self is %s" % t, note_ok="&self")
    # no store through self in these functions
    for p in ("<VarlinkService as ConnectionHandler>::handle", "VarlinkService::call", "VarlinkService::call_upgraded"):
        b = cx.mir.one("varlink", p)
        st = [s for s in b.stmts() if s.kind == "assign" and s.lhs.l == 1 and "*" in s.lhs.p]
        cx.check(not st, "C13.R2", "varlink:%s:no-write-through-self" % p, b.sp, "writes through self at %s" % [s.sp for s in st], note_ok="no store through self")


def guards_alive_at(body, cfg, du, target_bb):
    held = []
    for L in body.calls("=lock", "=write", "=read"):
        if not ("Mutex" in L.callee.path or "RwLock" in L.callee.path): continue
        if L.bb not in cfg.reach(0, blocked_nodes={target_bb}) and L.bb != 0: continue
        if target_bb not in cfg.reach(L.target): continue
        g = {L.dest.l}
        for t in body.calls("=unwrap", "=expect"):
            if any(k == "call" and o is L for k, o in Slice(body, du).origins(t.args[0])): g.add(t.dest.l)
        from vlib.cfg import release_blocks
        drops = release_blocks(body, du, g)
        if not cfg.must_pass(L.target, [target_bb], drops): held.append(L)
    return held


def r3(cx):
    pw = pool_worker(cx)
    cx.saw(pw)
    cfg = Cfg(pw); du = DefUse(pw)
    jobs = job_calls(pw)
    if not jobs: raise AnchorMissing("pool worker: job call")
    held = guards_alive_at(pw, cfg, du, jobs[0].bb)
    cx.check(not held, "C13.R3", "varlink:pool-worker:no-lock-across-job", "%s %s" % (jobs[0].sp, pw.path),
             "a guard taken at %s is alive while the connection is served: all other workers wait for it, one slow connection blocks every other one" % [t.sp for t in held],
             note_ok="queue and counter guards are released before the job runs")
    ls = cx.mir.one("varlink", "server::listen")
    lcfg = Cfg(ls); ldu = DefUse(ls)
    acc = [t for t in ls.calls("=accept")]
    if not acc: raise AnchorMissing("listen: accept")
    held = guards_alive_at(ls, lcfg, ldu, acc[0].bb)
    cx.check(not held, "C13.R3", "varlink:listen:no-lock-across-accept", "%s %s" % (acc[0].sp, ls.path), "the acceptor holds a lock while waiting for connections", note_ok="no guard alive at accept()")
    # the worker closure itself takes no lock at all
    w = listen_worker(cx)
    locks = [t for t in w.calls("=lock", "=write", "=read") if "Mutex" in t.callee.path or "RwLock" in t.callee.path]
    cx.check(not locks, "C13.R3", "varlink:worker:takes-no-lock", w.sp, "the per-connection job takes a lock (%s)" % [t.sp for t in locks], note_ok="lock-free")


def r4(cx):
    w = listen_worker(cx)
    cfg = Cfg(w); du = DefUse(w)
    hs = [t for t in w.calls("=handle") if "ConnectionHandler" in t.callee.path]
    splits = w.calls("=split")
    sl = Slice(w, du, extra_pass=("=chain", "=as_slice", "std::io::BufReader::<R>::new"))
    why = []
    if len(splits) != 1: why.append("%d split() calls" % len(splits))
    else:
        # split is applied to the captured stream (upvar 0)
        src = [d for l in ref_chain(du, splits[0].args[0].place.l) for k, d in du.defs.get(l, []) if k == "stmt"]
        up = any((d.ops and d.ops[0].place is not None and d.ops[0].place.l == 1) or (d.rplace is not None and d.rplace.l == 1) for d in src) or \
             any(k == "arg" and o == 1 for k, o in Slice(w, du, extra_pass=("=as_mut", "=as_ref", "=deref_mut", "=deref", "=borrow_mut")).origins(splits[0].args[0]))
        if not up: why.append("split() is not applied to the captured stream")
        for t in hs:
            for ai, nm in ((1, "reader"), (2, "writer")):
                if not any(k == "call" and o is splits[0] for k, o in sl.origins(t.args[ai])): why.append("%s of handle() is not a half of this connection's stream" % nm)
    cx.check(not why, "C13.R4", "varlink:worker:reader-writer-are-this-stream", w.sp, "; ".join(sorted(set(why))), note_ok="(r, w) = stream.split(); handle(chain(unread, BufReader(r)), w, ..)")
    # end of input leaves the loop: no execution that saw fill_buf() fail or return an empty buffer comes back to handle()
    fb = w.calls("=fill_buf")
    if not fb: raise AnchorMissing("worker: fill_buf end-of-input test")
    from vlib.cfg import enumerate_paths
    from vlib.pathcond import literals
    from vlib import absval
    F = fb[0]
    stops = {t.bb for t in hs}
    limit = []
    paths = enumerate_paths(cfg, F.target, lambda blk: blk.idx in stops or blk.term.kind == "return", du=du, on_limit=lambda: limit.append(1)) if F.target is not None else []
    slw = Slice(w, du)
    def from_F(op):
        return op is not None and op.place is not None and any(k == "call" and o is F for k, o in slw.origins(op))
    clos_all = [x for x in w.unit.bodies if x.promoted is None and x.parent in ([w.path] + [p for p, _ in getattr(w, "inlined", [])])]
    def closure_tests_empty(t):
        used = set()
        for a in t.args:
            if a.place is not None:
                for k, d in du.value_defs(a.place.l):
                    if k == "stmt" and d.rv == "agg" and isinstance(d.agg, dict) and d.agg.get("closure"): used.add(d.agg["closure"])
        return any(x.path in used and (x.calls("=is_empty") or any(st.kind == "assign" and st.rv == "un" and st.op == "PtrMetadata" for st in x.stmts())) for x in clos_all)
    def saw_end(p):
        """did this path establish `fill_buf() failed or returned nothing`?"""
        # (a) the Err variant of fill_buf()'s own result
        for kind, b, x, st in absval.walk(w, du, cfg, p):
            if kind == "term" and x.kind == "switch" and x.discr.place is not None:
                c = switch_cond(w, du, x)
                if c.kind == "discr" and c.place is not None and not c.place.p and any(k == "call" and o is F for k, o in slw.origins(c.place)):
                    nxt = p[p.index(b) + 1] if p.index(b) + 1 < len(p) else None
                    labs = [lab for lab, d in cfg.succ[b] if d == nxt]
                    if labs and labs[0] == 1: return True
        for l in literals(w, p):
            if l.kind == "call":
                n = l.obj.callee.name
                if n == "is_empty" and l.truth and from_F(l.obj.args[0]): return True
                if n == "map_or" and l.truth and l.obj.args[1].is_const and l.obj.args[1].cint() == 1 and from_F(l.obj.args[0]) and closure_tests_empty(l.obj): return True
                if n == "is_ok_and" and not l.truth and from_F(l.obj.args[0]) and closure_tests_empty(l.obj): return True
                if n == "is_err" and l.truth and from_F(l.obj.args[0]): return True
                if n == "is_ok" and not l.truth and from_F(l.obj.args[0]): return True
            elif l.kind == "bin" and l.obj.op in ("Eq", "Ne"):
                a, b2 = l.obj.ops
                def const_of(op):
                    if op.is_const: return op.cint()
                    og = slw.origins(op)
                    vals = [o.cint() for k, o in og if k == "const"]
                    return vals[0] if len(vals) == 1 and len(og) == 1 else None
                za, zb = const_of(a) == 0, const_of(b2) == 0
                zero = za != zb
                other = b2 if za else a
                def len_of_F(op, depth=0):
                    for k, o in slw.origins(op):
                        if k == "call" and o is F: return True
                        if k == "bin" and o.rv == "un" and depth < 4 and len_of_F(o.ops[0], depth + 1): return True
                    return False
                if zero and len_of_F(other) and ((l.obj.op == "Eq") == l.truth): return True
        return False
    again = [p for p in paths if p[-1] in stops and saw_end(p)]
    ends = [p for p in paths if saw_end(p)]
    okk = bool(ends) and not again and not limit
    detail = ("after fill_buf() reported end of input the loop can call handle() again (e.g. blocks %s): a peer that hung up (e.g. in the middle of a message) keeps a worker busy forever and, with max_worker_threads such peers, no other connection is served" % again[0][:20]) if again else "no test for an empty fill_buf() result"
    cx.check(okk, "C13.R4", "varlink:worker:eof-ends-the-job", "%s %s" % (fb[0].sp, w.path), detail, note_ok="%d paths see Err/empty and leave the loop" % len(ends))


def r5(cx):
    from .C14 import counter_ops
    n = 0
    wk = pool_worker(cx)
    spliced = {d[0] for d in getattr(wk, "desugared", [])}          # closures written out in the worker's own view are judged there
    for b in cx.mir.bodies("varlink"):
        if b.promoted is not None or "server.rs" not in b.sp or b.path in spliced: continue
        du = DefUse(b)
        decs = [s for k, s in counter_ops(b, du) if k == "dec"]
        if not decs: continue
        cx.saw(b)
        for i, d in enumerate(decs):
            n += 1
            key = "varlink:%s:busy-decrement#%d" % (b.path, i)
            site = "%s %s" % (d.sp, b.path)
            if b.path != wk.path:
                cx.bad("C13.R5", key, site, "the busy counter is released in %s%s: a job that panics kills its worker thread, yet the slot is given back, so the pool counts the dead worker as idle and later connections wait for a worker that no longer exists" % (b.path, " (a destructor, which also runs during unwinding)" if "Drop" in b.path else ""))
                continue
            cfg = Cfg(b, unwind=True)
            jobs = job_calls(b)
            if not jobs: raise AnchorMissing("pool worker: job call")
            unwind_targets = [dst for lab, dst in cfg.succ[jobs[0].bb] if lab == "unwind"]
            on_unwind = any(d.bb in cfg.reach(u) for u in unwind_targets)
            ncfg = Cfg(b)
            cx.check(not on_unwind and jobs[0].target is not None and d.bb in ncfg.reach(jobs[0].target), "C13.R5", key, site,
                     "the decrement is reachable from the job's unwind edge (or not from its normal return)", note_ok="behind the job's normal return only")
    cx.floor("C13.R5", "decrements of the busy counter", n, 1)


SOCKOPT_CALLS = ("=set_read_timeout", "=set_write_timeout", "=set_nonblocking", "=setsockopt", "=set_ttl", "=set_nodelay", "=set_linger", "=ioctl")

def r6(cx):
    accs = [b for b in cx.mir.bodies("varlink") if b.promoted is None and b.path.endswith("Listener::accept")]
    if not accs: raise AnchorMissing("Listener::accept")
    for b in accs:
        cx.saw(b)
        opts = [t for t in b.calls(*SOCKOPT_CALLS)]
        cx.check(not opts, "C13.R6", "varlink:%s:no-socket-options" % b.path, b.sp,
                 "accept() calls %s on the listening socket (%s): accepted sockets inherit it, so every connection is affected by what was meant for the wait" % (sorted({t.callee.name for t in opts}), opts[0].sp if opts else ""),
                 note_ok="waits with select(); the listener's options are untouched")
    # the matcher is alive: listen() itself does configure the listener once, before the first accept (C16.R6)
    ls = cx.mir.one("varlink", "server::listen")
    cx.floor("C13.R6", "socket-option calls seen in listen() (positive control of the matcher)", len(ls.calls(*SOCKOPT_CALLS)), 1)
