"""C12 — parsing is total; diagnostics point into the input."""
import glob, os, re
from vlib import peg
from vlib.cfg import Cfg, DefUse, Slice, ref_chain
from vlib.census import panic_sites, reachable_bodies
from vlib.facts import AnchorMissing

GRAMMAR = "varlink_parser/src/varlink_grammar.rs"

# may-panic constructs in the hand-written part of the parser, each with the reason it cannot fire
PANIC_TABLE = {
    # key: package : kind : operation <- where the consumed value comes from (independent of the enclosing function, so that
    # moving the statement into a helper keeps its entry)
    'varlink_parser:assert:overflow:Sub<-arg+field:line|const':
        'line - 1 with line >= 1 (peg-runtime adds 1 to the newline count)',
    'varlink_parser:unwrap:Option::unwrap<-call:Iterator::nth':
        "nth(line-1) on split('\\n'): peg-runtime's line = 1 + number of b'\\n' before the error position, so at least `line` segments exist (obligation checked by C12.R2)",
}


def run(cx):
    cx.rule("C12.R1", "termination on every input: the peg grammar has no left-recursive cycle and no loop with a nullable body; no choice re-enters the same recursive rule at the same position after an identical prefix (exponential re-parse)")
    cx.rule("C12.R2", "line lookup agreement: the error closure indexes value.split('\\n') with line-1 and the pinned peg-runtime computes line as 1 + count of b'\\n' before the error position; the column is passed through unchanged")
    cx.rule("C12.R3", "panic census of the hand-written parser code reachable from IDL::try_from / Error's Display / trim_doc: every may-panic construct is a reviewed table entry")
    g = peg.find_grammar(cx.ast, GRAMMAR)
    r1(cx, g); r2(cx); r3(cx)


def r1(cx, g):
    site = lambda r: "%s:%d" % (GRAMMAR, g.lines.get(r, 0))
    cx.floor("C12.R1", "grammar rules", len(g.rules), 21)
    nloops = 0
    for r in g.order:
        e = g.rules[r]
        # (a) left recursion
        fc = g.first_closure(e)
        cx.check(r not in fc, "C12.R1", "grammar:%s:no-left-recursion" % r, site(r),
                 "rule %s can re-enter itself without consuming input (%s): the generated recursive-descent parser does not terminate" % (r, sorted(fc)),
                 note_ok="first-position rules: %s" % (sorted(fc) or "-"))
        # (b) loops consume
        for i, (k, body, sep) in enumerate(g.loops(e)):
            nloops += 1
            nb = g.is_nullable(body) and (sep is None or g.is_nullable(sep))
            cx.check(not nb, "C12.R1", "grammar:%s:loop#%d:consumes" % (r, i), site(r),
                     "a %s loop in rule %s has a body that can match the empty string: the loop never ends" % (k, r), note_ok="%s body is not nullable" % k)
    cx.floor("C12.R1", "loops in the grammar", nloops, 25)
    # (c) exponential re-parse: two alternatives of one choice with the same consumed prefix that both enter one recursive rule
    rec = g.recursive_rules()
    def prefix_and_calls(a):
        items = a[1] if a[0] == "seq" else [a]
        pre = []
        for x in items:
            x = strip(x)
            if x[0] in ("lit", "class", "any"): pre.append(x); continue
            if x[0] in ("not", "and"): continue          # lookahead consumes nothing
            if x[0] == "call" and x[1] not in rec and g.rules.get(x[1], ("eps",))[0] in ("lit", "class") :
                pre.append(g.rules[x[1]]); continue
            return tuple(pre), (g.first_closure(x) | ({x[1]} if x[0] == "call" else set()))
        return tuple(pre), set()
    def strip(x):
        return x
    def walk_choices(e, out):
        if e[0] == "alt": out.append(e)
        for x in e[1:]:
            if isinstance(x, tuple): walk_choices(x, out)
            elif isinstance(x, list):
                for y in x: walk_choices(y, out)
    nchoices = 0
    for r in g.order:
        chs = []; walk_choices(g.rules[r], chs)
        for ci, ch in enumerate(chs):
            nchoices += 1
            sigs = [prefix_and_calls(a) for a in ch[1]]
            bad = []
            for i in range(len(sigs)):
                for j in range(i + 1, len(sigs)):
                    if sigs[i][0] == sigs[j][0]:
                        common = (sigs[i][1] & sigs[j][1]) & rec
                        if common: bad.append((i, j, sorted(common)))
            cx.check(not bad, "C12.R1", "grammar:%s:choice#%d:no-reparse" % (r, ci), site(r),
                     "alternatives %s of a choice in rule %s consume the same prefix and then both enter the recursive rule(s) %s: when the first fails late the nested input is parsed again at every level (time doubles per nesting level)" %
                     (["%d/%d" % (i, j) for i, j, _ in bad], r, bad[0][2] if bad else ""),
                     note_ok="%d alternatives, no shared recursive re-entry" % len(ch[1]))
    cx.notes.append("C12.R1: %d choices examined, recursive rules %s" % (nchoices, sorted(rec)))


def r2(cx):
    from .roles import parse_error_mapper
    cl, tf = parse_error_mapper(cx)
    cx.saw(cl); cx.saw(tf)
    du = DefUse(cl); sl = Slice(cl, du)
    unwraps = [t for t in cl.calls("=unwrap", "=expect")]
    idxs = [t for t in cl.calls("=index")]
    if not unwraps and not idxs:
        cx.ok("C12.R2", "try_from:line-lookup", cl.sp, "the error closure has no unwrap/index: nothing to agree on")
    for i, t in enumerate(unwraps):
        orig = sl.origins(t.args[0])
        nth = [o for k, o in orig if k == "call" and o.callee.name in ("nth", "next", "last", "get")]
        why = []
        if len(nth) != 1 or nth[0].callee.name != "nth":
            why.append("the unwrapped value is not `<lines>.nth(..)`")
        else:
            src = [o for k, o in sl.origins(nth[0].args[0]) if k == "call"]
            names = [o.callee.name for o in src]
            if names != ["split"]:
                why.append("lines are produced by %s; only str::split keeps the empty segment after a trailing newline that peg-runtime's line count can point at" % names)
            else:
                sp = src[0]
                sep = sp.args[1]
                v = sep.cint() if sep.is_const else None
                s = sep.cstr() if sep.is_const else None
                if not (v == 10 or s == "\n"): why.append("split separator is %r, peg-runtime counts b'\\n'" % (v if v is not None else s))
                # the string that is split is the parser's input (closure upvar `value`)
                base = [k for k, o in sl.origins(sp.args[0])]
                if "arg" not in base: why.append("the split string is not the captured input")
            # index: line - 1
            ix = nth[0].args[1]
            ok_ix = False
            for k, o in sl.origins(ix):
                if k == "bin" and o.op.startswith("Sub") and o.ops[1].is_const and o.ops[1].cint() == 1 and o.ops[0].place is not None:
                    fs = list(o.ops[0].place.fields())
                    for kk, dd in du.defs.get(o.ops[0].place.l, []):
                        if kk == "stmt" and dd.kind == "assign" and dd.ops and dd.ops[0].place is not None: fs += dd.ops[0].place.fields()
                    if "line" in fs: ok_ix = True
            if not ok_ix: why.append("index is not location.line - 1")
        cx.check(not why, "C12.R2", "try_from:line-lookup#%d" % i, "%s %s" % (t.sp, cl.path), "; ".join(why), note_ok="value.split('\\n').nth(location.line - 1)")
    # column passed through
    aggs = [s for s in cl.stmts() if s.kind == "assign" and s.rv == "agg" and isinstance(s.agg, dict) and s.agg.get("variant") == "Parse"]
    def from_parser(orig):
        return any(k == "arg" for k, _ in orig) or any(k == "call" and "ParseInterface" in (o.callee.path + o.callee.resolved) for k, o in orig)
    okc = len(aggs) == 1 and from_parser(sl.origins(aggs[0].ops[1])) and not any(k == "bin" for k, _ in sl.origins(aggs[0].ops[1]))
    col_field = False
    if aggs:
        for l in [aggs[0].ops[1].place.l] if aggs[0].ops[1].place is not None else []:
            for l2 in ref_chain(du, l):
                for k, d in du.value_defs(l2):
                    if k == "stmt" and d.kind == "assign":
                        for q in [x.place for x in d.ops if x.place is not None] + ([d.rplace] if d.rplace is not None else []):
                            if "column" in q.fields(): col_field = True
    cx.check(okc and col_field, "C12.R2", "try_from:column-unchanged", cl.sp, "Error::Parse.column is not location.column as reported by the parser", note_ok="column = location.column")
    # the closure is applied to the same string that is parsed
    pcalls = [t for t in tf.calls("=ParseInterface")]
    cx.check(len(pcalls) == 1, "C12.R2", "try_from:parses-input", tf.sp, "try_from does not call ParseInterface exactly once (%d)" % len(pcalls), note_ok="ParseInterface(value)")
    # dependency side: pinned peg-runtime counts b'\n'
    lock = cx.ast.text("Cargo.lock")
    m = re.search(r'name = "peg-runtime"\nversion = "([^"]+)"', lock)
    if not m: raise AnchorMissing("peg-runtime not in Cargo.lock")
    ver = m.group(1)
    cands = glob.glob(os.path.expanduser("~/.cargo/registry/src/*/peg-runtime-%s/str.rs" % ver)) + glob.glob(os.path.expanduser("~/.cargo/registry/src/*/peg-runtime-%s/src/str.rs" % ver))
    if not cands:
        cx.bad("C12.R2", "peg-runtime:%s:source" % ver, "Cargo.lock", "source of the pinned peg-runtime %s not found in the cargo registry: the line-counting side of the agreement cannot be read" % ver)
    else:
        src = open(cands[0]).read()
        i = src.find("fn position_repr")
        body = src[i:src.find("\n    }\n", i)] if i >= 0 else ""
        line_expr = re.search(r"let line = (.*?);", body, re.S)
        col_expr = re.search(r"let column = (.*?);", body, re.S)
        okl = bool(line_expr) and "b'\\n'" in line_expr.group(1) and ".count() + 1" in line_expr.group(1) and "[..pos]" in body
        okcol = bool(col_expr) and "'\\n'" in col_expr.group(1) and ".count() + 1" in col_expr.group(1)
        lits = set(re.findall(r"b?'(\\.|[^'])'", body))
        cx.check(okl and okcol and lits <= {"\\n"}, "C12.R2", "peg-runtime:%s:counts-newlines" % ver, cands[0].split("registry/src/")[-1],
                 "peg-runtime %s position_repr does not compute line = 1 + count(b'\\n') / column = chars since the last '\\n' + 1 (found line: %s)" % (ver, line_expr.group(1) if line_expr else None),
                 note_ok="line = count(b'\\n' in input[..pos]) + 1; column = chars since last '\\n' + 1  =>  nth(line-1) exists and column <= chars(line)+1")


def r3(cx, rule="C12.R3"):
    roots = [cx.mir.one("varlink_parser", "<IDL<'a> as std::convert::TryFrom<&'a str>>::try_from"),
             cx.mir.one("varlink_parser", "IDL::<'a>::from_token"), cx.mir.one("varlink_parser", "trim_doc")]
    disp = [b for b in cx.mir.bodies("varlink_parser") if b.promoted is None and b.path.endswith("::fmt") and "Error" in (b.impl_self or "") and "format.rs" not in b.sp]
    roots += disp
    def stop(b):
        return bool(b.mac and "peg" in b.mac) or "varlink_grammar.rs" in b.sp or "format.rs" in b.sp
    bodies = reachable_bodies(cx.mir, roots, pkgs={"varlink_parser"}, stop=stop)
    n = 0; seen = set()
    for b in sorted(bodies, key=lambda b: b.path):
        cx.saw(b)
        for ps in panic_sites(b):
            n += 1
            key = "%s:%s" % (b.pkg, ps["skey"])
            seen.add(key)
            if key in PANIC_TABLE:
                cx.ok(rule, key, "%s %s" % (ps["sp"], b.path), "table: " + PANIC_TABLE[key])
            else:
                cx.bad(rule, key, "%s %s" % (ps["sp"], b.path), "new may-panic construct (%s %s) in the hand-written parser path: it needs a proof obligation in the table" % (ps["kind"], ps["what"]))
    cx.floor(rule, "functions on the hand-written parser path", len(bodies), 4)
    cx.notes.append("C12.R3: %d may-panic constructs in %d functions; peg-expanded code is covered by R1 (termination) and slices only at positions the runtime produced" % (n, len(bodies)))
    # renderability: Error derives Display through thiserror with a width argument only
    err = cx.ast.items("varlink_parser/src/lib.rs", kind="enum", name="Error")
    if len(err) != 1: raise AnchorMissing("enum Error in varlink_parser")
    attrs = " ".join(a for v in err[0]["variants"] for a in v["attrs"])
    okd = "{marker:>column$}" in attrs and 'marker = "^"' in attrs.replace("  ", " ") and "{line}" in attrs
    if not okd and "#[error" not in attrs.replace(" ", ""):
        # a hand-written Display: one write! for the parse variant that pads a marker to the column with a width argument
        from vlib.astfacts import tt_str
        for f in cx.ast.file("varlink_parser/src/lib.rs")["_fns"]:
            if f.name == "fmt" and "Display" in (f.trait or "") and f.self_ty.replace(" ", "") == "Error":
                txt = " ".join(tt_str(m["tokens"]) for m in f.macros() if m["name"] in ("write", "writeln")).replace(" ", "")
                if re.search(r"\{\w*:>\w+\$\}", txt) and ("{line}" in txt or "line" in txt): okd = True
    cx.check(okd, rule, "varlink_parser:Error:display-format", "varlink_parser/src/lib.rs:%d" % err[0]["line"],
             "the parse error is not rendered as line + caret padded to the column (format: %s)" % attrs[:160], note_ok="\"{line}\\n{marker:>column$}\" — a width never panics")
