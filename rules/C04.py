"""C04 — a oneway call never produces a reply; the client's oneway path never reads."""
from vlib.cfg import Cfg, DefUse, Slice, ref_chain
from vlib.cond import switch_cond, bool_edges
from vlib.facts import AnchorMissing

WRITE_NAMES = ("write_all", "write", "flush", "write_fmt", "write_vectored", "write_all_vectored")

# Call.writer users outside the library's two reply writers: one named site + reason each
ALLOWED_RAW_WRITERS = {
    "ping:<MyOrgExamplePing as org_example_ping::VarlinkInterface>::call_upgraded": "upgraded (non-varlink) protocol: no request exists, Call was built by new_upgraded()",
}


import re
_CALL_RE = re.compile(r"(?<![A-Za-z0-9_])Call<")
def is_call_ty(ty):
    return bool(_CALL_RE.search(ty))


def call_writer_writes(body, du):
    """Write::* calls in `body` whose receiver is the `writer` field of a varlink::Call"""
    W = set()
    for s in body.stmts():
        if s.kind != "assign": continue
        srcs = [o.place for o in s.ops if o.place is not None] + ([s.rplace] if s.rplace is not None else [])
        for p in srcs:
            if "writer" in p.fields() and is_call_ty(body.ty(p.l)):
                W.add(s.lhs.l)
    out = []
    if not W: return out, W
    for t in body.calls():
        if t.callee.indirect or t.callee.name not in WRITE_NAMES or not t.args or t.args[0].place is None: continue
        if any(l in W for l in ref_chain(du, t.args[0].place.l)):
            out.append(t)
    return out, W


def oneway_guard_edges(body, cfg, du):
    """(true_edge, false_edge) of every switch that tests CallTrait::is_oneway(self)"""
    out = []
    for b in body.blocks:
        if b.cleanup or b.term.kind != "switch": continue
        c = switch_cond(body, du, b.term)
        if c.kind == "call" and c.term.callee.name == "is_oneway":
            out.append(bool_edges(b.term, c))
    return out


def run(cx):
    cx.rule("C04.R1", "oneway guard dominates every protocol write: each Write::* on Call.writer is reachable only through the false edge of an is_oneway() test whose true edge returns without writing; is_oneway() reads exactly Request.oneway == Some(true)")
    cx.rule("C04.R2", "client entry points, each analysed with send() inlined and the constants it is given propagated: call/more/oneway/upgrade serialise exactly (None,None,None)/(more)/(oneway)/(upgrade); only oneway() leaves the connection's reader in place, reads nothing and hands the writer straight back; the others move reader and writer into the call object; Request::create leaves the flags unset")
    r1(cx)
    r1_flag(cx, only=("is_oneway",))
    r1_ctor(cx)
    r1_parsed_request(cx)
    r1_request_stable(cx)
    r2(cx)


def guarded_in(body, cfg, du, bb, writes_bbs):
    """is block `bb` reachable only through the false edge of an is_oneway() test (and unreachable from its true edge)"""
    guards = oneway_guard_edges(body, cfg, du)
    if guards:
        falses = {f for _, f in guards}
        dominated = bb not in cfg.reach(0, blocked_edges=falses)
        leaks = any(bb in cfg.after(tr) for tr, _ in guards)
        if dominated and not leaks: return True
    return guarded_on_paths(body, cfg, du, bb)


def guarded_on_paths(body, cfg, du, bb):
    """the same, decided path by path: on every feasible path from the entry to `bb` some branch was taken because is_oneway()
    returned false (the answer may travel through locals, a tuple that is matched on, or an enum computed from it)"""
    if not any(t.callee.name == "is_oneway" for t in body.calls("=is_oneway")): return False
    from vlib.cfg import enumerate_paths
    from vlib.pathcond import literals
    hit = [False]
    paths = enumerate_paths(cfg, 0, lambda blk: blk.idx == bb or blk.term.kind == "return", du=du, on_limit=lambda: hit.__setitem__(0, True))
    if hit[0]: return False
    n = 0
    for pth in paths:
        if pth[-1] != bb: continue
        n += 1
        if not any(l.kind == "call" and l.obj.callee.name == "is_oneway" and l.truth is False for l in literals(body, pth)): return False
    return n > 0


def r1(cx, rule="C04.R1"):
    nfun = 0; nwrites = 0
    by_path = {}
    for body in cx.mir.bodies():
        if body.promoted is None: by_path.setdefault(body.path, []).append(body)
    def callers_of(fbody):
        out = []
        for b in cx.mir.bodies(fbody.pkg):
            if b.promoted is not None: continue
            for t in b.calls():
                if not t.callee.indirect and fbody.path in (t.callee.resolved, t.callee.path): out.append((b, t))
        return out
    def site_guarded(body, bb, depth=0):
        """the program point (body, bb) executes only for non-oneway requests: guarded here, or every caller's call site is"""
        cfg = Cfg(body); du = DefUse(body)
        if guarded_in(body, cfg, du, bb, None): return True, None
        if depth >= 3: return False, "call chain too deep"
        if body.public and "Call" in (body.impl_self or ""):
            return False, "%s is part of the public API and writes without a guard" % body.path
        cs = callers_of(body)
        if not cs: return False, "%s has no guard and no caller that guards it" % body.path
        for cb, ct in cs:
            ok, why = site_guarded(cb, ct.bb, depth + 1)
            if not ok: return False, "called from %s (%s) without passing is_oneway()==false%s" % (cb.path, ct.sp, ("; " + why) if why else "")
        return True, None
    for body in cx.mir.bodies():
        if body.promoted is not None: continue
        du = DefUse(body)
        writes, W = call_writer_writes(body, du)
        if not writes: continue
        cx.saw(body); nfun += 1
        fkey = "%s:%s" % (body.pkg, body.path)
        if fkey in ALLOWED_RAW_WRITERS:
            cx.note(rule, fkey, body.sp, "allow-listed raw writer: " + ALLOWED_RAW_WRITERS[fkey]); continue
        for i, t in enumerate(writes):
            nwrites += 1
            key = "%s:%s#%d" % (fkey, t.callee.name, sum(1 for x in writes[:i] if x.callee.name == t.callee.name))
            site = "%s %s" % (t.sp, body.path)
            ok, why = site_guarded(body, t.bb)
            cx.check(ok, rule, key, site, "this write to Call.writer can execute for a oneway request: %s" % (why or "a path reaches it without passing the is_oneway()==false edge, or the ==true edge still reaches it"),
                     note_ok="only reachable for non-oneway requests", witness={"write": t.sp})
    cx.floor(rule, "functions writing to Call.writer", nfun, 2)
    cx.floor(rule, "protocol writes examined", nwrites, 2)


def _flag_form_match(body, field):
    """`matches!(x, Some(Request{field: Some(true), ..}))`-shaped code in `body`: (ok, why)"""
    cfg = Cfg(body); du = DefUse(body)
    read = set()
    for b in body.blocks:
        places = []
        for s in b.stmts:
            if s.kind == "assign":
                places += [o.place for o in s.ops if o.place is not None] + ([s.rplace] if s.rplace is not None else [])
        if b.term.kind == "switch" and b.term.discr.place is not None: places.append(b.term.discr.place)
        if b.term.kind == "call":
            places += [a.place for a in b.term.args if a.place is not None]
        for p in places:
            for f in p.fields():
                if f in ("oneway", "more", "upgrade", "method", "parameters"): read.add(f)
    if read != {field}: return False, "reads request fields %s, expected only {%s}" % (sorted(read), field), read
    trues = [s for s in body.stmts() if s.kind == "assign" and s.lhs.l == 0 and s.rv == "use" and s.ops[0].is_const and s.ops[0].cint() == 1]
    falses = [s for s in body.stmts() if s.kind == "assign" and s.lhs.l == 0 and s.rv == "use" and s.ops[0].is_const and s.ops[0].cint() == 0]
    if len(trues) == 1 and falses:
        from vlib.cond import dominating_edges
        labels = [lab for (_, lab, _) in dominating_edges(cfg, trues[0].bb)]
        if labels.count(1) >= 1 and "otherwise" in labels: return True, "", read
        return False, "`true` is returned without testing %s == Some(true) (edges %s)" % (field, labels), read
    # value forms: unwrap_or(false) / == Some(true)
    sl = Slice(body, du)
    rets = [t for t in body.calls() if t.dest is not None and t.dest.l == 0 and not t.dest.p]
    if not rets:
        # the value comes back through moves (a combinator written out in the view): every source is `false` or such a call
        from vlib.cond import bool_sources
        src = bool_sources(du, 0)
        if src and all((k == "const" and not o and not n) or (k == "call" and not n) for k, o, n in src):
            rets = [o for k, o, n in src if k == "call"]
            if len({t.callee.name for t in rets}) > 1: rets = []
    for t in rets:
        n = t.callee.name
        if n == "unwrap_or" and len(t.args) == 2 and t.args[1].is_const and t.args[1].cint() == 0: return True, "", read
        if n in ("eq",) and len(t.args) == 2:
            from vlib.cfg import const_option_bool
            ks = [const_option_bool(body, sl, a) for a in t.args]
            if "T" in ks: return True, "", read
            return False, "the flag is compared with %s, not with Some(true)" % [k for k in ks if k], read
        if n in ("is_some", "is_none", "unwrap_or_default", "unwrap"): return False, "the flag is evaluated with %s(): `%s: false` (or an absent member) is not distinguished from `true`" % (n, field), read
    return False, "no recognised evaluation of %s == Some(true)" % field, read


def _flag_truth_table(body, field):
    """evaluates the predicate abstractly on the four kinds of request it can meet: no request, the member absent, false, true (the
    other members unknown). Returns (verdict, text): verdict True = the table is (false, false, false, true); False = a definite
    entry differs (text names it); None = some entry could not be evaluated (the caller falls back to the shape rules)."""
    from vlib import absval
    cfg = Cfg(body); du = DefUse(body)
    T = ("var", 1, (("int", 1),)); F = ("var", 1, (("int", 0),)); N = ("var", 0, ())
    rows = [("no request", None, 0), ("%s absent" % field, N, 0), ("%s: false" % field, F, 0), ("%s: true" % field, T, 1)]
    got = []
    for label, fv, want in rows:
        if fv is None: reqv = ("var", 0, ())
        else:
            r = absval.struct_value("Request", {field: fv})
            if r is None: return None, "Request layout unknown"
            reqv = ("var", 1, (("refto", r),))
        c = absval.struct_value("Call", {"request": reqv})
        if c is None: return None, "Call layout unknown"
        rets = absval.eval_returns(cfg, du, {1: ("refto", c)})
        if not rets or any(v is None or v[0] != "int" for v in rets): return None, "%s: not evaluated" % label
        vals = sorted({v[1] for v in rets})
        if vals != [want]: got.append("%s -> %s" % (label, "true" if vals == [1] else "false" if vals == [0] else "true or false"))
    if got: return False, "; ".join(got)
    return True, ""


def r1_flag(cx, rule="C04.R1", only=None):
    for fn, field in (("is_oneway", "oneway"), ("wants_more", "more")):
        if only and fn not in only: continue
        body = cx.mir.one("varlink", "<Call<'_> as CallTrait>::%s" % fn)
        cx.saw(body)
        verdict, text = _flag_truth_table(body, field)
        if verdict is not None:
            cx.check(verdict, rule, "varlink:Call::%s:flag" % fn, body.sp, "%s() is not `request.%s == Some(true)`: %s" % (fn, field, text),
                     note_ok="true iff request.%s == Some(true) (evaluated on: no request / absent / false / true)" % field)
            continue
        ok, why, read = _flag_form_match(body, field)
        if not ok and not read:
            # combinator form: self.request.map_or(false, |r| <flag expression>)
            du = DefUse(body)
            mo = [t for t in body.calls("=map_or", "=is_some_and", "=map_or_else")]
            clos = [b for b in cx.mir.bodies("varlink") if b.promoted is None and b.parent == body.path]
            if len(mo) == 1 and len(clos) == 1 and (mo[0].callee.name != "map_or" or (mo[0].args[1].is_const and mo[0].args[1].cint() == 0)):
                ok, why, read = _flag_form_match(clos[0], field)
                cx.saw(clos[0])
        if not ok and not read:
            # the decision is delegated: which request members do the library functions it calls read?
            seen = set(); work = [body]; tread = set()
            while work and len(seen) < 12:
                b0 = work.pop()
                if b0.path in seen: continue
                seen.add(b0.path)
                tread |= _flag_form_match(b0, field)[2]
                names = {t.callee.path for t in b0.calls() if not t.callee.indirect}
                for t in b0.calls():
                    for a in t.args:
                        if a.is_const and (a.const or {}).get("fn"): names.add(str(a.const["fn"]))
                for b1 in cx.mir.bodies("varlink"):
                    if b1.promoted is None and (b1.path in names or b1.parent == b0.path or any(n.strip('"').replace(" ", "") == b1.path.replace(" ", "") for n in names)): work.append(b1)
            if tread and tread != {field}:
                why = "the answer is computed by other functions (%s) from request members %s: it must depend on `%s` alone (a request carrying both flags is then misclassified)" % (", ".join(sorted(seen - {body.path}))[:120], sorted(tread), field)
        cx.check(ok, rule, "varlink:Call::%s:flag" % fn, body.sp, why, note_ok="true iff request.%s == Some(true)" % field)


def r1_ctor(cx):
    """Call::new must carry the request it was given (is_oneway()/wants_more() read the flags from it)"""
    body = cx.mir.one("varlink", "Call::<'a>::new")
    cx.saw(body)
    sl = Slice(body)
    aggs = [s for s in body.stmts() if s.kind == "assign" and s.rv == "agg" and isinstance(s.agg, dict) and s.agg.get("adt", "").split("::")[-1] == "Call"]
    ok = False
    if len(aggs) == 1 and len(aggs[0].ops) >= 2:
        o = aggs[0].ops[1]
        orig = sl.origins(o)
        ok = any(k == "arg" and v == 2 for k, v in orig) and not any(k == "agg" for k, v in orig)
    cx.check(ok, "C04.R1", "varlink:Call::new:request-stored", body.sp, "Call::new does not store Some(request): the oneway/more flags of the request would be invisible to the reply writers",
             note_ok="Call.request = Some(request argument)")


def r1_parsed_request(cx, rule="C04.R1"):
    """the request a reply writer consults is the one that arrived: every Call built in handle() (helpers included) gets the parsed
    request itself, not a copy rebuilt from some of its members (which would lose `oneway`/`more`)"""
    from . import handle_common as hc
    h = hc.analyse_handle(cx)
    body, du = h.body, h.du
    sl = Slice(body, du, extra_pass=("=as_ref", "=borrow", "=deref"))
    news = [t for t in body.calls("=new") if "Call" in t.callee.path and len(t.args) >= 2]
    for i, t in enumerate(news):
        orig = sl.origins(t.args[1])
        good = bool(orig) and all(k == "call" and o is h.from_slice for k, o in orig)
        cx.check(good, rule, "varlink:handle:Call::new#%d:serves-the-parsed-request" % i, "%s %s" % (t.sp, body.path),
                 "this Call is built around %s instead of the request that was parsed: the oneway/more flags of the peer's request are invisible to the reply writers (a oneway request gets answered)" %
                 sorted({(str(o.callee)[:50] if k == "call" else k) for k, o in orig if not (k == "call" and o is h.from_slice)}),
                 note_ok="Call::new(writer, &<parsed request>)")
    cx.floor(rule, "Call::new sites in handle()", len(news), 1)


def r1_request_stable(cx):
    """is_oneway()/wants_more() read the flags from Call.request for the whole lifetime of the call: nothing outside the constructors assigns that field"""
    n = 0
    for b in cx.mir.bodies():
        if b.promoted is not None: continue
        for s in b.stmts():
            if s.kind == "assign" and s.lhs.p and s.lhs.fields()[-1:] == ["request"] and is_call_ty(b.ty(s.lhs.l)):
                n += 1
                cx.bad("C04.R1", "%s:%s:assigns-Call.request" % (b.pkg, b.path), "%s %s" % (s.sp, b.path),
                       "Call.request is overwritten after construction: from then on is_oneway() (and wants_more()) no longer see the flags of the request being served, so a oneway call can be answered")
    if n == 0: cx.ok("C04.R1", "workspace:Call.request:write-once", "-", "Call.request is set by Call::new/new_upgraded only")


def r2(cx):
    """client side, decided on each public entry point with send() inlined and its constant arguments propagated (see
    client_common.entry_summary): the flags on the wire, the connection's reader, what is read, where the writer goes"""
    from . import client_common as cc
    cc.check_entry_table(cx, "C04.R2", "C04.R2", "varlink")
