"""Anchors found by the role they play, not by their compiler-assigned name: closure indices change whenever another closure is
added or removed in the same function, and a closure can become a fn item."""
from vlib.cfg import DefUse, Slice, ref_chain
from vlib.facts import AnchorMissing


def _closure_args(body, du, term):
    """closure / fn-item bodies handed to a call as arguments: list of def paths"""
    out = []
    for a in term.args:
        if a.is_const and (a.const or {}).get("fn"): out.append(a.const["fn"]); continue
        if a.place is None: continue
        for l in ref_chain(du, a.place.l):
            for k, d in du.value_defs(l):
                if k == "stmt" and d.kind == "assign" and d.rv == "agg" and isinstance(d.agg, dict) and d.agg.get("closure"): out.append(d.agg["closure"])
    return out


def _body_by_path(cx, pkg, path):
    for u in cx.mir.units:
        if u.pkg != pkg or u.is_test or u.crate == "build_script_build": continue
        for b in u.bodies:
            if b.promoted is None and b.path == path: return cx.mir.view(b)
    return None


def listen_worker(cx):
    """the per-connection job: the closure listen() hands to ThreadPool::execute"""
    ls = cx.mir.one("varlink", "server::listen")
    du = DefUse(ls)
    ex = [t for t in ls.calls("=execute") if "ThreadPool" in t.callee.path]
    if len(ex) != 1: raise AnchorMissing("listen: expected one ThreadPool::execute call, found %d" % len(ex))
    cl = _closure_args(ls, du, ex[0])
    if len(cl) != 1: raise AnchorMissing("listen: the job given to the pool is not one closure (%s)" % cl)
    b = _body_by_path(cx, "varlink", cl[0])
    if b is None: raise AnchorMissing("listen: job body %s not found" % cl[0])
    return b


def pool_worker(cx):
    """the worker thread's main function: the closure (or fn) Worker::new hands to thread::spawn / Builder::spawn"""
    wn = cx.mir.one("varlink", "server::Worker::new")
    du = DefUse(wn)
    sp = [t for t in wn.calls("=spawn", "=spawn_scoped") if "thread" in t.callee.path]
    if len(sp) != 1: raise AnchorMissing("Worker::new: expected one thread spawn, found %d" % len(sp))
    cl = _closure_args(wn, du, sp[0])
    if len(cl) != 1: raise AnchorMissing("Worker::new: the thread body is not one closure (%s)" % cl)
    b = _body_by_path(cx, "varlink", cl[0])
    if b is None: raise AnchorMissing("Worker::new: thread body %s not found" % cl[0])
    return b


def parse_error_mapper(cx):
    """the function that turns a peg ParseError into Error::Parse: what IDL::try_from passes to map_err on the parser's result
    (a closure or a fn item); when try_from matches on the result itself, try_from's own (inlined) view is returned"""
    tf = cx.mir.one("varlink_parser", "<IDL<'a> as std::convert::TryFrom<&'a str>>::try_from")
    du = DefUse(tf)
    for t in tf.calls("=map_err"):
        sl = Slice(tf, du)
        if any(k == "call" and "ParseInterface" in (o.callee.path + o.callee.resolved) for k, o in sl.origins(t.args[0])):
            cl = _closure_args(tf, du, t)
            if len(cl) == 1:
                b = _body_by_path(cx, "varlink_parser", cl[0])
                if b is not None: return b, tf
    return tf, tf


def job_calls(body):
    """where the worker runs a queued job: FnBox::call_box, a call through a fn pointer, or `job()` on a boxed `dyn FnOnce`"""
    out = list(body.calls("=call_box")) or [t for t in body.calls() if t.callee.indirect]
    if not out:
        for t in body.calls("=call_once", "=call_mut", "=call"):
            if "std::ops::Fn" not in (str(t.callee.trait or "") + t.callee.path): continue
            ty = body.ty(t.args[0].place.l) if t.args and t.args[0].place is not None else ""
            if "dyn " in ty or "dyn std::ops::Fn" in str(t.callee.targs): out.append(t)
    return out
