"""C02 — framing independent of segmentation; upgrade hand-over loses nothing."""
from vlib.cfg import Cfg, DefUse, Slice, forward_taint, ref_base, ref_chain
from vlib.cond import switch_cond, variant_edge, bool_edges
from vlib.facts import AnchorMissing
from . import handle_common as hc


def run(cx):
    cx.rule("C02.R1", "tail provenance: every Ok((tail,_)) of handle() returns as tail either the inner BufReader's unread buffer, the partial message read in the EOF/incomplete states, or what call_upgraded reported unread; the upgrade exit names the dispatched interface")
    cx.rule("C02.R2", "tail must-use: at every caller of ConnectionHandler::handle the returned tail is consumed (not only dropped) and, where the caller re-enters handle(), flows into the reader of the next call")
    cx.rule("C02.R3", "frame delimiter agreement: every protocol read_until uses NUL and every serialise-then-write site appends exactly \"\\0\"")
    h, n = hc.check_tails(cx, "C02.R1", lambda after_dispatch: True)
    cx.floor("C02.R1", "Ok returns of handle()", len(h.ok_assigns), 2)
    r1_upgrade_iface(cx, h)
    r1_pop(cx, h)
    r1_complete(cx, h)
    r1_fresh(cx, h)
    hc.check_writer_passthrough(cx, "C02.R1", h)
    r2(cx)
    r2_upgrade_tail(cx)
    r2_read_then_handle(cx)
    r3(cx)


def r1_upgrade_iface(cx, h):
    """the interface name handed back with an upgrade is the one that was dispatched"""
    body, du = h.body, h.du
    sl = Slice(body, du)
    from vlib.facts import Place
    disp = [t for t in h.dispatch if t.callee.resolved.endswith("VarlinkService::call")]
    if not disp: raise AnchorMissing("handle: no VarlinkService::call dispatch")
    key_locals = set()
    for t in disp:
        bl, _ = ref_base(du, t.args[1].place.l)
        # through String deref
        for k, o in sl.origins(t.args[1]):
            if k == "call": key_locals.add(o.dest.l)
        key_locals.add(bl)
    n = 0
    for i, s in enumerate(h.ok_assigns):
        tup = s.ops[0]
        if tup.place is None: continue
        p = Place({"l": tup.place.l, "p": list(tup.place.p) + [".1"]})
        orig = sl.origins(p)
        kinds = set()
        for k, o in orig:
            if k == "agg" or (k == "const"): kinds.add("none")
            elif k == "call": kinds.add("call:%s@%d" % (o.callee.name, o.dest.l))
            elif k == "arg": kinds.add("arg%d" % o)
            else: kinds.add(k)
        # Some(iface) results: the String must be one produced for the dispatch key (same String::from call) or the upgraded_last_interface argument
        calls = [o for k, o in orig if k == "call"]
        if not calls and not any(k == "arg" for k, _ in orig): continue
        n += 1
        okk = True; why = []
        for o in calls:
            if o.dest.l not in key_locals:
                okk = False; why.append("interface name comes from %s (not the dispatch key)" % o.callee)
        cx.check(okk, "C02.R1", "handle:Ok-return#%d:iface" % i, "%s %s" % (s.sp, body.path), "; ".join(why),
                 note_ok="returned interface name is the dispatch key / the caller's upgraded interface")
    cx.floor("C02.R1", "Ok returns carrying an interface name", n, 2)


def r1_pop(cx, h):
    """exactly the terminating NUL is removed before parsing: one Vec::pop on the read buffer between read_until and from_slice, dominated by the last-byte test"""
    body, cfg, du = h.body, h.cfg, h.du
    pops = [t for t in body.calls("=pop") if hc.base_local(du, t.args[0]) in h.buf_locals]
    truncs = [t for t in body.calls("=truncate", "=clear", "=drain", "=remove", "=split_off", "=retain") if t.args and hc.base_local(du, t.args[0]) in h.buf_locals]
    fs = h.from_slice
    good = len(pops) == 1 and not truncs and cfg.dominates(pops[0].bb, fs.bb)
    cx.check(good, "C02.R1", "handle:strip-NUL", "%s %s" % (fs.sp, body.path),
             "the read buffer is not stripped of exactly one trailing byte before parsing (pop calls: %d, other shrinking calls: %d)" % (len(pops), len(truncs)),
             note_ok="one Vec::pop on the message buffer dominates from_slice")


def r1_complete(cx, h):
    """a message is parsed only when it is complete: every feasible path from a read_until to the parser (within one iteration)
    took the edge that says the last byte read is NUL (the sibling of the `incomplete` edge)"""
    from vlib.cfg import enumerate_paths
    body, cfg, du = h.body, h.cfg, h.du
    fs = h.from_slice
    ru_blocks = {t.bb for t in h.read_untils}
    n = 0; bad = 0; witness = None
    for t in h.read_untils:
        if t.target is None: continue
        hit = [False]
        paths = enumerate_paths(cfg, t.target, lambda blk: blk.idx == fs.bb or blk.term.kind == "return" or blk.idx in ru_blocks, du=du,
                                env0={t.dest.l: ("var", 0, None)} if t.dest is not None and not t.dest.p else None, on_limit=lambda: hit.__setitem__(0, True))
        if hit[0]: cx.bad("C02.R1", "handle:parse-only-complete-messages", body.sp, "too many paths"); return
        for p in paths:
            if p[-1] != fs.bb: continue
            n += 1
            complete = False
            for a, b in zip(p, p[1:]):
                if body.blocks[a].term.kind != "switch": continue
                for lab, d in cfg.succ[a]:
                    if d != b and hc.classify_edge(h, (a, lab, d)) == "incomplete": complete = True        # the path took the other edge
            if not complete: bad += 1; witness = witness or p
    cx.check(n > 0 and not bad, "C02.R1", "handle:parse-only-complete-messages", "%s %s" % (fs.sp, body.path),
             "%d of %d paths from read_until to the parser have not established that the bytes read end in NUL: a message cut by the end of a chunk is parsed (and its last byte dropped) instead of being handed back as tail (blocks %s)" % (bad, n, (witness or [])[:16]),
             note_ok="%d paths, all behind `last byte == NUL`" % n)


def r1_fresh(cx, h, rule="C02.R1"):
    """every read_until starts from an empty message buffer: between two reads (and before the first) the buffer is created anew or cleared"""
    body, cfg, du = h.body, h.cfg, h.du
    fresh = set()
    for t in body.calls("=new", "=clear", "=with_capacity"):
        if t.callee.name in ("new", "with_capacity") and "Vec" in t.callee.path and t.dest.l in h.buf_locals: fresh.add(t.target)
        if t.callee.name == "clear" and t.args and hc.base_local(du, t.args[0]) in h.buf_locals: fresh.add(t.target)
    for i, t in enumerate(h.read_untils):
        from_entry = cfg.must_pass(0, [t.bb], fresh)
        again = cfg.must_pass(t.target, [t.bb], fresh)
        cx.check(from_entry and again, rule, "handle:read_until#%d:fresh-buffer" % i, "%s %s" % (t.sp, body.path),
                 "a path reaches read_until with a message buffer that may still hold bytes of an earlier message (%s): the next message would be glued to stale bytes" %
                 ("from the previous read" if from_entry else "from entry"),
                 note_ok="buffer is new/cleared on every path into read_until")


def remembered_iface(body, du, h):
    """locals holding the upgraded interface remembered across calls: what handle()'s last argument is read from"""
    out = set()
    if len(h.args) < 4 or h.args[3].place is None: return out
    l = h.args[3].place.l
    for _ in range(4):
        out.add(ref_base(du, l)[0])
        ds = du.value_defs(ref_base(du, l)[0])
        nxt = [d for k, d in ds if k == "call" and not d.callee.indirect and d.callee.name in ("clone", "cloned", "as_ref", "to_owned", "take", "as_deref", "map") and d.args and d.args[0].place is not None]
        if len(nxt) != 1 or len(ds) != 1: break
        l = nxt[0].args[0].place.l
    return out


def r2_upgrade_tail(cx):
    """listen worker: after an Ok from handle(), the loop may only be left (or block for more input) with the tail abandoned when it is empty or no upgrade just happened"""
    from .roles import listen_worker
    body = listen_worker(cx)
    cx.saw(body)
    cfg = Cfg(body); du = DefUse(body)
    from vlib.cfg import enumerate_paths
    hcalls = [t for t in body.calls("=handle") if "ConnectionHandler" in t.callee.path]
    for i, t in enumerate(hcalls):
        key = "listen-worker:handle#%d:upgrade-tail-not-abandoned" % i
        site = "%s %s" % (t.sp, body.path)
        sw = None
        for b in sorted(cfg.reach(t.target)):
            term = body.blocks[b].term
            if term.kind == "switch":
                c = switch_cond(body, du, term)
                if c.kind == "discr" and c.place.l == t.dest.l and not c.place.p: sw = term; break
        if sw is None:
            cx.bad("C02.R2", key, site, "result of handle() is not matched"); continue
        ok_edge = variant_edge(sw, 0)
        tuples = tail_places(body, du, t)
        seeds_tail = set(); seeds_if = set()
        for s in body.stmts():
            if s.kind != "assign": continue
            srcs = [o.place for o in s.ops if o.place is not None] + ([s.rplace] if s.rplace is not None else [])
            for p in srcs:
                if any(e.startswith("as Err") for e in p.p): continue
                f = tuple(p.fields())
                for (l, pre) in tuples:
                    if p.l == l and f[:len(pre) + 1] == pre + ("0",): seeds_tail.add(s.lhs.l)
                    if p.l == l and f[:len(pre) + 1] == pre + ("1",): seeds_if.add(s.lhs.l)
        Tt = forward_taint(body, du, seeds_tail, no_flow=("=is_empty", "=is_some", "=is_none", "=len"))
        Ti = forward_taint(body, du, seeds_if, no_flow=("=is_empty", "=is_some", "=is_none", "=len"))
        # what a path must have established before it may wait for more input or leave: the tail is empty, or no upgrade happened in this step
        from vlib.pathcond import literals
        def arg_in(term, T):
            return bool(term.args) and term.args[0].place is not None and any(l in T for l in ref_chain(du, term.args[0].place.l) + [ref_base(du, term.args[0].place.l)[0]])
        P = remembered_iface(body, du, t)
        def establishes(lit):
            if lit.kind != "call" or not lit.obj.args or lit.obj.args[0].place is None: return False
            n = lit.obj.callee.name
            if n == "is_empty" and lit.truth and arg_in(lit.obj, Tt): return True          # nothing left in the tail
            base = ref_base(du, lit.obj.args[0].place.l)[0]
            if base in P:
                # the connection was upgraded already before this step (the interface remembered from earlier calls is set)
                return (n == "is_none" and not lit.truth) or (n == "is_some" and lit.truth)
            if arg_in(lit.obj, Ti):
                return (n == "is_some" and not lit.truth) or (n == "is_none" and lit.truth)     # handle() reported no upgrade
            return False
        blocking = {x.bb for x in body.calls("=fill_buf", "=read", "=read_until", "=read_exact", "=read_line") if x.bb != t.bb}
        stops = {t.bb} | blocking
        paths = enumerate_paths(cfg, ok_edge[2], lambda blk: blk.idx in stops or blk.term.kind == "return", du=du)
        badp = []; ngood = 0
        for p in paths:
            end = p[-1]
            if end == t.bb: continue                      # goes straight back into handle(): tail is re-fed (R2)
            if any(establishes(l) for l in literals(body, p)): ngood += 1; continue
            badp.append(p)
        cx.check(not badp and ngood > 0, "C02.R2", key, site,
                 "%d path(s) from handle()'s Ok edge block on the stream or leave the loop although an upgrade may just have happened with bytes still in the tail (e.g. blocks %s): those bytes never reach call_upgraded" % (len(badp), badp[0][:25] if badp else "-"),
                 note_ok="%d paths; waiting/leaving only behind `tail.is_empty()` or `no upgrade`" % len(paths), witness={"path": badp[0] if badp else None})


def r2_read_then_handle(cx):
    """a caller that feeds handle() from a stream in a loop hands every batch of received bytes to handle() before it waits for
    more: no cycle read -> read avoids handle() except over the `nothing was read` edges (Err, Ok(0), empty buffer)"""
    n = 0
    for body in cx.mir.bodies(test=False):
        if body.promoted is not None: continue
        hs = [t for t in body.calls("=handle") if "ConnectionHandler" in (t.callee.path + (t.callee.trait or ""))]
        if not hs: continue
        cfg = Cfg(body); du = DefUse(body)
        reads = [t for t in body.calls("=read", "=fill_buf", "=read_until", "=read_exact") if "RwLock" not in t.callee.path and "Mutex" not in t.callee.path]
        for i, r in enumerate(reads):
            if r.target is None: continue
            fwd = cfg.reach(r.target)
            loops = [h for h in hs if h.bb in fwd and h.target is not None and r.bb in cfg.reach(h.target)]
            if not loops: continue
            n += 1; cx.saw(body)
            M = {r.dest.l}
            ch = True
            while ch:
                ch = False
                for st in body.stmts():
                    if st.kind == "assign" and not st.lhs.p and st.rv == "use" and st.ops[0].place is not None and st.ops[0].place.l in M and st.lhs.l not in M:
                        M.add(st.lhs.l); ch = True
                for t in body.calls("=branch", "=unwrap", "=expect"):
                    if t.args and t.args[0].place is not None and t.args[0].place.l in M and t.dest.l not in M: M.add(t.dest.l); ch = True
            nothing = set()
            for b in body.blocks:
                if b.cleanup or b.term.kind != "switch": continue
                c = switch_cond(body, du, b.term)
                if c.kind == "discr" and c.place is not None and c.place.l in M:
                    e = variant_edge(b.term, 1)
                    if e: nothing.add(e)
                elif c.kind == "field" and c.place.l in M and c.place.fields()[-1:] == ["0"] and not c.negated:
                    for lab, dst in cfg.succ[b.idx]:
                        if lab == 0: nothing.add((b.idx, lab, dst))
                elif c.kind == "call" and c.term.callee.name == "is_empty" and c.term.args and c.term.args[0].place is not None and any(l in M for l in ref_chain(du, c.term.args[0].place.l)):
                    te, fe = bool_edges(b.term, c); nothing.add(te)
            back = cfg.reach(r.target, blocked_nodes={h.bb for h in hs}, blocked_edges=nothing)
            cx.check(r.bb not in back, "C02.R2", "%s:%s:%s#%d:handled-before-next-read" % (body.pkg, body.path, r.callee.name, i), "%s %s" % (r.sp, body.path),
                     "after this read delivered bytes the loop can come back to it without calling handle() on them: a request that is already complete is not answered until more bytes arrive (framing then depends on how the stream was cut)",
                     note_ok="every cycle back to this read passes handle() or a nothing-was-read edge (%d such edges)" % len(nothing))
    cx.floor("C02.R2", "read sites looping with handle()", n, 3)


def tail_places(body, du, t):
    """(local, field-prefix) pairs that denote the Ok payload tuple (Vec<u8>, Option<String>) of handle()'s result"""
    tuples = {(t.dest.l, ("0",))}
    whole = {t.dest.l}
    changed = True
    while changed:
        changed = False
        for b in body.blocks:
            if b.cleanup: continue
            for s in b.stmts:
                if s.kind != "assign" or s.lhs.p: continue
                srcs = [o.place for o in s.ops if o.place is not None] + ([s.rplace] if s.rplace is not None else [])
                for p in srcs:
                    if any(e.startswith("as Err") for e in p.p): continue
                    f = tuple(p.fields())
                    if p.l in whole and not f and s.rv in ("use", "ref"):
                        if s.lhs.l not in whole: whole.add(s.lhs.l); tuples.add((s.lhs.l, ("0",))); changed = True
                    for (l, pre) in list(tuples):
                        if p.l == l and f == pre and s.rv in ("use", "ref"):
                            if (s.lhs.l, ()) not in tuples: tuples.add((s.lhs.l, ())); changed = True
            tm = b.term
            if tm.kind == "call" and not tm.callee.indirect and tm.callee.name in ("branch", "unwrap", "expect", "map_err"):
                a = tm.args[0] if tm.args else None
                if a is not None and a.place is not None and a.place.l in whole and not a.place.fields():
                    if tm.callee.name == "branch":
                        if (tm.dest.l, ("0",)) not in tuples: tuples.add((tm.dest.l, ("0",))); changed = True
                    elif tm.callee.name == "map_err":
                        if tm.dest.l not in whole: whole.add(tm.dest.l); tuples.add((tm.dest.l, ("0",))); changed = True
                    else:
                        if (tm.dest.l, ()) not in tuples: tuples.add((tm.dest.l, ())); changed = True
    return tuples


def r2(cx):
    sites = []
    for b in cx.mir.bodies(test=False):
        if b.promoted is not None: continue
        for t in b.calls("=handle"):
            if "ConnectionHandler" in (t.callee.path + (t.callee.trait or "")): sites.append((b, t))
    if cx.tier == "thorough":
        for b in cx.mir.bodies(test=True):
            if b.promoted is not None or b.pkg != "varlink": continue
            for t in b.calls("=handle"):
                if "ConnectionHandler" in (t.callee.path + (t.callee.trait or "")): sites.append((b, t))
    cx.floor("C02.R2", "call sites of ConnectionHandler::handle", len(sites), 3 if cx.tier == "quick" else 4)
    seen = {}
    for body, t in sites:
        cx.saw(body)
        cfg = Cfg(body); du = DefUse(body)
        ordn = seen.setdefault((body.pkg, body.path), 0); seen[(body.pkg, body.path)] += 1
        key = "%s:%s:handle#%d" % (body.pkg, body.path, ordn)
        site = "%s %s" % (t.sp, body.path)
        tuples = tail_places(body, du, t)
        # uses of the tail member
        seeds = set(); uses = []
        for b in body.blocks:
            if b.cleanup: continue
            for s in b.stmts:
                if s.kind != "assign": continue
                srcs = [o.place for o in s.ops if o.place is not None] + ([s.rplace] if s.rplace is not None else [])
                for p in srcs:
                    if any(e.startswith("as Err") for e in p.p): continue
                    f = tuple(p.fields())
                    for (l, pre) in tuples:
                        if p.l == l and f[:len(pre) + 1] == pre + ("0",):
                            seeds.add(s.lhs.l); uses.append(s)
            tm = b.term
            if tm.kind == "call":
                for a in tm.args:
                    if a.place is None: continue
                    f = tuple(a.place.fields())
                    for (l, pre) in tuples:
                        if a.place.l == l and f[:len(pre) + 1] == pre + ("0",):
                            seeds.add(tm.dest.l); uses.append(tm)
        if not uses:
            cx.bad("C02.R2", key, site, "the unprocessed tail returned by handle() is never read here (only dropped): bytes behind the last complete message, or behind an upgrade request, are lost",
                   witness={"call": t.sp})
            continue
        T = forward_taint(body, du, seeds)
        # real consumption: the tail reaches a call argument or survives in a local that is used by a call
        consumed = False
        for b in body.blocks:
            if b.cleanup: continue
            tm = b.term
            if tm.kind == "call" and any(a.place is not None and a.place.l in T for a in tm.args):
                consumed = True
        reenters = t.bb in cfg.reach(t.target) if t.target is not None else False
        if not consumed:
            cx.bad("C02.R2", key, site, "the tail is bound but never passed on to anything", witness={"call": t.sp}); continue
        if reenters:
            rd = t.args[1]
            bl, _ = ref_base(du, rd.place.l)
            sl = Slice(body, du, extra_pass=("=chain", "=as_slice", "=take", "=by_ref", "=new", "=buf_as_slice"))
            origin_locals = {bl, rd.place.l}
            for k, o in sl.origins(rd):
                if k == "call": origin_locals.add(o.dest.l); origin_locals |= {a.place.l for a in o.args if a.place is not None}
            for th in getattr(sl, "last_through", []):
                if hasattr(th, "args"):
                    for a in th.args:
                        if a.place is not None:
                            origin_locals.add(a.place.l); origin_locals.add(ref_base(du, a.place.l)[0])
            flows = bool(origin_locals & T)
            if not flows:
                # accepted idiom: the loop only comes back to handle() when the tail is empty
                blocked = set()
                for b in body.blocks:
                    if b.cleanup or b.term.kind != "switch": continue
                    c = switch_cond(body, du, b.term)
                    if c.kind == "call" and c.term.callee.name == "is_empty" and c.term.args and any(l in T for l in ref_chain(du, c.term.args[0].place.l)):
                        t_edge, f_edge = bool_edges(b.term, c)
                        blocked.add(t_edge)      # forbid the "tail is empty" edge: what remains are executions with a non-empty tail
                if blocked and t.bb not in cfg.reach(t.target, blocked_edges=blocked):
                    cx.ok("C02.R2", key, site, "tail used (%d reads); handle() is re-entered only on the tail.is_empty() edge" % len(uses))
                    continue
            if flows:
                # ... on every way round the loop: whatever else can stand in front of the stream when handle() is called again
                # must have been produced outside the loop (the initial empty buffer) or be derived from the tail
                loop = cfg.reach(t.target) if t.target is not None else set()
                strays = []
                for k, o in Slice(body, du, extra_pass=("=chain", "=as_slice", "=take", "=by_ref", "=buf_as_slice")).origins(rd):
                    if k != "call" or o is t or o.callee.indirect: continue
                    # (the destination local may be shared with an arm that does carry the tail: what counts is what this call produces)
                    if o.bb in loop and o.target is not None and t.bb in cfg.reach(o.target) and o.dest is not None \
                       and not any(a.place is not None and a.place.l in T for a in o.args) and o.callee.name in ("new", "with_capacity", "default", "from", "to_vec", "into", "to_owned", "clone", "split_off", "drain"):
                        strays.append(o)
                if strays:
                    cx.bad("C02.R2", key, site, "on some way back to handle() the bytes put in front of the stream are a fresh value (%s at %s), not the tail that the previous call returned: unprocessed bytes are dropped" % (strays[0].callee.name, strays[0].sp), witness={"call": t.sp})
                    continue
            cx.check(flows, "C02.R2", key, site,
                     "handle() is re-entered in this loop but the returned tail does not flow into the reader of the next call (reader built from locals %s)" % sorted(origin_locals),
                     note_ok="tail used (%d reads) and re-fed into the next handle() call" % len(uses), witness={"call": t.sp})
        else:
            cx.ok("C02.R2", key, site, "tail used (%d reads); caller does not loop back to handle()" % len(uses))


def r3(cx):
    n_ru = 0
    for pkg in ("varlink", "varlink-cli"):
        for body in cx.mir.bodies(pkg):
            if body.promoted is not None: continue
            for i, t in enumerate(body.calls("=read_until")):
                n_ru += 1
                cx.saw(body)
                d = t.args[1]
                v = d.cint() if d.is_const else None
                if v is None and not d.is_const:
                    sl = Slice(body)
                    vals = {o.cint() for k, o in sl.origins(d) if k == "const"}
                    v = vals.pop() if len(vals) == 1 else None
                cx.check(v == 0, "C02.R3", "%s:%s:read_until#%d" % (pkg, body.path, i), "%s %s" % (t.sp, body.path),
                         "read_until delimiter is %r, the varlink frame delimiter is NUL" % (v,), note_ok="delimiter NUL")
    cx.floor("C02.R3", "read_until sites in varlink + varlink-cli", n_ru, 4)
    n_w = 0
    for pkg in ("varlink", "varlink-cli"):
        for body in cx.mir.bodies(pkg):
            if body.promoted is not None: continue
            ser = [t for t in body.calls("serde_json::to_string", "serde_json::to_vec") if t.callee.name in ("to_string", "to_vec")]
            wr = body.calls("=write_all")
            if not ser or not wr: continue
            cx.saw(body)
            n_w += 1
            adds = [t for t in body.calls("=add", "=push_str", "=push") if "String" in t.callee.resolved or "string" in t.callee.resolved]
            # the byte spelling: serde_json::to_vec(..) followed by Vec::push(0) / extend_from_slice(b"\0")
            badds = [t for t in body.calls("=push", "=extend_from_slice") if "Vec" in (t.callee.resolved + t.callee.path) and "String" not in t.callee.resolved]
            lits = []
            sl = Slice(body)
            for t in adds:
                for a in t.args[1:]:
                    for k, o in sl.origins(a):
                        if k == "const" and o.cstr() is not None: lits.append(o.cstr())
                        elif k == "const" and (o.const or {}).get("chr") is not None: lits.append(o.const["chr"])
                        elif k != "const": lits.append("<non-constant>")
            from vlib.cfg import promoted_consts
            for t in badds:
                for a in t.args[1:]:
                    for k, o in sl.origins(a):
                        if k != "const": lits.append("<non-constant>"); continue
                        if o.cint() == 0: lits.append("\0"); continue
                        txt = str((o.const or {}).get("str") or (o.const or {}).get("dbg") or "")
                        pc = promoted_consts(body, o)
                        if txt in ('b"\\0"', 'b"\\x00"') or pc == [0]: lits.append("\0")
                        else: lits.append(txt or "<constant>")
            good = lits == ["\0"] * len(ser) and len(lits) >= 1
            cx.check(good, "C02.R3", "%s:%s:terminator" % (pkg, body.path), body.sp,
                     "serialises %d message(s) but appends %r (expected one \"\\0\" per message)" % (len(ser), lits),
                     note_ok="%d message(s), each terminated by one NUL" % len(ser))
    cx.floor("C02.R3", "serialise-and-write functions", n_w, 3)
