"""C07 — a client connection carries one call at a time and reports outcomes faithfully."""
import re
from vlib.cfg import Cfg, DefUse, Slice, ref_chain
from vlib.cond import switch_cond, bool_edges, variant_edge
from vlib.facts import AnchorMissing
from . import client_common as cc

LIB = "varlink/src/lib.rs"
STD_ERRORS = {"InterfaceNotFound": "interface", "InvalidParameter": "parameter", "MethodNotFound": "method", "MethodNotImplemented": "method"}


def run(cx):
    cx.rule("C07.R1", "busy gate: send() writes nothing unless both connection slots are present; the absent edge returns ConnectionBusy")
    cx.rule("C07.R2", "one critical section: send() acquires the connection lock exactly once (a write lock) and the busy test, both take()s and the write happen under that guard")
    cx.rule("C07.R3", "slot pairing: recv() returns the slots exactly on the final reply, on every path (shared with C05.R2)")
    cx.rule("C07.R4", "once-only: what send() puts into the request is consumed from the call object with Option::take(); when a take() finds nothing send() fails with MethodCalledAlready before touching the connection's stream")
    cx.rule("C07.R5", "success iff no error member: recv() returns Ok only behind reply.error.is_some()==false and otherwise the error built by ErrorKind::from(reply)")
    cx.rule("C07.R6", "error-name tables agree: From<Reply> for ErrorKind, ErrorKind::is_error, the server-side emitters and the built-in IDL text list the same four names with the same parameter member; unknown names carry the whole reply")
    send = cc.Fn(cx, cc.MC + "send")
    r1_r2_r4(cx, send)
    cc.check_recv_protocol(cx, "C07.R3", "varlink")
    cc.check_slot_writers(cx, "C07.R3", "varlink")
    cc.check_recv_framing(cx, "C07.R5", "varlink")
    r5(cx)
    r6(cx)


def r1_r2_r4(cx, f):
    body, cfg, du = f.body, f.cfg, f.du
    site = body.sp
    writes = [t for t in body.calls("=write_all", "=write", "=flush") if "io::" in t.callee.resolved or "Write" in (t.callee.trait or "")]
    if not writes: raise AnchorMissing("send: no write")
    busy = cc.err_variant_blocks(body, "ConnectionBusy")
    # path form: every execution that reaches a write has seen `conn.reader` and `conn.writer` present (is_none()==false or
    # is_some()==true, however the test is spelled or wrapped); an execution that saw one of them absent ends in ConnectionBusy
    from vlib.cfg import enumerate_paths, ref_base
    from vlib.pathcond import literals
    def slot_of(term):
        """'reader'/'writer' when the call's receiver is that slot of the Connection"""
        if not term.args or term.args[0].place is None: return None
        for l in ref_chain(du, term.args[0].place.l):
            for k, d in du.value_defs(l):
                if k == "stmt" and d.kind == "assign" and d.rplace is not None and d.rplace.fields()[-1:] in (["reader"], ["writer"]) and "Connection" in body.ty(ref_base(du, d.rplace.l)[0]) + body.ty(d.rplace.l):
                    return d.rplace.fields()[-1]
        return None
    wblocks = {w.bb for w in writes}
    limit = []
    paths = enumerate_paths(cfg, 0, lambda blk: blk.idx in wblocks or blk.term.kind == "return", du=du, on_limit=lambda: limit.append(1))
    why = []
    if limit: why.append("too many paths in send()")
    nwp = 0; nabs = 0; seen_slots = set()
    for p in paths:
        lits = [(slot_of(l.obj), l) for l in literals(body, p) if l.kind == "call" and l.obj.callee.name in ("is_none", "is_some")]
        present = {sl_ for sl_, l in lits if sl_ and ((l.obj.callee.name == "is_some") == l.truth)}
        absent = {sl_ for sl_, l in lits if sl_ and ((l.obj.callee.name == "is_none") == l.truth)}
        seen_slots |= present | absent
        if p[-1] in wblocks:
            nwp += 1
            if not {"reader", "writer"} <= present: why.append("a write is reached without both conn.reader and conn.writer having been found present (%s)" % sorted(present))
            if absent: why.append("a write is reached although conn.%s was found absent" % sorted(absent)[0])
        elif absent:
            nabs += 1
            if not any(b in p for b in busy): why.append("an execution that finds conn.%s absent does not return ConnectionBusy" % sorted(absent)[0])
    if not nwp or not nabs or not busy: why.append("busy test not found (paths to a write %d, paths seeing a slot absent %d, ConnectionBusy returns %d)" % (nwp, nabs, len(busy)))
    cx.check(not why, "C07.R1", "varlink:send:busy-gate", site, "; ".join(sorted(set(why))[:3]), note_ok="%d paths reach a write, all behind both presence tests; %d paths see a slot absent and return ConnectionBusy" % (nwp, nabs))
    # R2
    locks = cc.lock_acquisitions(f)
    why = []
    if len(locks) != 1: why.append("%d lock acquisitions in send() (%s): the busy test and the take are not atomic" % (len(locks), [t.callee.name for t in locks]))
    elif locks[0].callee.name != "write": why.append("lock acquired with %s(), slots are mutated: needs write()" % locks[0].callee.name)
    else:
        L = locks[0]
        guard_locals = set()
        # the guard: result of write() through unwrap
        for t in body.calls("=unwrap", "=expect"):
            if any(k == "call" and o is L for k, o in f.sl.origins(t.args[0])): guard_locals.add(t.dest.l)
        if not guard_locals: guard_locals.add(L.dest.l)
        drops = [b.term for b in body.blocks if not b.cleanup and b.term.kind == "drop" and b.term.place.l in guard_locals and not b.term.place.p]
        takes = cc.takes_of(f, "reader", "Connection") + cc.takes_of(f, "writer", "Connection")
        if len(takes) < 2: why.append("conn.reader/conn.writer are not both taken (%d take() calls)" % len(takes))
        # no drop of the guard between acquisition and the last write on the success path
        lastw = writes[-1]
        for d in drops:
            if lastw.bb in cfg.reach(d.target) :
                why.append("the connection guard is released at %s before the request is written" % d.sp)
        slot_tests = [t for t in body.calls("=is_none", "=is_some") if slot_of(t)]
        for t in takes + slot_tests:
            if not cfg.dominates(L.bb, t.bb): why.append("slot access at %s is not under the lock" % t.sp)
    cx.check(not why, "C07.R2", "varlink:send:single-critical-section", site, "; ".join(sorted(set(why))[:3]),
             note_ok="one RwLock::write(); busy test, take() x2 and the write under the same guard")
    # R4: whatever goes into the request (Request::create) is taken out of the call object with Option::take(); everything that
    #     touches the connection's stream happens behind the Some edge of every such take
    from vlib.cfg import ref_base
    builders = cc.request_builders(body)
    creates = [b[0] for b in builders]
    already = cc.err_variant_blocks(body, "MethodCalledAlready")
    why = []
    req_takes = []
    sl_take = Slice(body, du, extra_pass=("=to_value", "=map_err", "=into", "=from"))
    for _site, m_op, p_op in builders:
        for a in (m_op, p_op):
            for k, o in sl_take.origins(a):
                if k == "call" and o.callee.name == "take" and "Option" in o.callee.path and o.args and o.args[0].place is not None and ref_base(du, o.args[0].place.l)[0] == 1 and o not in req_takes:
                    req_takes.append(o)
    if len(creates) != 1 or not req_takes or not already:
        why.append("the request is not built from values consumed with take() from the call object, or MethodCalledAlready is never returned (places building the Request %d, takes %d)" % (len(creates), len(req_takes)))
    else:
        some_edges = []; per_take = {id(o): [] for o in req_takes}
        for b in body.blocks:
            if b.cleanup or b.term.kind != "switch": continue
            c = switch_cond(body, du, b.term)
            if c.kind == "discr" and "ControlFlow" not in str(body.ty(c.place.l)) and not str(body.ty(c.place.l)).lstrip("&").startswith("std::result::Result"):
                orig = [o for k, o in f.sl.origins(c.place) if k == "call"]
                for o in list(orig):
                    # `a.take().zip(b.take())` matched on Some: both were present
                    if not o.callee.indirect and o.callee.name == "zip" and "Option" in (o.callee.path + str(o.callee.impl_self or "")):
                        for a in o.args:
                            orig += [x for k, x in f.sl.origins(a) if k == "call"]
                for o in orig:
                    if id(o) in per_take:
                        e = variant_edge(b.term, 1); some_edges.append(e); per_take[id(o)].append(e)
        if any(not v for v in per_take.values()): why.append("the result of a take() is not matched on Some")
        for w in writes + cc.takes_of(f, "reader", "Connection") + cc.takes_of(f, "writer", "Connection"):
            if not all(any(cfg.edge_dominates(e, w.bb) for e in v) for v in per_take.values()):
                why.append("%s at %s is reachable when the request was already consumed" % (w.callee.name, w.sp))
        if not any(b in cfg.reach(0) for b in already): why.append("MethodCalledAlready unreachable")
        # the None side of each take leads to MethodCalledAlready, not onwards
        for e in set(some_edges):
            t = body.blocks[e[0]].term
            for lab, dst in cfg.succ[e[0]]:
                if (e[0], lab, dst) == e: continue
                r = cfg.after((e[0], lab, dst))
                if dst in cfg.reach(0) and any(c.bb in r for c in creates): why.append("the request is still sent when a take() returned None")
    cx.check(not why, "C07.R4", "varlink:send:once-only", site, "; ".join(sorted(set(why))[:3]), note_ok="%d take() result(s) feed Request::create, all matched on Some, else Err(MethodCalledAlready) before the stream is touched" % len(req_takes))


def r5(cx):
    f = cc.Fn(cx, cc.MC + "recv")
    body, cfg, du = f.body, f.cfg, f.du
    oks = cc.ok_return_blocks(body)
    es = []
    for b in body.blocks:
        if b.cleanup or b.term.kind != "switch": continue
        c = switch_cond(body, du, b.term)
        if c.kind == "call" and c.term.callee.name in ("is_some", "is_none"):
            for l in ref_chain(du, c.term.args[0].place.l):
                for k, d in du.defs.get(l, []):
                    if k == "stmt" and d.kind == "assign" and d.rplace is not None and d.rplace.fields()[-1:] == ["error"] and body.ty_is(d.rplace.l, "Reply"): es.append((b.term, c))
    why = []
    if len(es) != 1 or not oks: why.append("no single test of reply.error (found %d) or no Ok return" % len(es))
    else:
        t, c = es[0]
        has_err = cc.present_edge(t, c); no_err = cc.absent_edge(t, c)
        for o in oks:
            if not cfg.edge_dominates(no_err, o): why.append("an Ok return is reachable for a reply that carries an error member")
        conv = [x for x in body.calls("=from") if "ErrorKind" in x.callee.resolved and "Reply" in x.callee.resolved]
        if not conv: conv = [x for x in body.calls("=from") if "ErrorKind" in (x.callee.impl_self or x.callee.resolved) and body.ty_is(x.args[0].place.l, "Reply")] if True else []
        if not conv or not all(x.bb in cfg.after(has_err) for x in conv): why.append("the error edge does not build its error with ErrorKind::from(reply)")
        if any(o in cfg.after(has_err) for o in oks): why.append("the error edge can still return Ok")
    if why and _r5_by_evaluation(body, cfg, du): why = []
    cx.check(not why, "C07.R5", "varlink:recv:success-iff-no-error", body.sp, "; ".join(sorted(set(why))), note_ok="reply.error.is_some() ? Err(ErrorKind::from(reply)) : Ok(parameters)")


def _r5_by_evaluation(body, cfg, du):
    """recv() run from the parsed reply with `error` seeded: present -> every return is Err and went through ErrorKind::from(reply);
    absent -> no path converts the reply into an error and some path can return Ok"""
    from vlib import absval
    from vlib.cfg import enumerate_paths
    fs = body.calls("serde_json::from_slice")
    if len(fs) != 1 or fs[0].dest is None or fs[0].dest.p or fs[0].target is None: return False
    conv = {x.bb for x in body.calls("=from") if "ErrorKind" in (x.callee.resolved + str(x.callee.impl_self or "")) and x.args and x.args[0].place is not None and body.ty_is(x.args[0].place.l, "Reply")}
    if not conv: return False
    for present in (True, False):
        ev = ("var", 1, (None,)) if present else ("var", 0, ())
        rv = absval.struct_value("Reply", {"error": ev})
        if rv is None: return False
        env0 = {fs[0].dest.l: ("var", 0, (rv,))}
        hit = [False]
        paths = enumerate_paths(cfg, fs[0].target, lambda blk: blk.term.kind == "return", du=du, env0=env0, on_limit=lambda: hit.__setitem__(0, True))
        if hit[0]: return False
        n = 0; can_ok = False
        for p in paths:
            if p[-1] < 0 or body.blocks[p[-1]].term.kind != "return": continue
            n += 1
            st = None
            for kind, b, obj, store in absval.walk(body, du, cfg, p, env0=env0): st = store
            v = st.get(0) if st else None
            is_err = v is not None and v[0] == "var" and v[1] == 1
            through = any(b in conv for b in p)
            if present and not (is_err and through): return False
            if not present and through: return False
            if not is_err: can_ok = True
        if n == 0 or (not present and not can_ok): return False
    return True


def _closures_of(cx, body):
    out = []
    for b in body.unit.bodies:
        if b.promoted is not None or not b.parent: continue
        par = b.parent
        if par == body.path or par in [p for p, _ in getattr(body, "inlined", [])]: out.append(b)
    return out


def _name_tests(body, cfg, du):
    """comparisons of a string with a literal `org.varlink.service.<X>`: {X: [true edge (src,label,dst), ...]}; plus substring-style calls"""
    from vlib.cfg import const_strings
    from vlib.cond import bool_sources
    sl = Slice(body, du, extra_pass=("=as_deref", "=as_str", "=as_ref", "=deref", "=borrow"))
    eqs = {}
    for t in body.calls("=eq", "=ne"):
        names = set()
        for a in t.args:
            for v in ([a.cstr()] if a.is_const and a.cstr() else const_strings(body, sl, a)):
                if isinstance(v, str) and v.startswith("org.varlink.service."): names.add(v.split(".")[-1])
        if len(names) == 1: eqs[id(t)] = (t, names.pop())
    tests = {}
    for b in body.blocks:
        if b.cleanup or b.term.kind != "switch" or b.term.discr.place is None or b.term.discr.place.p: continue
        src = bool_sources(du, b.term.discr.place.l)
        calls = [(c, n) for k, c, n in src if k == "call"]
        if len(src) != 1 or len(calls) != 1 or id(calls[0][0]) not in eqs: continue
        t, name = eqs[id(calls[0][0])]
        te, fe = bool_edges(b.term)
        if calls[0][1] != (t.callee.name == "ne"): te, fe = fe, te
        tests.setdefault(name, []).append(te)
    fuzzy = [t for t in body.calls("=starts_with", "=ends_with", "=find", "=rfind", "=matches", "=eq_ignore_ascii_case", "=to_lowercase", "=to_ascii_lowercase", "=trim")
             if "str" in t.callee.path or "String" in t.callee.path] + [t for t in body.calls("=contains") if "str" in t.callee.path and "slice" not in t.callee.path]
    return tests, fuzzy, eqs


def r6(cx):
    ast = cx.ast
    # (i) From<Reply> for ErrorKind, on the MIR: each standard name is compared exactly, and only behind that comparison the matching
    #     variant is built, its payload taken from the matching parameter struct's member
    fr = cx.mir.one("varlink", "<impl std::convert::From<Reply> for error::ErrorKind>::from")
    cx.saw(fr)
    cfg = Cfg(fr); du = DefUse(fr)
    tests, fuzzy, eqs = _name_tests(fr, cfg, du)
    cx.check(not fuzzy, "C07.R6", "varlink:From<Reply>:exact-comparison", fr.sp, "error names are examined with %s: a different error could be classified as a standard one" % sorted({t.callee.name for t in fuzzy}),
             note_ok="names are compared for equality only")
    aggs = [s for s in fr.stmts() if s.kind == "assign" and s.rv == "agg" and isinstance(s.agg, dict) and s.agg.get("adt", "").endswith("ErrorKind")]
    clos = _closures_of(cx, fr)
    def evidence(blocks):
        ev = set()
        bodies = [(fr, blocks)]
        for st in fr.stmts():
            if st.bb in blocks and st.kind == "assign" and st.rv == "agg" and isinstance(st.agg, dict) and st.agg.get("closure"):
                bodies += [(c, None) for c in clos if c.path == st.agg["closure"]]
        for b, bl in bodies:
            for blk in b.blocks:
                if blk.cleanup or (bl is not None and blk.idx not in bl): continue
                places = []
                for st in blk.stmts:
                    if st.kind == "assign": places += [o.place for o in st.ops if o.place is not None] + ([st.rplace] if st.rplace is not None else [])
                if blk.term.kind == "call":
                    places += [a.place for a in blk.term.args if a.place is not None]
                    for ta in blk.term.callee.targs:
                        m = re.search(r"\b(Error[A-Z]\w+)\b", str(ta))
                        if m and blk.term.callee.name == "from_value": ev.add((m.group(1), None))
                for pl in places:
                    m = re.search(r"\b(Error[A-Z]\w+)\b", b.ty(pl.l))
                    if m and pl.fields(): ev.add((m.group(1), pl.fields()[0]))
        return ev
    for name, field in STD_ERRORS.items():
        tes = tests.get(name, [])
        mine = [s for s in aggs if s.agg.get("variant") == name]
        why = []
        if not tes: why.append("no equality test against \"org.varlink.service.%s\"" % name)
        if not mine: why.append("ErrorKind::%s is never built" % name)
        for s in mine:
            if not any(cfg.edge_dominates(te, s.bb) for te in tes): why.append("ErrorKind::%s is built at %s without the name having been compared with org.varlink.service.%s" % (name, s.sp, name))
        if tes:
            region = set()
            for te in tes: region |= cfg.after(te)
            for other, otes in tests.items():
                if other != name:
                    for te in otes: region -= cfg.after(te)
            wrongv = sorted({s.agg.get("variant") for s in aggs if s.bb in region and s.agg.get("variant") in STD_ERRORS and s.agg.get("variant") != name})
            if wrongv: why.append("behind the test for %s the variant(s) %s are built" % (name, wrongv))
            ev = evidence(region)
            structs = {a for a, f in ev}
            if ("Error" + name, field) not in ev: why.append("the payload is not read from Error%s.%s (seen: %s)" % (name, field, sorted(x for x in ev if x[1])))
            if structs - {"Error" + name}: why.append("another parameter struct is used on this arm: %s" % sorted(structs - {"Error" + name}))
        cx.check(not why, "C07.R6", "varlink:From<Reply>:row:%s" % name, fr.sp, "; ".join(why), note_ok="== literal -> Error%s.%s -> ErrorKind::%s" % (name, field, name))
    extra = sorted(set(tests) - set(STD_ERRORS))
    cx.check(not extra, "C07.R6", "varlink:From<Reply>:no-extra-rows", fr.sp, "unexpected standard-error rows %s" % extra, note_ok="exactly four rows")
    fb = [s for s in aggs if s.agg.get("variant") == "VarlinkErrorReply"]
    sl = Slice(fr, du)
    okfb = len(fb) >= 1 and all(any(k == "arg" and o == 1 for k, o in sl.origins(s.ops[0])) for s in fb) and \
           not any(cfg.edge_dominates(te, s.bb) for s in fb for tes in tests.values() for te in tes)
    cx.check(okfb, "C07.R6", "varlink:From<Reply>:fallback", fr.sp, "any other error name must map to VarlinkErrorReply carrying the whole reply", note_ok="_ => VarlinkErrorReply(e)")
    # ... and only those: once a standard name has matched, the reply is that standard error whatever its parameters look like (is_error()
    # decides by name alone; the two must agree)
    leaks = sorted({name for name, tes in tests.items() for te in tes for s in fb if s.bb in cfg.after(te)})
    cx.check(not leaks, "C07.R6", "varlink:From<Reply>:standard-name-is-decisive", fr.sp,
             "a reply named org.varlink.service.%s can still come out as VarlinkErrorReply (e.g. when its parameters are absent or ill-typed): From<Reply> and is_error() then disagree about the same reply" % "/".join(leaks),
             note_ok="a matched standard name always yields its own variant")
    # (ii) is_error: the same four names, compared for equality
    ie = cx.mir.one("varlink", "<impl error::ErrorKind>::is_error")
    cx.saw(ie)
    lits = set(); fz = []
    for b in [ie] + _closures_of(cx, ie):
        for st in b.stmts():
            if st.kind == "assign":
                for o in st.ops:
                    if o.is_const and o.cstr() and o.cstr().startswith("org.varlink.service."): lits.add(o.cstr())
        for t in b.calls():
            for a in t.args:
                if a.is_const and a.cstr() and a.cstr().startswith("org.varlink.service."): lits.add(a.cstr())
        from vlib.cfg import promoted_consts
        for pb in b.unit.bodies:
            if pb.promoted is not None and pb.path == b.path:
                for st in pb.stmts():
                    for o in (st.ops if st.kind == "assign" else []):
                        if o.is_const and o.cstr() and o.cstr().startswith("org.varlink.service."): lits.add(o.cstr())
        fz += _name_tests(b, Cfg(b), DefUse(b))[1]
    names = sorted(x.split(".")[-1] for x in lits)
    cx.check(names == sorted(STD_ERRORS) and not fz, "C07.R6", "varlink:is_error:names", ie.sp, "is_error lists %s%s" % (names, " and uses %s" % sorted({t.callee.name for t in fz}) if fz else ""), note_ok="the same four names")
    # (iii) emitters
    for name, field in STD_ERRORS.items():
        fn = "reply_" + re.sub(r"(?<!^)([A-Z])", r"_\1", name).lower()
        cands = [f for f in ast.file(LIB)["_fns"] if f.name == fn]
        if len(cands) != 1:
            cx.bad("C07.R6", "varlink:emitter:%s" % name, LIB, "emitter %s not found" % fn); continue
        f = cands[0]
        lits = [s["text"] for s in f.ev("str")]
        # the name may be a named constant: take the string constants of the compiled function as well
        for mb in cx.mir.bodies("varlink"):
            if mb.promoted is None and mb.path.endswith("::" + fn):
                for st in mb.stmts():
                    for o in (st.ops if st.kind == "assign" else []):
                        if o.is_const and o.cstr(): lits.append(o.cstr())
                for t in mb.calls():
                    for a in t.args:
                        if a.is_const and a.cstr(): lits.append(a.cstr())
        structs = [e for e in f.ev("struct")]
        good = "org.varlink.service." + name in lits and not [l for l in lits if l.startswith("org.varlink.service.") and l != "org.varlink.service." + name] \
               and any(e["text"] == "Error" + name and [x[0] for x in e["fields"]] == [field] for e in structs)
        cx.check(good, "C07.R6", "varlink:emitter:%s" % name, "%s:%d" % (LIB, f.line), "%s emits %s with %s" % (fn, lits, [(e["text"], e["fields"]) for e in structs]),
                 note_ok="%s -> \"org.varlink.service.%s\" + Error%s{%s}" % (fn, name, name, field))
        st = [i for _, i in ast.items_in_crate(LIB, kind="struct", name="Error" + name)]
        okf = len(st) == 1 and [x["name"] for x in st[0]["fields"]] == [field]
        cx.check(okf, "C07.R6", "varlink:struct:Error%s" % name, LIB, "struct Error%s does not have the single member %s" % (name, field), note_ok="member %s" % field)
    # (iv) IDL text of the built-in interface
    gd = [f for f in ast.file(LIB)["_fns"] if f.name == "get_description" and f.self_ty.replace(" ", "") == "VarlinkService"]
    if len(gd) != 1: raise AnchorMissing("VarlinkService::get_description")
    txt = " ".join(s["text"] for s in gd[0].ev("str"))
    decl = dict(re.findall(r"error (\w+) \((\w+): string\)", txt))
    cx.check(decl == STD_ERRORS, "C07.R6", "varlink:idl:error-declarations", "%s:%d" % (LIB, gd[0].line), "built-in IDL declares %s" % decl, note_ok="four errors with the same parameter names")
