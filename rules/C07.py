"""C07 — a client connection carries one call at a time and reports outcomes faithfully."""
import re
from vlib.cfg import Cfg, DefUse, Slice, ref_chain
from vlib.cond import switch_cond, bool_edges, variant_edge
from vlib.facts import AnchorMissing
from . import client_common as cc

LIB = "varlink/src/lib.rs"
STD_ERRORS = {"InterfaceNotFound": "interface", "InvalidParameter": "parameter", "MethodNotFound": "method", "MethodNotImplemented": "method"}


def run(cx):
    cx.rule("C07.R1", "busy gate: send() writes nothing unless both connection slots are present; the absent edge returns ConnectionBusy")
    cx.rule("C07.R2", "one critical section: send() acquires the connection lock exactly once (a write lock) and the busy test, both take()s and the write happen under that guard")
    cx.rule("C07.R3", "slot pairing: recv() returns the slots exactly on the final reply, on every path (shared with C05.R2)")
    cx.rule("C07.R4", "once-only: send() consumes method and request with take() and fails with MethodCalledAlready, before touching the connection's stream, when either is gone")
    cx.rule("C07.R5", "success iff no error member: recv() returns Ok only behind reply.error.is_some()==false and otherwise the error built by ErrorKind::from(reply)")
    cx.rule("C07.R6", "error-name tables agree: From<Reply> for ErrorKind, ErrorKind::is_error, the server-side emitters and the built-in IDL text list the same four names with the same parameter member; unknown names carry the whole reply")
    send = cc.Fn(cx, cc.MC + "send")
    r1_r2_r4(cx, send)
    cc.check_recv_protocol(cx, "C07.R3", "varlink")
    cc.check_slot_writers(cx, "C07.R3", "varlink")
    r5(cx)
    r6(cx)


def r1_r2_r4(cx, f):
    body, cfg, du = f.body, f.cfg, f.du
    site = body.sp
    writes = [t for t in body.calls("=write_all", "=write", "=flush") if "io::" in t.callee.resolved or "Write" in (t.callee.trait or "")]
    if not writes: raise AnchorMissing("send: no write")
    nr = cc.none_checks(f, "reader", "Connection"); nw = cc.none_checks(f, "writer", "Connection")
    busy = cc.err_variant_blocks(body, "ConnectionBusy")
    gates = nr + nw
    good = bool(nr) and bool(nw) and bool(busy)
    why = []
    if good:
        for t, c in gates:
            ab = cc.absent_edge(t, c)
            r = cfg.after(ab)
            if any(w.bb in r for w in writes): why.append("a write is reachable although conn.%s is None" % ("reader" if (t, c) in nr else "writer"))
            if not any(b in r for b in busy): why.append("the absent edge does not return ConnectionBusy")
        present = {cc.present_edge(t, c) for t, c in gates}
        # every write is behind both presence edges
        for w in writes:
            for t, c in gates:
                if not cfg.edge_dominates(cc.present_edge(t, c), w.bb): why.append("%s at %s is not dominated by the presence test of both slots" % (w.callee.name, w.sp)); break
    else:
        why.append("busy test not found (reader tests %d, writer tests %d, ConnectionBusy returns %d)" % (len(nr), len(nw), len(busy)))
    cx.check(not why, "C07.R1", "varlink:send:busy-gate", site, "; ".join(sorted(set(why))[:3]), note_ok="reader.is_none() || writer.is_none() -> Err(ConnectionBusy); %d writes behind both presence edges" % len(writes))
    # R2
    locks = cc.lock_acquisitions(f)
    why = []
    if len(locks) != 1: why.append("%d lock acquisitions in send() (%s): the busy test and the take are not atomic" % (len(locks), [t.callee.name for t in locks]))
    elif locks[0].callee.name != "write": why.append("lock acquired with %s(), slots are mutated: needs write()" % locks[0].callee.name)
    else:
        L = locks[0]
        guard_locals = set()
        # the guard: result of write() through unwrap
        for t in body.calls("=unwrap", "=expect"):
            if any(k == "call" and o is L for k, o in f.sl.origins(t.args[0])): guard_locals.add(t.dest.l)
        if not guard_locals: guard_locals.add(L.dest.l)
        drops = [b.term for b in body.blocks if not b.cleanup and b.term.kind == "drop" and b.term.place.l in guard_locals and not b.term.place.p]
        takes = cc.takes_of(f, "reader", "Connection") + cc.takes_of(f, "writer", "Connection")
        if len(takes) < 2: why.append("conn.reader/conn.writer are not both taken (%d take() calls)" % len(takes))
        # no drop of the guard between acquisition and the last write on the success path
        lastw = writes[-1]
        for d in drops:
            if lastw.bb in cfg.reach(d.target) :
                why.append("the connection guard is released at %s before the request is written" % d.sp)
        for t in takes + [g[0] for g in gates]:
            if not cfg.dominates(L.bb, t.bb): why.append("slot access at %s is not under the lock" % t.sp)
    cx.check(not why, "C07.R2", "varlink:send:single-critical-section", site, "; ".join(sorted(set(why))[:3]),
             note_ok="one RwLock::write(); busy test, take() x2 and the write under the same guard")
    # R4
    tm = cc.takes_of(f, "method", "MethodCall"); tr = cc.takes_of(f, "request", "MethodCall")
    already = cc.err_variant_blocks(body, "MethodCalledAlready")
    why = []
    if len(tm) != 1 or len(tr) != 1 or not already: why.append("method/request are not consumed with take() or MethodCalledAlready is never returned (takes %d/%d)" % (len(tm), len(tr)))
    else:
        # writes and connection takes only behind both Some edges of the (method, request) match
        some_edges = []
        for b in body.blocks:
            if b.cleanup or b.term.kind != "switch": continue
            c = switch_cond(body, du, b.term)
            if c.kind == "discr":
                orig = [o for k, o in f.sl.origins(c.place) if k == "call"]
                if any(o in tm or o in tr for o in orig): some_edges.append(variant_edge(b.term, 1))
        if len(some_edges) < 2: why.append("the results of both take() calls are not matched on Some")
        for w in writes + cc.takes_of(f, "reader", "Connection") + cc.takes_of(f, "writer", "Connection"):
            nd = sum(1 for e in set(some_edges) if cfg.edge_dominates(e, w.bb))
            if nd < 2: why.append("%s at %s is reachable when method/request were already consumed" % (w.callee.name, w.sp))
        if not any(b in cfg.reach(0) for b in already): why.append("MethodCalledAlready unreachable")
    cx.check(not why, "C07.R4", "varlink:send:once-only", site, "; ".join(sorted(set(why))[:3]), note_ok="(method.take(), request.take()) both Some, else Err(MethodCalledAlready) before the stream is touched")


def r5(cx):
    f = cc.Fn(cx, cc.MC + "recv")
    body, cfg, du = f.body, f.cfg, f.du
    oks = cc.ok_return_blocks(body)
    es = []
    for b in body.blocks:
        if b.cleanup or b.term.kind != "switch": continue
        c = switch_cond(body, du, b.term)
        if c.kind == "call" and c.term.callee.name in ("is_some", "is_none"):
            for l in ref_chain(du, c.term.args[0].place.l):
                for k, d in du.defs.get(l, []):
                    if k == "stmt" and d.kind == "assign" and d.rplace is not None and d.rplace.fields()[-1:] == ["error"] and body.ty_is(d.rplace.l, "Reply"): es.append((b.term, c))
    why = []
    if len(es) != 1 or not oks: why.append("no single test of reply.error (found %d) or no Ok return" % len(es))
    else:
        t, c = es[0]
        has_err = cc.present_edge(t, c); no_err = cc.absent_edge(t, c)
        for o in oks:
            if not cfg.edge_dominates(no_err, o): why.append("an Ok return is reachable for a reply that carries an error member")
        conv = [x for x in body.calls("=from") if "ErrorKind" in x.callee.resolved and "Reply" in x.callee.resolved]
        if not conv: conv = [x for x in body.calls("=from") if "ErrorKind" in (x.callee.impl_self or x.callee.resolved) and body.ty_is(x.args[0].place.l, "Reply")] if True else []
        if not conv or not all(x.bb in cfg.after(has_err) for x in conv): why.append("the error edge does not build its error with ErrorKind::from(reply)")
        if any(o in cfg.after(has_err) for o in oks): why.append("the error edge can still return Ok")
    cx.check(not why, "C07.R5", "varlink:recv:success-iff-no-error", body.sp, "; ".join(sorted(set(why))), note_ok="reply.error.is_some() ? Err(ErrorKind::from(reply)) : Ok(parameters)")


def r6(cx):
    ast = cx.ast
    # (i) From<Reply> for ErrorKind: guards `t == "<name>"`, payload struct, field
    fr = ast.fn(LIB, "from", self_ty="ErrorKind", trait="From<Reply>")
    arms = [e for e in fr.events if e["k"] == "arm" and e.get("guard")]
    table_from = {}
    for a in arms:
        m = re.fullmatch(r't == "org\.varlink\.service\.(\w+)"', a["guard"].strip())
        key = "varlink:From<Reply>:guard:%s" % a["guard"][:60]
        if not m:
            cx.bad("C07.R6", key, "%s:%d" % (LIB, a["line"]), "error name is not matched by exact comparison with a full literal name (guard `%s`): a different error could be classified as a standard one" % a["guard"]); continue
        name = m.group(1)
        body = a["body"]
        st = re.search(r"from_value\s*::\s*<\s*(\w+)\s*>", body)
        var = re.findall(r"ErrorKind\s*::\s*(\w+)\s*\(", body)
        fld = re.search(r"v\s*\.\s*(\w+)\s*\.", body)
        table_from[name] = (st.group(1) if st else None, sorted(set(var)), fld.group(1) if fld else None)
    for name, field in STD_ERRORS.items():
        got = table_from.get(name)
        good = got is not None and got[0] == "Error" + name and got[1] == [name] and got[2] == field
        cx.check(good, "C07.R6", "varlink:From<Reply>:row:%s" % name, "%s:%d" % (LIB, fr.line),
                 "reply error org.varlink.service.%s is mapped with %s (expected struct Error%s, variant %s, member %s)" % (name, got, name, name, field),
                 note_ok="== literal -> Error%s.%s -> ErrorKind::%s" % (name, field, name))
    extra = sorted(set(table_from) - set(STD_ERRORS))
    cx.check(not extra, "C07.R6", "varlink:From<Reply>:no-extra-rows", "%s:%d" % (LIB, fr.line), "unexpected standard-error rows %s" % extra, note_ok="exactly four rows")
    fallback = [e for e in fr.events if e["k"] == "arm" and not e.get("guard") and e["text"].strip() == "_" and "VarlinkErrorReply(e)" in e["body"].replace(" ", "")]
    cx.check(len(fallback) == 1, "C07.R6", "varlink:From<Reply>:fallback", "%s:%d" % (LIB, fr.line), "any other error name must map to VarlinkErrorReply carrying the whole reply", note_ok="_ => VarlinkErrorReply(e)")
    # (ii) is_error
    ie = ast.fn(LIB, "is_error", self_ty="ErrorKind")
    from vlib.astfacts import tt_walk, lit_str_value
    lits = [s["text"] for s in ie.ev("str")]
    for m in ie.macros():
        for t in tt_walk(m["tokens"]):
            if t["t"] == "lit" and t["s"].startswith('"'): lits.append(lit_str_value(t["s"]))
    names = sorted(x.split(".")[-1] for x in lits if x.startswith("org.varlink.service."))
    cx.check(names == sorted(STD_ERRORS), "C07.R6", "varlink:is_error:names", "%s:%d" % (LIB, ie.line), "is_error lists %s" % names, note_ok="the same four names")
    # (iii) emitters
    for name, field in STD_ERRORS.items():
        fn = "reply_" + re.sub(r"(?<!^)([A-Z])", r"_\1", name).lower()
        cands = [f for f in ast.file(LIB)["_fns"] if f.name == fn]
        if len(cands) != 1:
            cx.bad("C07.R6", "varlink:emitter:%s" % name, LIB, "emitter %s not found" % fn); continue
        f = cands[0]
        lits = [s["text"] for s in f.ev("str")]
        structs = [e for e in f.ev("struct")]
        good = "org.varlink.service." + name in lits and any(e["text"] == "Error" + name and [x[0] for x in e["fields"]] == [field] for e in structs)
        cx.check(good, "C07.R6", "varlink:emitter:%s" % name, "%s:%d" % (LIB, f.line), "%s emits %s with %s" % (fn, lits, [(e["text"], e["fields"]) for e in structs]),
                 note_ok="%s -> \"org.varlink.service.%s\" + Error%s{%s}" % (fn, name, name, field))
        st = ast.items(LIB, kind="struct", name="Error" + name)
        okf = len(st) == 1 and [x["name"] for x in st[0]["fields"]] == [field]
        cx.check(okf, "C07.R6", "varlink:struct:Error%s" % name, LIB, "struct Error%s does not have the single member %s" % (name, field), note_ok="member %s" % field)
    # (iv) IDL text of the built-in interface
    gd = [f for f in ast.file(LIB)["_fns"] if f.name == "get_description" and f.self_ty.replace(" ", "") == "VarlinkService"]
    if len(gd) != 1: raise AnchorMissing("VarlinkService::get_description")
    txt = " ".join(s["text"] for s in gd[0].ev("str"))
    decl = dict(re.findall(r"error (\w+) \((\w+): string\)", txt))
    cx.check(decl == STD_ERRORS, "C07.R6", "varlink:idl:error-declarations", "%s:%d" % (LIB, gd[0].line), "built-in IDL declares %s" % decl, note_ok="four errors with the same parameter names")
