"""C09 — the generator is total and its output compiles."""
import re
from vlib.astfacts import tt_str, tt_walk, lit_str_value
from vlib.cfg import Cfg, DefUse, Slice
from vlib.cond import switch_cond, variant_edge, bool_edges
from vlib.census import panic_sites, reachable_bodies
from vlib.facts import AnchorMissing

GEN = "varlink_generator/src/lib.rs"
UNRAWABLE = ["self", "Self", "super", "crate"]
# Rust keywords that are the snake_case image of a varlink `name` ([A-Z][A-Za-z0-9]*)
KEYWORDS = ["as", "break", "const", "continue", "crate", "else", "enum", "extern", "false", "fn", "for", "if", "impl", "in", "let", "loop", "match", "mod", "move", "mut", "pub",
            "ref", "return", "self", "static", "struct", "super", "trait", "true", "type", "unsafe", "use", "where", "while", "async", "await", "dyn", "abstract", "become", "box",
            "do", "final", "macro", "override", "priv", "typeof", "unsized", "virtual", "yield", "try", "gen"]

# which grammar class an IDL text expression belongs to (decides which reserved words it can be)
def source_class(expr):
    e = expr.replace(" ", "")
    if re.search(r"\be\.name\b", e) or e.endswith("+elt)") or re.search(r"\belt\b", e): return "field_name"
    if re.search(r"\b(t|self)\.name\b", e) or re.search(r"\bname\b", e): return "name"
    return None


def run(cx):
    cx.rule("C09.R1", "IDL text reaching an identifier sink is sanitised: every Ident::new / syn::parse_str / format_ident! / TokenStream::from_str fed from an IDL name either carries a literal affix containing '_' (cannot be a keyword) or is protected against the words it can collide with (raw-identifier prefix is not enough for self/Self/super/crate; an un-prefixed snake_case method name can be any keyword)")
    cx.rule("C09.R2", "emit-once: the nested anonymous types of each IDL element are emitted into the output through exactly one to_rust_string call site")
    cx.rule("C09.R3", "parse dominates emit, failure is reported: code is generated only behind the Ok edge of IDL::try_from and written only behind the Ok edge of varlink_to_rust; in the cargo build helpers every failed generation reaches exit(1)")
    cx.rule("C09.R4", "panic census of the generator: every may-panic construct reachable from the front-ends is a reviewed table entry (the identifier sinks are R1's)")
    cx.rule("C09.R5", "every type the output names is emitted: composite type arms recurse into their element type through to_rust_string (which emits inline structs/enums) and inline struct/enum arms call to_tokenstream for the name they return; no wildcard arm hides a constructor")
    cx.rule("C09.R6", "template well-formedness for every list length: no separated repetition #(..)SEP* is followed by the same separator (an empty list would leave a lone separator), and the argument list of every emitted call/constructor is taken from the same IDL member list as the declaration it must match (method parameters and <M>_Args fields from t.input, reply() parameters and <M>_Reply fields from t.output)")
    cx.rule("C09.R7", "file-level attributes come first: where the module text is put together, the `#![..]` inner attributes are emitted before the imports and before the user supplied preamble (rustc rejects an inner attribute that follows an item, so a preamble containing items would make every generated file fail to compile)")
    r1(cx); r2(cx); r3(cx); r4(cx); r6(cx); r7(cx)
    from .C08 import r5 as type_table
    type_table(cx, cx.ast, rule="C09.R5")


def r1(cx):
    ast = cx.ast
    n = 0
    ordn = {}
    for f in sorted(ast.file(GEN)["_fns"], key=lambda f: f.line):
        for e in f.events:
            sink = None; arg = None
            if e["k"] == "call" and e["text"] in ("syn::parse_str", "Ident::new", "TokenStream::from_str", "Ident::new_raw", "syn::parse_str::<Ident>"):
                sink = e["text"]; arg = e["args"][0] if e["args"] else ""
            elif e["k"] == "macro" and e["name"] == "format_ident":
                sink = "format_ident!"; arg = tt_str(e["tokens"])
            if sink is None: continue
            cls = source_class(arg)
            if cls is None and "to_rust_string" not in arg:
                # not an IDL name R1 can classify.  Constant text is harmless; anything else is text of unknown provenance that is
                # parsed as Rust source with the parse error unwrapped (C09.R4 hands exactly these unwraps to this rule): fail closed.
                rest = re.sub(r'"(?:[^"\\]|\\.)*"', "", arg)
                rest = re.sub(r"\b(format|String|from|as_ref|as_str|to_string|to_owned|into|concat|stringify|Span|call_site|proc_macro2)\b", "", rest)
                free = sorted(set(re.findall(r"[A-Za-z_][A-Za-z0-9_]*", rest)))
                if free:
                    n += 1
                    expr = re.sub(r"\s+", "", arg)[:90]
                    k = ordn.get((sink, expr), 0); ordn[(sink, expr)] = k + 1
                    cx.bad("C09.R1", "gen:%s:%s#%d" % (sink, expr, k), "%s:%d" % (GEN, e["line"]),
                           "text built from %s is parsed as Rust source by %s and the result unwrapped, but it is neither a classified IDL name nor constant: free IDL text (the interface description and the doc comments may contain any character — a backslash, a quote) that reaches this parser makes the generator panic or emit a different literal; interpolate it through quote!/Literal::string instead" % (free[:6], sink),
                           witness={"expr": arg[:200], "free_identifiers": free})
                continue
            if "to_rust_string" in arg and sink == "TokenStream::from_str":
                # a type expression produced by to_rust_string: only Typename(v) passes IDL text through
                cls = "typename"
            n += 1
            # the key names the sink and the expression fed to it (not the enclosing function: moving the statement keeps the key)
            expr = re.sub(r"\s+", "", arg)[:90]
            k = ordn.get((sink, expr), 0); ordn[(sink, expr)] = k + 1
            key = "gen:%s:%s#%d" % (sink, expr, k)
            site = "%s:%d" % (GEN, e["line"])
            lits = [lit_str_value(t["s"]) for t in tt_walk(e.get("tokens", [])) if t["t"] == "lit" and t["s"].startswith('"')] if e["k"] == "macro" else re.findall(r'"((?:[^"\\]|\\.)*)"', arg)
            raw = any(l.startswith("r#") for l in lits if l)
            snake = "to_snake_case" in arg
            helper = [h for h in re.findall(r"\b([a-z_][a-z0-9_]*)\s*\(", arg) if h not in ("to_snake_case", "format", "from", "as_ref", "to_rust_string", "parse_str", "new", "from_str", "to_string", "into")]
            affix = [l for l in lits if l and "_" in l.replace("r#", "") and not l.startswith("r#{")]
            # positions of IDL text inside a format literal: hazardous when an identifier starts AND ends at a placeholder
            bare_slot = False
            for l in lits:
                if l is None: continue
                for m in re.finditer(r"\{[a-z]*\}", l):
                    before = l[:m.start()]; after = l[m.end():]
                    if (before == "" or not re.search(r"[A-Za-z0-9_]$", before)) and (after == "" or not re.match(r"[A-Za-z0-9_]", after)): bare_slot = True
            if helper:
                cx.note("C09.R1", key, site, "identifier text passes through helper %s — treated as sanitiser, review it" % helper); continue
            hazards = []
            if sink in ("Ident::new",) and affix and not bare_slot:
                cx.ok("C09.R1", key, site, "literal affix %s: cannot be a keyword" % affix); continue
            if sink == "TokenStream::from_str" and cls == "typename":
                hazards = ["Self"]            # a `name` used as a type: `Self` is the only capitalised reserved word
                cx.note("C09.R1", key, site, "type expression from to_rust_string: a type reference named `Self` would be emitted verbatim (typedef `Self` itself is rejected earlier by the raw-identifier panic, see the typedef sink)")
                continue
            if raw:
                hazards = [w for w in UNRAWABLE if (cls == "field_name") or (cls == "name" and w[0].isupper())]
                what = "raw identifier r#<%s>: %s cannot be raw identifiers, the generator panics (unwrap on the parse error)" % (cls, hazards)
            elif snake and not affix:
                hazards = ["type", "match", "loop", "fn", "move", "ref", "impl", "use", "mod", "let", "if", "else", "for", "in", "as", "box", "..."]
                what = "un-prefixed to_snake_case(<name>): a method called Type/Match/Loop/... is emitted as `fn type(..)`, which does not compile"
            elif bare_slot and cls == "name":
                hazards = ["Self"]
                what = "IDL name placed verbatim in identifier position: an error called `Self` is emitted as the variant `Self(..)`, which does not compile"
            if hazards:
                cx.bad("C09.R1", key, site, what, witness={"hazard_words": hazards, "expr": arg[:160]})
            else:
                cx.ok("C09.R1", key, site, "no reserved word reachable (%s)" % (affix or cls))
    cx.floor("C09.R1", "identifier sinks fed from IDL text", n, 15)


def r2(cx):
    ast = cx.ast
    sites = []
    for f in ast.file(GEN)["_fns"]:
        for e in f.events:
            if e["k"] == "method" and e["text"] == "to_rust_string" and len(e["args"]) == 3 and "format" in e["args"][0]:
                lit = re.findall(r'"((?:[^"\\]|\\.)*)"', e["args"][0])
                fargs = re.sub(r'^.*?"\s*,', "", e["args"][0])
                # normalise the element the name is built from: self.name in VError::to_tokenstream and t.name in a loop over idl.errors denote the same thing
                owner = "error" if ("VError" in f.qual or (f.name == "generate_error_code")) else ("method" if f.name == "generate_anon_struct" else ("typedef-field" if "VStruct" in f.qual else f.qual))
                sites.append(dict(fn=f.qual, line=e["line"], fmt=lit[0] if lit else "?", owner=owner, sink=e["args"][1].replace(" ", "")))
    cx.floor("C09.R2", "to_rust_string emission sites", len(sites), 2)
    groups = {}
    for s in sites: groups.setdefault((s["owner"], s["fmt"]), []).append(s)
    # does a sink reach the output? every TokenStream here is either `ts`/`tokenstream` (the output) or a local that is interpolated into it
    gen_text = None
    for (owner, fmt), ss in sorted(groups.items()):
        key = "gen:emit-once:%s:%s" % (owner, fmt)
        site = ", ".join("%s:%d" % (GEN, s["line"]) for s in ss)
        if len(ss) == 1:
            cx.ok("C09.R2", key, site, "one emission site (%s)" % ss[0]["fn"])
        else:
            cx.bad("C09.R2", key, site, "the anonymous types of one %s parameter are emitted by %d sites (%s) whose sinks both end up in the output: `%s` is defined twice (E0428) whenever an error has an inline struct/enum parameter" %
                   (owner, len(ss), [s["fn"] for s in ss], fmt.replace("{}", "<name>")), witness={"sites": ss})
    # every local sink is interpolated exactly once into the output
    for f in ast.file(GEN)["_fns"]:
        if f.name != "generate_error_code": continue
        interp = 0
        for e in f.macros("quote"):
            toks = list(tt_walk(e["tokens"]))
            for i, t in enumerate(toks):
                if t["t"] == "punct" and t["s"] == "#" and i + 1 < len(toks) and toks[i + 1]["t"] == "ident" and toks[i + 1]["s"] == "error_structs_and_enums": interp += 1
        cx.notes.append("C09.R2: error_structs_and_enums is interpolated %d time(s) into the output" % interp)


def r3(cx):
    for path in ("compile", "generate_with_options"):
        b = cx.mir.one("varlink_generator", path)
        cx.saw(b)
        cfg = Cfg(b); du = DefUse(b); sl = Slice(b, du)
        tf = [t for t in b.calls("=try_from") if "IDL" in t.callee.resolved or "TryFrom" in (t.callee.trait or "")]
        gen = b.calls("=varlink_to_rust")
        why = []
        if len(tf) != 1 or len(gen) != 1: why.append("expected one IDL::try_from and one varlink_to_rust call (%d/%d)" % (len(tf), len(gen)))
        else:
            ok_edge = None
            for t in b.calls("=branch"):
                if any(k == "call" and o is tf[0] for k, o in sl.origins(t.args[0])):
                    sw = b.blocks[t.target].term
                    if sw.kind == "switch": ok_edge = variant_edge(sw, 0)
            if ok_edge is None or not cfg.edge_dominates(ok_edge, gen[0].bb): why.append("code generation is reachable without a successful parse")
            ws = [t for t in b.calls("=write_all", "=write", "=write_fmt")]
            for w in ws:
                gok = None
                for t in b.calls("=branch"):
                    if any(k == "call" and o is gen[0] for k, o in sl.origins(t.args[0])):
                        sw = b.blocks[t.target].term
                        if sw.kind == "switch": gok = variant_edge(sw, 0)
                if gok is None or not cfg.edge_dominates(gok, w.bb): why.append("output is written although generation failed")
        cx.check(not why, "C09.R3", "gen:%s:parse-then-emit" % path, b.sp, "; ".join(why), note_ok="IDL::try_from(..)? -> varlink_to_rust(..)? -> write")
    for path in ("cargo_build_options_many", "cargo_build_tosource_options"):
        b = cx.mir.one("varlink_generator", path)
        cx.saw(b)
        cfg = Cfg(b); du = DefUse(b); sl = Slice(b, du)
        g = b.calls("=generate_with_options")
        ex = [t for t in b.calls("=exit") if "process" in t.callee.path]
        why = []
        if len(g) != 1: why.append("%d generate_with_options calls" % len(g))
        else:
            err = None
            for bb in sorted(cfg.reach(g[0].target)):
                t = b.blocks[bb].term
                if t.kind == "switch":
                    c = switch_cond(b, du, t)
                    if c.kind == "discr" and any(k == "call" and o is g[0] for k, o in sl.origins(c.place)):
                        err = variant_edge(t, 1); break
                    if c.kind == "call" and c.term.callee.name in ("is_err", "is_ok") and any(k == "call" and o is g[0] for k, o in sl.origins(c.term.args[0])):
                        te, fe = bool_edges(t, c); err = te if c.term.callee.name == "is_err" else fe; break
            exb = {t.bb for t in ex if t.args and t.args[0].is_const and t.args[0].cint() not in (0, None)}
            if err is None: why.append("the result of generate_with_options is not examined")
            elif not cfg.must_pass(err[2], cfg.returns() + [g[0].bb], exb):
                why.append("a failed generation can reach the end of the helper (or the next input file) without exit(1): the build script succeeds although an interface was rejected")
        cx.check(not why, "C09.R3", "gen:%s:failure-exits" % path, b.sp, "; ".join(why), note_ok="Err -> eprintln -> exit(1) on every path")
    # the proc-macro front-end turns the error into a compile error (panic)
    der = [b for b in cx.mir.bodies("varlink_derive") if b.promoted is None and b.calls("=compile")]
    cx.check(len(der) >= 1, "C09.R3", "derive:front-end-uses-compile", der[0].sp if der else "-", "varlink_derive does not go through varlink_generator::compile", note_ok="%s -> compile(..)" % (der[0].path if der else "?"))


PANIC_TABLE_PREFIXES = {
    # key prefix -> reason ; the identifier sinks (parse_str(..).unwrap(), from_str(..).unwrap()) are judged by R1
    "unwrap:Result::unwrap": "unwrap of syn::parse_str / TokenStream::from_str on generator-built text: panics exactly for the hazard words of C09.R1, otherwise the text is a valid identifier/type by construction of the grammar",
}


def r4(cx):
    roots = [cx.mir.one("varlink_generator", p) for p in ("compile", "generate_with_options")]
    bodies = reachable_bodies(cx.mir, roots, pkgs={"varlink_generator"})
    allowed_fns = {"<varlink_parser::VStruct<'long> as ToTokenStream<'short, 'long>>::to_tokenstream": 2, "<varlink_parser::VEnum<'long> as ToTokenStream<'short, 'long>>::to_tokenstream": 2,
                   "<varlink_parser::VError<'long> as ToTokenStream<'short, 'long>>::to_tokenstream": 2, "generate_anon_struct": 2, "generate_error_code": 5}
    n = 0
    for b in sorted(bodies, key=lambda b: b.path):
        cx.saw(b)
        per = 0
        for ps in panic_sites(b):
            if ps["mac"] and ("format" in ps["mac"] or "quote" in ps["mac"]): continue
            n += 1
            key = "gen:%s:%s" % (b.path, ps["key"])
            if ps["kind"] == "unwrap" and ps["what"] == "Result::unwrap" and re.search(r"<-(.*\+)?call:(syn::parse_str|TokenStream::from_str|FromStr::from_str|str::parse)(\+.*)?$", ps["skey"]):
                key = "gen:%s" % ps["skey"]
                cx.ok("C09.R4", key, "%s %s" % (ps["sp"], b.path), "table: identifier/type sink (unwrap of parse_str/from_str on generator-built text), judged by C09.R1"); continue
            cx.bad("C09.R4", key, "%s %s" % (ps["sp"], b.path), "new may-panic construct (%s %s) in the generator: an accepted interface definition reaching it aborts generation with a panic instead of a diagnostic" % (ps["kind"], ps["what"]))
    cx.floor("C09.R4", "generator functions reachable from the front-ends", len(bodies), 8)
    cx.notes.append("C09.R4: %d may-panic constructs examined" % n)


def _reps(tokens):
    """separated/unseparated repetitions in a quote! token list: yields (index, group, separator or None, index after)"""
    for i, t in enumerate(tokens):
        if t["t"] == "punct" and t["s"] == "#" and i + 1 < len(tokens) and tokens[i + 1]["t"] == "group" and tokens[i + 1]["d"] == "(":
            j = i + 2
            if j < len(tokens) and tokens[j]["t"] == "punct" and tokens[j]["s"] == "*": yield i, tokens[i + 1], None, j + 1
            elif j + 1 < len(tokens) and tokens[j]["t"] == "punct" and tokens[j + 1]["t"] == "punct" and tokens[j + 1]["s"] == "*": yield i, tokens[i + 1], tokens[j]["s"], j + 2


def _all_lists(tokens):
    yield tokens
    for t in tokens:
        if t["t"] == "group":
            for x in _all_lists(t["c"]): yield x


def _interp_names(tokens):
    out = []
    toks = list(tt_walk(tokens))
    for i, t in enumerate(toks):
        if t["t"] == "punct" and t["s"] == "#" and i + 1 < len(toks) and toks[i + 1]["t"] == "ident": out.append(toks[i + 1]["s"])
    return out


# emitted construct (token pattern before the bracketed list) -> IDL member list its repetition must come from
ARG_CONTEXTS = [
    (("self", ".", "inner", ".", "#", "method_name"), "(", "input", "call of the implementation's method"),
    (("fn", "#", "method_name"), "(", "input", "method declaration"),
    (("#", "in_struct_name"), "{", "input", "<Method>_Args constructor"),
    (("#", "out_struct_name"), "{", "output", "<Method>_Reply constructor"),
    (("fn", "reply"), "(", "output", "reply() declaration"),
]


def r6(cx):
    ast = cx.ast
    nrep = 0; nctx = 0
    allf = ast.file(GEN)["_fns"]
    ctx = {}
    def context(f):
        """(roots, lets, parameter names) of one generator function"""
        if id(f) in ctx: return ctx[id(f)]
        root = {}
        for e in f.ev("call"):
            if e["text"] == "generate_anon_struct" and len(e["args"]) >= 6:
                src = "input" if re.search(r"\binput\b", e["args"][1]) else "output" if re.search(r"\boutput\b", e["args"][1]) else "other"
                for a in e["args"][3:]:
                    m = re.fullmatch(r"&\s*mut\s+(\w+)", a.strip())
                    if m and m.group(1) != "ts": root[m.group(1)] = src
        lets = {}
        for e in f.ev("let"):
            nm = re.sub(r"^mut\s+", "", e["pat"]).strip()
            if re.fullmatch(r"\w+", nm): lets.setdefault(nm, []).append(e["text"])
            else:
                # destructuring pattern (`let Fields { names: in_names, .. } = f(..)`, tuples): every bound name takes the initialiser
                pat = re.sub(r"\b\w+\s*:(?!:)", " ", e["pat"])           # drop `field:` labels
                for nm2 in re.findall(r"\b[a-z_][a-z0-9_]*\b", pat):
                    if nm2 not in ("mut", "ref", "_"): lets.setdefault(nm2, []).append(e["text"])
        sig = f.sig or ""
        m = re.search(r"\((.*)\)", sig, flags=re.S)
        params = []
        if m:
            depth = 0; cur = ""
            for ch in m.group(1):
                if ch in "<([": depth += 1
                if ch in ">)]": depth -= 1
                if ch == "," and depth == 0: params.append(cur); cur = ""
                else: cur += ch
            if cur.strip(): params.append(cur)
            params = [re.sub(r"^\s*(mut\s+)?", "", x).split(":")[0].strip() for x in params]
            params = [x for x in params if x and "self" not in x.split()]
        ctx[id(f)] = (root, lets, params)
        return ctx[id(f)]
    _FIELD_HINT = {}
    def classify_in(f, name, depth=0, seen=()):
        root, lets, params = context(f)
        out = set()
        inits = lets.get(name, [])
        if depth == 0: _FIELD_HINT["field"] = name
        for init in inits:
            flat = re.sub(r"\s+", "", init)
            if re.search(r"\bt\.input\b", flat) and not re.search(r"\bt\.output\b", flat): out.add("input"); continue
            if re.search(r"\bt\.output\b", flat) and not re.search(r"\bt\.input\b", flat): out.add("output"); continue
            ids = set(re.findall(r"\b[a-z_][a-z0-9_]*\b", re.sub(r'"(?:[^"\\]|\\.)*"', "", init)))
            for i2 in ids:
                if i2 in root: out.add(root[i2])
                elif i2 == name and i2 in params and depth < 6: out |= from_callers(f, i2, depth + 1)
                elif i2 in lets and i2 not in seen and i2 != name and depth < 6: out |= classify_in(f, i2, depth + 1, seen + (name,))
                elif i2 in params and i2 not in lets and depth < 6: out |= from_callers(f, i2, depth + 1)
        if not inits and name in root: out.add(root[name])
        if not inits and name not in root and name in params and depth < 6: out |= from_callers(f, name, depth + 1)
        return out
    def from_callers(f, pname, depth):
        """a parameter takes its provenance from what every call site passes in that position"""
        root, lets, params = context(f)
        pos = params.index(pname)
        out = set(); ncalls = 0
        for g in allf:
            if g is f: continue
            for e in g.ev("call"):
                if e["text"].split("::")[-1] != f.name or pos >= len(e["args"]): continue
                ncalls += 1
                arg = re.sub(r'"(?:[^"\\]|\\.)*"', "", e["args"][pos])
                flat = re.sub(r"\s+", "", arg)
                if re.search(r"\bt\.input\b", flat) and not re.search(r"\bt\.output\b", flat): out.add("input"); continue
                if re.search(r"\bt\.output\b", flat) and not re.search(r"\bt\.input\b", flat): out.add("output"); continue
                got = set()
                # a struct literal handed over: the member that carries the wanted name decides (`Arm { names: &in_names, .. }`)
                want_field = _FIELD_HINT.get("field")
                mfield = re.search(r"\b%s\s*:\s*([^,}]+)" % re.escape(want_field), arg) if want_field else None
                if mfield is None and want_field and re.search(r"\{[^{}]*\b%s\b[^{}]*\}" % re.escape(want_field), arg): mfield = re.search(r"\b(%s)\b" % re.escape(want_field), arg)   # shorthand `Arm { names, .. }`
                scope = mfield.group(1) if mfield else arg
                for i2 in set(re.findall(r"\b[a-z_][a-z0-9_]*\b", scope)):
                    if i2 in ("mut", "ref", "iter", "as_slice", "as_ref", "clone"): continue
                    got |= classify_in(g, i2, depth)
                out |= got or {"unknown"}
        return out if ncalls else set()
    for f in allf:
        qs = f.macros("quote")
        if not qs: continue
        classify = lambda name, f=f: classify_in(f, name)
        ordn = {}
        for e in qs:
            for toks in _all_lists(e["tokens"]):
                for i, grp, sep, after in _reps(toks):
                    nrep += 1
                    if sep is not None and after < len(toks) and toks[after]["t"] == "punct" and toks[after]["s"] == sep:
                        k = ordn.get("sep", 0); ordn["sep"] = k + 1
                        cx.bad("C09.R6", "gen:%s:repetition-then-separator#%d" % (f.qual, k), "%s:%s" % (GEN, grp.get("l", e["line"])),
                               "#(%s)%s* is followed by another `%s`: for an interface where the list is empty the output contains a lone `%s` and does not parse" % (tt_str(grp["c"])[:60], sep, sep, sep))
                # argument-source agreement
                flat = [(t["s"] if t["t"] != "group" else None) for t in toks]
                for pat, delim, want, what in ARG_CONTEXTS:
                    L = len(pat)
                    for i in range(len(toks) - L):
                        if tuple(flat[i:i + L]) != pat: continue
                        g = toks[i + L]
                        if g["t"] != "group" or g["d"] != delim: continue
                        names = []
                        for _, rg, _, _ in _reps(g["c"]): names += _interp_names(rg["c"])
                        if not names: continue
                        nctx += 1
                        k = ordn.get(what, 0); ordn[what] = k + 1
                        wrong = {}
                        for nme in names:
                            cl = classify(nme)
                            if cl != {want}: wrong[nme] = sorted(cl) or ["unknown"]
                        cx.check(not wrong, "C09.R6", "gen:%s:%s#%d:list-source" % (f.qual, what, k), "%s:%s" % (GEN, g.get("l", e["line"])),
                                 "the %s takes its list from %s but its counterpart is generated from t.%s: for a method whose input and output lists differ in length or names the output does not compile" % (what, wrong, want),
                                 note_ok="list from t.%s (%s)" % (want, ", ".join(sorted(set(names)))))
    cx.check(True, "C09.R6", "gen:repetition-then-separator", GEN, "", note_ok="%d repetitions examined" % nrep)
    cx.floor("C09.R6", "repetitions in the generator's templates", nrep, 12)
    cx.floor("C09.R6", "emitted argument lists with a declared source", nctx, 7)


def r7(cx):
    import os
    ast = cx.ast
    src = open(os.path.join(cx.repo, GEN), encoding="utf-8", errors="replace").read().split("\n")
    fns = sorted(ast.file(GEN)["_fns"], key=lambda f: f.line)
    n = 0
    for fi, f in enumerate(fns):
        attr = [e for e in f.events if e["k"] == "macro" and e.get("name") == "quote" and re.sub(r"\s+", "", e["text"]).startswith("#![")]
        if not attr: continue
        n += 1
        end = (fns[fi + 1].line - 1) if fi + 1 < len(fns) else len(src)
        text = "\n".join(src[f.line - 1:end])
        def first_emission(needle_re, bound_re):
            """offset where a piece of output is first put into the stream: the quote itself when it is an argument, else the first use of
            the name it is bound to (after the binding)"""
            m = re.search(needle_re, text)
            if not m: return None
            # is the quote the initialiser of a `let NAME = ...;`? then its emission is the first later use of NAME
            head = text[:m.start()]
            lm = list(re.finditer(r"\blet\s+(?:mut\s+)?(\w+)\s*(?::[^=;]+)?=\s*(?![=])", head))
            if lm and ";" not in head[lm[-1].end():]:
                name = lm[-1].group(1)
                stmt_end = text.find(";", m.end())
                # the statement may contain nested `;` inside the quote: take the `;` that closes the let at bracket depth 0
                depth = 0; i = lm[-1].end()
                while i < len(text):
                    ch = text[i]
                    if ch in "([{": depth += 1
                    elif ch in ")]}": depth -= 1
                    elif ch == ";" and depth == 0: stmt_end = i; break
                    i += 1
                u = re.search(r"\b%s\b" % re.escape(name), text[stmt_end:])
                return (stmt_end + u.start()) if u else None
            return m.start()
        a = first_emission(r"#!\s*\[", None)
        imp = first_emission(r"quote!\s*\(\s*use\s", None)
        # the preamble: first mention inside this function (or, when a helper builds the header, inside it)
        pm = re.search(r"\.\s*preamble\b", text)
        pre = pm.start() if pm else None
        why = []
        if a is None: why.append("cannot locate where the inner attributes are emitted")
        else:
            if imp is not None and imp < a: why.append("the imports are emitted before the `#![..]` attributes")
            if pre is not None and pre < a: why.append("the user preamble is emitted before the `#![..]` attributes: with --tosource and a preamble that contains an item the generated file does not compile")
        cx.check(not why, "C09.R7", "gen:%s:inner-attributes-first" % f.qual, "%s:%d" % (GEN, f.line), "; ".join(why), note_ok="#![..] first, then imports, then preamble")
    cx.floor("C09.R7", "functions emitting inner attributes", n, 1)
