"""C03 — calls are routed by interface name; the service interface tells the truth."""
import re
from vlib.cfg import Cfg, DefUse, Slice, ref_chain, forward_taint, NO_INDEX_PASS, const_strings
from vlib.cond import switch_cond, bool_edges, variant_edge
from vlib.facts import AnchorMissing
from . import handle_common as hc
from .replies import proxies

LAST = ("rfind", "rsplit_once", "rsplitn", "rsplit")
FIRST = ("find", "split_once", "splitn", "split")
SVC = "org.varlink.service"


def run(cx):
    cx.rule("C03.R1", "split at the last dot: handle() finds the separator with a last-occurrence search for '.', the dispatch key is method[..n], and every request with a dot reaches the table dispatch (no side condition decides InterfaceNotFound before the lookup)")
    cx.rule("C03.R2", "sibling dispatchers agree: VarlinkService::call and call_upgraded test the literal org.varlink.service, then contains_key(key) and index the same map with the same key, else reply InterfaceNotFound naming the interface")
    cx.rule("C03.R3", "error payload provenance: MethodNotFound carries the whole method string, InterfaceNotFound carries the interface part (the whole method when it has no dot)")
    cx.rule("C03.R4", "built-in service: GetInfo replies the configured info; GetInterfaceDescription answers with the named interface's own description, InvalidParameter for unknown interfaces and for missing parameters; anything else MethodNotFound")
    cx.rule("C03.R5", "advertised list: org.varlink.service first, then exactly the keys of the map that call() consults")
    cx.rule("C03.R6", "generated dispatch equals the IDL: for every generated proxy the method strings matched in call() are <interface>.<Method> for exactly the methods of its own description, and get_name() is the description's interface name")
    r1(cx); r2(cx); r3(cx); r3_emitter(cx); r4(cx); r5(cx); r6(cx)


def r1(cx):
    h = hc.analyse_handle(cx)
    body, cfg, du = h.body, h.cfg, h.du
    sl = Slice(body, du)
    searches = [t for t in body.calls() if not t.callee.indirect and t.callee.name in LAST + FIRST and "str" in t.callee.path and any(a.is_const and (a.cint() == 46 or a.cstr() == ".") for a in t.args)]
    cx.check(len(searches) == 1 and searches[0].callee.name in LAST, "C03.R1", "varlink:handle:last-dot-search", "%s %s" % (searches[0].sp if searches else body.sp, body.path),
             "the interface/method separator is found with %s: `a.b.Method` must be split at the LAST dot" % [t.callee.name for t in searches],
             note_ok="%s('.')" % (searches[0].callee.name if searches else "?"))
    if len(searches) != 1: return
    srch = searches[0]
    disp = [t for t in h.dispatch if t.callee.resolved.endswith("VarlinkService::call")]
    if len(disp) != 1: raise AnchorMissing("handle: table dispatch call")
    d = disp[0]
    # the dispatch key: String::from(&method[..n]) with n from the search
    sln = Slice(body, du, pass_through=NO_INDEX_PASS)
    idx = [o for k, o in sln.origins(d.args[1]) if k == "call" and o.callee.name == "index"]
    okk = False; why = "dispatch key is not a slice of the method string"
    if idx:
        ix = idx[0]
        rorig = sln.origins(ix.args[1], follow_agg=True)
        from_search = any(k == "call" and o is srch for k, o in rorig)
        through = [s for s in getattr(sln, "last_through", []) if hasattr(s, "agg") and isinstance(getattr(s, "agg", None), dict)]
        kinds = {s.agg.get("adt", "").split("::")[-1] for s in through}
        # the sliced string is the same one that was searched
        same = {str(o) for k, o in sln.origins(ix.args[0])} == {str(o) for k, o in sln.origins(srch.args[0])}
        okk = from_search and ("RangeTo" in kinds) and not any(k == "bin" for k, o in rorig) and same
        why = "slice bounds %s derive from the search: %s, same string: %s (expected method[..n] with n the position of the last dot, unmodified)" % (sorted(kinds), from_search, same)
    if not okk and srch.callee.name == "rsplit_once":
        # `let Some((iface, _)) = method.rsplit_once('.')`: the key is the first element of the pair the search itself returns
        ks = Slice(body, du, extra_pass=("=to_string", "=to_owned", "=from", "=into", "=as_ref", "=as_str", "=deref", "=borrow"))
        orig = ks.origins(d.args[1])
        if orig and all(k == "call" and o is srch for k, o in orig):
            projs = [proj for (l, proj) in ks.last_seen if l == srch.dest.l and proj]
            firsts = [pr for pr in projs if pr[-1] == ".0" and any(e.startswith("as Some") for e in pr) and len([e for e in pr if e.startswith(".")]) >= 2]
            seconds = [pr for pr in projs if pr[-1] == ".1"]
            okk = bool(firsts) and not seconds
            why = "the dispatch key is not the first element (the part before the last dot) of rsplit_once('.') (%s)" % projs
    cx.check(okk, "C03.R1", "varlink:handle:key-is-prefix-before-last-dot", "%s %s" % (d.sp, body.path), why, note_ok="key = method[..rfind('.')]" if srch.callee.name != "rsplit_once" else "key = rsplit_once('.').0")
    # every request with a dot reaches the table dispatch
    some_edge = None
    for b in sorted(cfg.reach(srch.target)):
        t = body.blocks[b].term
        if t.kind == "switch":
            c = switch_cond(body, du, t)
            if c.kind == "discr" and c.place.l == srch.dest.l: some_edge = variant_edge(t, 1); break
    ru = {t.bb for t in h.read_untils}
    good = some_edge is not None and cfg.must_pass(some_edge[2], list(ru) + cfg.returns(), {d.bb})
    cx.check(good, "C03.R1", "varlink:handle:dotted-method-reaches-lookup", "%s %s" % (srch.sp, body.path),
             "a request whose method contains a dot can be answered (or dropped) without consulting the interface table: some registered interface names become unreachable",
             note_ok="Some(n) -> ... -> VarlinkService::call on every path")
    # flags/parameters unchanged: the Call handed to the dispatch wraps the parsed request itself
    cn = [t for t in h.call_news if d.bb in cfg.reach(t.target)]
    okr = False
    for t in cn:
        o = sl.origins(t.args[1])
        if any(k == "call" and x is h.from_slice for k, x in Slice(body, du, extra_pass=("=branch", "=map_err")).origins(t.args[1])): okr = True
    hc.check_request_immutable(cx, "C03.R1", h)
    cx.check(okr, "C03.R1", "varlink:handle:request-unchanged", "%s %s" % (d.sp, body.path), "the Call given to the interface does not wrap the request as parsed", note_ok="Call::new(writer, &req) with req = from_slice(message)")


def dispatcher_skeleton(cx, path, delegate):
    body = cx.mir.one("varlink", path)
    cx.saw(body)
    cfg = Cfg(body); du = DefUse(body); sl = Slice(body, du, pass_through=NO_INDEX_PASS)
    out = {}
    from vlib.cfg import const_strings
    _slc = Slice(body, du)
    eqs = [t for t in body.calls("=eq", "=ne") if any((a.is_const and a.cstr() == SVC) or (not a.is_const and SVC in const_strings(body, _slc, a)) for a in t.args)]
    out["literal"] = len(eqs) == 1 and any(k == "arg" and o == 2 for a in eqs[0].args for k, o in sl.origins(a))
    ck = body.calls("=contains_key"); ix = [t for t in body.calls("=index") if "HashMap" in t.callee.resolved]
    def field_of(t):
        f = []
        for l in ref_chain(du, t.args[0].place.l):
            for k, d in du.defs.get(l, []):
                if k == "stmt" and d.rplace is not None: f += d.rplace.fields()
        return f
    def key_arg(t):
        return {o for k, o in sl.origins(t.args[1]) if k == "arg"}
    gt = [t for t in body.calls("=get") if "HashMap" in t.callee.resolved]
    if not ck and not ix and len(gt) == 1:
        # the other exact-key spelling: match self.ifaces.get(key) { Some(i) => i.<delegate>(..), None => not found }
        g = gt[0]
        slm = Slice(body, du, pass_through=NO_INDEX_PASS, extra_pass=("=map", "=copied", "=cloned", "=as_deref", "=as_mut"))
        out["lookup"] = "ifaces" in field_of(g) and key_arg(g) == {2}
        ok_guard = ok_else = False
        dl = [t for t in body.calls("=" + delegate)]
        builtin = [t for t in dl if "VarlinkService" in t.callee.resolved]
        registered = [t for t in dl if t not in builtin]
        for b in body.blocks:
            if b.cleanup or b.term.kind != "switch": continue
            c = switch_cond(body, du, b.term)
            if c.kind == "discr" and any(k == "call" and o is g for k, o in slm.origins(c.place)):
                some = variant_edge(b.term, 1); none = variant_edge(b.term, 0)
                g_ok = bool(registered) and all(cfg.edge_dominates(some, t.bb) for t in registered)
                nf = [t for t in body.calls("=reply_interface_not_found")]
                e_ok = len(nf) == 1 and cfg.edge_dominates(none, nf[0].bb) and any(k == "arg" and o == 2 for k, o in Slice(body, du, extra_pass=("=into",)).origins(nf[0].args[1]))
                # the lookup result may be tested more than once on the way (a combinator written out in the view and the match on
                # its result): the one that decides both exits is the routing decision
                if (g_ok and e_ok) or not (ok_guard and ok_else): ok_guard, ok_else = g_ok, e_ok
        out["index-guarded"] = ok_guard; out["else-not-found-names-iface"] = ok_else
        out["delegates"] = len(builtin) == 1 and len(registered) == 1 and any(k == "call" and o is g for k, o in slm.origins(registered[0].args[0]))
        return body, out
    out["lookup"] = len(ck) == 1 and len(ix) == 1 and "ifaces" in field_of(ck[0]) and "ifaces" in field_of(ix[0]) and key_arg(ck[0]) == key_arg(ix[0]) == {2}
    # index only behind contains_key == true; the delegate is called on the indexed interface
    ok_guard = False; ok_else = False
    if out["lookup"]:
        for b in body.blocks:
            if b.cleanup or b.term.kind != "switch": continue
            c = switch_cond(body, du, b.term)
            if c.kind == "call" and c.term is ck[0]:
                te, fe = bool_edges(b.term, c)
                ok_guard = cfg.edge_dominates(te, ix[0].bb)
                nf = [t for t in body.calls("=reply_interface_not_found")]
                ok_else = len(nf) == 1 and cfg.edge_dominates(fe, nf[0].bb) and any(k == "arg" and o == 2 for k, o in Slice(body, du, extra_pass=("=into",)).origins(nf[0].args[1]))
    out["index-guarded"] = ok_guard; out["else-not-found-names-iface"] = ok_else
    dl = [t for t in body.calls("=" + delegate)]
    builtin = [t for t in dl if "VarlinkService" in t.callee.resolved]
    registered = [t for t in dl if t not in builtin]
    out["delegates"] = len(builtin) == 1 and len(registered) == 1 and bool(ix) and any(k == "call" and o is ix[0] for k, o in sl.origins(registered[0].args[0]))
    return body, out


def r2(cx):
    for path, delegate in (("VarlinkService::call", "call"), ("VarlinkService::call_upgraded", "call_upgraded")):
        body, sk = dispatcher_skeleton(cx, path, delegate)
        for k, v in sk.items():
            cx.check(v, "C03.R2", "varlink:%s:%s" % (path, k), body.sp, "dispatcher %s deviates from the routing skeleton at '%s'" % (path, k), note_ok=k)


def method_whole(body, du, op, req_types=("Request",)):
    """does the operand derive from the WHOLE Request.method (no slicing in between)"""
    sl = Slice(body, du, extra_pass=("=from", "=to_string", "=into", "=as_ref", "=to_owned"))
    orig = sl.origins(op)
    through = getattr(sl, "last_through", [])
    sliced = any(hasattr(t, "callee") and t.callee.name == "index" for t in through) or any(k == "call" and o.callee.name in ("index", "get", "split_at") for k, o in orig)
    return orig, sliced


def r3(cx):
    n = 0
    # built-in + generated proxies: reply_method_not_found(<whole method>)
    targets = [cx.mir.one("varlink", "<VarlinkService as Interface>::call")] + proxies(cx)
    for body in targets:
        cx.saw(body)
        du = DefUse(body)
        for i, t in enumerate(body.calls("=reply_method_not_found")):
            n += 1
            orig, sliced = method_whole(body, du, t.args[1])
            # the value must come from the request's method member
            reads_method = False
            sl = Slice(body, du, extra_pass=("=from", "=to_string", "=into", "=as_ref", "=to_owned"))
            for th in [x for x in getattr(sl, "last_through", [])]:
                pass
            for s in body.stmts():
                if s.kind == "assign":
                    for p in ([s.rplace] if s.rplace is not None else []) + [o.place for o in s.ops if o.place is not None]:
                        if p.fields()[-1:] == ["method"]: reads_method = True
            lit = [o.cstr() for k, o in orig if k == "const" and o.cstr()]
            cx.check(reads_method and not sliced and not lit, "C03.R3", "%s:%s:method_not_found#%d" % (body.pkg, body.path, i), "%s %s" % (t.sp, body.path),
                     "MethodNotFound does not name the full method string of the request (sliced: %s, literal: %s)" % (sliced, lit), note_ok="names request.method unmodified")
    cx.floor("C03.R3", "reply_method_not_found sites (built-in + generated)", n, 7)
    # handle(): no-dot branch names the whole method
    h = hc.analyse_handle(cx)
    nf = [t for t in h.body.calls("=reply_interface_not_found")]
    cx.floor("C03.R3", "reply_interface_not_found sites in handle()", len(nf), 1)
    for i, t in enumerate(nf):
        orig, sliced = method_whole(h.body, h.du, t.args[1])
        cx.check(not sliced and not [o for k, o in orig if k == "const" and o.cstr()], "C03.R3", "varlink:handle:interface_not_found#%d" % i, "%s %s" % (t.sp, h.body.path),
                 "the no-dot branch does not name the whole method string", note_ok="names the whole method string")


def r3_emitter(cx):
    """the emitter itself passes what it is given on: in Call::reply_interface_not_found a `Some(name)` argument always ends up in the
    ErrorInterfaceNotFound payload (no filter, no condition on the text)"""
    cands = [b for b in cx.mir.bodies("varlink") if b.promoted is None and b.path.endswith("Call::<'a>::reply_interface_not_found") or (b.promoted is None and b.path.endswith("::reply_interface_not_found") and "Call" in b.path and b.kind != "Closure")]
    if len(cands) != 1: raise AnchorMissing("Call::reply_interface_not_found (%d)" % len(cands))
    body = cands[0]; cx.saw(body)
    cfg = Cfg(body); du = DefUse(body)
    built = {s.bb for s in body.stmts() if s.kind == "assign" and s.rv == "agg" and isinstance(s.agg, dict) and s.agg.get("adt", "").split("::")[-1] == "ErrorInterfaceNotFound"}
    some = None
    sl = Slice(body, du)
    for b in body.blocks:
        if b.cleanup or b.term.kind != "switch": continue
        c = switch_cond(body, du, b.term)
        if c.kind == "discr" and "Option" in body.ty(c.place.l) and any(k == "arg" and o == 2 for k, o in sl.origins(c.place)) and not [k for k, o in sl.origins(c.place) if k == "call"]:
            some = variant_edge(b.term, 1); break
    if not built:
        # built inside a closure handed to a combinator the view does not write out (map_or_else with two closures): not decided here
        inner = [b for b in body.unit.bodies if b.promoted is None and b.kind == "Closure" and (b.path + "::").startswith(body.path + "::")
                 and any(s.kind == "assign" and s.rv == "agg" and isinstance(s.agg, dict) and s.agg.get("adt", "").split("::")[-1] == "ErrorInterfaceNotFound" for s in b.stmts())]
        if inner and not body.calls("=filter", "=take_if", "=and_then", "=then", "=then_some"):
            cx.note("C03.R3", "varlink:reply_interface_not_found:names-what-it-is-given", body.sp, "payload built in %s, handed to %s: not decided (no filter on the way)" % (inner[0].path.split("::")[-1], sorted({t.callee.name for t in body.calls() if not t.callee.indirect and t.callee.name.startswith("map")})))
            return
    good = bool(built) and some is not None and cfg.must_pass_after(some, cfg.returns(), built)
    # a reply that went out without the payload although a name was given
    cx.check(good, "C03.R3", "varlink:reply_interface_not_found:names-what-it-is-given", body.sp,
             "a `Some(interface)` argument does not always reach the ErrorInterfaceNotFound payload (it is filtered or dropped on some path): the error then no longer names the interface",
             note_ok="Some(name) -> ErrorInterfaceNotFound{interface: Some(name)} on every path")


def r4(cx):
    body = cx.mir.one("varlink", "<VarlinkService as Interface>::call")
    cx.saw(body)
    cfg = Cfg(body); du = DefUse(body); sl = Slice(body, du, pass_through=NO_INDEX_PASS)
    eqs = [(t, sorted({c for a in t.args for c in const_strings(body, sl, a)})) for t in body.calls("=eq")]
    names = sorted({c for _, cs in eqs for c in cs})
    want = sorted([SVC + ".GetInfo", SVC + ".GetInterfaceDescription", SVC])
    cx.check(names == want, "C03.R4", "varlink:builtin:method-literals", body.sp, "the built-in interface compares against %s (expected %s)" % (names, want), note_ok="GetInfo, GetInterfaceDescription, org.varlink.service")
    def edge_of(lit):
        for t, cs in eqs:
            if cs == [lit]:
                for b in body.blocks:
                    if b.cleanup or b.term.kind != "switch": continue
                    c = switch_cond(body, du, b.term)
                    if c.kind == "call" and c.term is t: return bool_edges(b.term, c)
        return None
    # GetInfo -> reply_parameters(to_value(&self.info))
    e = None
    for t, cs in eqs:
        if cs == [SVC + ".GetInfo"]:
            for b in body.blocks:
                if b.cleanup or b.term.kind != "switch": continue
                c = switch_cond(body, du, b.term)
                if c.kind == "call" and c.term is t: e = bool_edges(b.term, c)
    rp = body.calls("=reply_parameters")
    okg = False
    if e:
        r = cfg.after(e[0])
        tv = [t for t in body.calls("=to_value") if t.bb in r]
        for t in tv:
            f = []
            for l in ref_chain(du, t.args[0].place.l):
                for k, d in du.defs.get(l, []):
                    if k == "stmt" and d.rplace is not None: f += d.rplace.fields()
            if "info" in f and any(x.bb in cfg.reach(t.target) and any(kk == "call" and oo is t for kk, oo in Slice(body, du, extra_pass=("=branch", "=map_err")).origins(x.args[1])) for x in rp): okg = True
    cx.check(okg, "C03.R4", "varlink:builtin:GetInfo", body.sp, "GetInfo does not reply serde_json::to_value(&self.info)", note_ok="reply_parameters(to_value(&self.info))")
    # GetInterfaceDescription arms
    gd = [t for t in body.calls("=get_description")]
    ck = body.calls("=contains_key"); ix = [t for t in body.calls("=index") if "HashMap" in t.callee.resolved]
    inv = body.calls("=reply_invalid_parameter")
    mnf = body.calls("=reply_method_not_found")
    own = [t for t in gd if "VarlinkService" in t.callee.resolved]
    reg = [t for t in gd if t not in own]
    why = []
    gt = [t for t in body.calls("=get") if "HashMap" in t.callee.resolved]
    get_form = not ck and not ix and len(gt) == 1
    if get_form:
        # `self.ifaces.get(key)` (possibly `.map(|i| i.get_description())`): Some -> that interface's text, None -> InvalidParameter("interface")
        clos = [x for x in body.unit.bodies if x.promoted is None and x.parent in ([body.path] + [p for p, _ in getattr(body, "inlined", [])])]
        spliced = {d[0] for d in getattr(body, "desugared", [])}        # closures already written out in the view
        reg = reg + [t for c in clos if c.path not in spliced for t in c.calls("=get_description") if "VarlinkService" not in t.callee.resolved]
        g = gt[0]
        f = []
        for l in ref_chain(du, g.args[0].place.l):
            for k, d in du.defs.get(l, []):
                if k == "stmt" and d.rplace is not None: f += d.rplace.fields()
        if "ifaces" not in f: why.append("the lookup is not on the interface table")
        ok_none = False
        slp = Slice(body, du, extra_pass=("=map", "=cloned", "=copied", "=as_deref"))
        for b in body.blocks:
            if b.cleanup or b.term.kind != "switch": continue
            c = switch_cond(body, du, b.term)
            if c.kind == "discr" and c.place is not None and not c.place.p and any(k == "call" and o is g for k, o in slp.origins(c.place)):
                none = variant_edge(b.term, 0)
                for x in inv:
                    l2 = [o.cstr() for k, o in Slice(body, du, extra_pass=("=into", "=from", "=to_string")).origins(x.args[1]) if k == "const" and o.cstr()]
                    if l2 == ["interface"] and x.bb in cfg.after(none) and x.bb not in cfg.after(variant_edge(b.term, 1)): ok_none = True
        if not ok_none: why.append("an interface that is not registered is not answered with InvalidParameter(\"interface\")")
        if len(body.calls("=from_value")) != 1: why.append("parameters are not deserialised once")
    if len(own) != 1 or len(reg) != 1: why.append("descriptions come from %d own / %d registered get_description calls" % (len(own), len(reg)))
    if get_form: pass
    elif len(ck) != 1 or len(ix) != 1: why.append("lookup is not contains_key + index")
    else:
        k1 = {(k, str(o)) for k, o in sl.origins(ck[0].args[1])}; k2 = {(k, str(o)) for k, o in sl.origins(ix[0].args[1])}
        if k1 != k2: why.append("contains_key and index use different keys")
        if reg and not any(k == "call" and o is ix[0] for k, o in sl.origins(reg[0].args[0])): why.append("the description returned is not the indexed interface's")
        for b in body.blocks:
            if b.cleanup or b.term.kind != "switch": continue
            c = switch_cond(body, du, b.term)
            if c.kind == "call" and c.term is ck[0]:
                te, fe = bool_edges(b.term, c)
                if not cfg.edge_dominates(te, ix[0].bb): why.append("index not guarded by contains_key")
                if not any(cfg.edge_dominates(fe, x.bb) for x in inv): why.append("unknown interface is not answered with InvalidParameter")
        # the key is the `interface` member of the deserialised arguments
        kf = []
        for k, o in sl.origins(ck[0].args[1]):
            pass
        fv = body.calls("=from_value")
        if len(fv) != 1: why.append("parameters are not deserialised once")
    if len(inv) < 2: why.append("fewer than two InvalidParameter replies (unknown interface, missing parameters)")
    lits = sorted(o.cstr() for t in inv for k, o in Slice(body, du, extra_pass=("=into", "=from", "=to_string")).origins(t.args[1]) if k == "const" and o.cstr())
    if lits != ["interface", "parameters"]: why.append("InvalidParameter names %s (expected 'interface' and 'parameters')" % lits)
    if len(mnf) != 1: why.append("MethodNotFound fallback missing")
    cx.check(not why, "C03.R4", "varlink:builtin:GetInterfaceDescription", body.sp, "; ".join(why), note_ok="own text | ifaces[key].get_description() behind contains_key | InvalidParameter(interface) | InvalidParameter(parameters); else MethodNotFound")
    # get_name / description text of the built-in interface
    gn = cx.mir.one("varlink", "<VarlinkService as Interface>::get_name")
    lit = [s.ops[0].cstr() for s in gn.stmts() if s.kind == "assign" and s.ops and s.ops[0].is_const and s.ops[0].cstr()]
    cx.check(lit == [SVC], "C03.R4", "varlink:builtin:get_name", gn.sp, "get_name returns %s" % lit, note_ok=SVC)


def r5(cx):
    body = cx.mir.one("varlink", "VarlinkService::new")
    cx.saw(body)
    cfg = Cfg(body); du = DefUse(body); sl = Slice(body, du)
    aggs = [s for s in body.stmts() if s.kind == "assign" and s.rv == "agg" and isinstance(s.agg, dict) and s.agg.get("adt", "").split("::")[-1] == "VarlinkService"]
    infos = [s for s in body.stmts() if s.kind == "assign" and s.rv == "agg" and isinstance(s.agg, dict) and s.agg.get("adt", "").split("::")[-1] == "ServiceInfo"]
    if len(aggs) != 1 or len(infos) != 1: raise AnchorMissing("VarlinkService::new: aggregates")
    map_local = ref_chain(du, aggs[0].ops[1].place.l)[-1]
    list_local = ref_chain(du, infos[0].ops[4].place.l)[-1]
    why = []
    # everything that is added to the list
    adds = [t for t in body.calls("=extend", "=push", "=insert", "=append", "=extend_from_slice") if "Vec" in t.callee.resolved and list_local in ref_chain(du, t.args[0].place.l)]
    ext = [t for t in adds if t.callee.name == "extend"]
    others = [t for t in adds if t.callee.name != "extend"]
    coll = [d for k, d in du.value_defs(list_local) if k == "call" and d.callee.name == "collect"]
    if not adds and len(coll) == 1:
        # iterator spelling: once(<service name>).chain(map.keys().cloned()).collect()
        slc = Slice(body, du, extra_pass=("=cloned", "=copied", "=map", "=into_iter", "=iter", "=chain", "=once", "=collect"))
        src = slc.origins(coll[0].args[0])
        keys = [o for k, o in src if k == "call" and o.callee.name == "keys"]
        thr = [getattr(x, "callee", None) for x in getattr(slc, "last_through", [])]
        dropping = sorted({c.name for c in thr if c is not None and c.name in ("filter", "filter_map", "skip", "take", "skip_while", "take_while", "step_by")} |
                          {o.callee.name for k, o in src if k == "call" and o.callee.name in ("filter", "filter_map", "skip", "take", "skip_while", "take_while", "step_by", "rev")})
        if len(keys) != 1 or map_local not in ref_chain(du, keys[0].args[0].place.l): why.append("the names collected are not the keys of the map stored as `ifaces`")
        if dropping: why.append("the key list passes %s: registered interfaces can be missing from the advertised list" % dropping)
        ins = [t for t in body.calls("=insert") if "HashMap" in t.callee.resolved]
        if not ins or any(t.bb in cfg.reach(coll[0].target) for t in ins): why.append("interfaces are inserted after the key list was taken")
    elif len(ext) != 1 or others: why.append("the advertised list is built by %s (expected one extend over the map's keys)" % [t.callee.name for t in adds])
    else:
        src = Slice(body, du, extra_pass=("=cloned", "=copied", "=map", "=into_iter", "=iter")).origins(ext[0].args[1])
        keys = [o for k, o in src if k == "call" and o.callee.name == "keys"]
        if len(keys) != 1 or map_local not in ref_chain(du, keys[0].args[0].place.l): why.append("the names appended are not the keys of the map stored as `ifaces`")
        # the map is complete before its keys are read
        ins = [t for t in body.calls("=insert") if "HashMap" in t.callee.resolved]
        if not ins or any(t.bb in cfg.reach(ext[0].target) for t in ins): why.append("interfaces are inserted after the key list was taken")
    # first element literal
    first = [o.cstr() for s in body.stmts() if s.kind == "assign" and s.rv == "agg" and s.agg == "array" for o in []]
    lits = [c for t in body.calls("=into", "=once", "=from") for a in t.args for c in const_strings(body, sl, a)]
    if SVC not in lits: why.append("org.varlink.service is not the seed element of the list")
    # interface table keyed by get_name()
    ins = [t for t in body.calls("=insert") if "HashMap" in t.callee.resolved]
    if len(ins) != 1 or not any(k == "call" and o.callee.name == "get_name" for k, o in Slice(body, du, extra_pass=("=into",)).origins(ins[0].args[1])): why.append("interfaces are not registered under their get_name()")
    cx.check(not why, "C03.R5", "varlink:VarlinkService::new:advertised-equals-routable", body.sp, "; ".join(why),
             note_ok="interfaces = [org.varlink.service] + keys(ifaces) ; ifaces keyed by get_name()")
    # the four info strings are stored as given
    o = infos[0].ops
    okf = all(any(k == "arg" and v == i + 1 for k, v in Slice(body, du, extra_pass=("=into",)).origins(o[i])) for i in range(4))
    cx.check(okf, "C03.R5", "varlink:VarlinkService::new:info-fields", body.sp, "vendor/product/version/url are not stored from the corresponding arguments", note_ok="vendor, product, version, url <- arguments 1..4")


def r6(cx):
    px = proxies(cx)
    cx.floor("C03.R6", "generated proxies", len(px), 6)
    for body in px:
        cx.saw(body)
        unit = body.unit
        sib = {b.path: b for b in unit.bodies if b.promoted is None and b.impl_self == body.impl_self and b.impl_trait == body.impl_trait}
        gd = [b for p, b in sib.items() if p.endswith("::get_description")]
        gn = [b for p, b in sib.items() if p.endswith("::get_name")]
        key = "%s:%s" % (body.pkg, body.impl_self)
        if len(gd) != 1 or len(gn) != 1:
            cx.bad("C03.R6", key + ":siblings", body.sp, "get_description/get_name of the proxy not found"); continue
        desc = [s.ops[0].cstr() for s in gd[0].stmts() if s.kind == "assign" and s.ops and s.ops[0].is_const and s.ops[0].cstr()]
        name = [s.ops[0].cstr() for s in gn[0].stmts() if s.kind == "assign" and s.ops and s.ops[0].is_const and s.ops[0].cstr()]
        if len(desc) != 1 or len(name) != 1:
            cx.bad("C03.R6", key + ":constants", body.sp, "description/name are not single string constants"); continue
        m = re.search(r"(?m)^\s*interface\s+([A-Za-z0-9.\-]+)", desc[0])
        iname = m.group(1) if m else None
        methods = re.findall(r"(?m)^\s*method\s+([A-Z][A-Za-z0-9]*)\s*\(", desc[0])
        want = sorted(iname + "." + x for x in methods) if iname else []
        got = sorted({a.cstr() for t in body.calls("=eq") for a in t.args if a.is_const and a.cstr()})
        cx.check(iname == name[0], "C03.R6", key + ":name", gn[0].sp, "get_name() is %r but the description declares interface %r" % (name[0], iname), note_ok="get_name == %s" % iname)
        cx.check(got == want and bool(want), "C03.R6", key + ":dispatch-table", body.sp,
                 "dispatch arms %s differ from the description's methods %s" % (got, want), note_ok="%d arms = %d declared methods" % (len(got), len(want)))
