"""Shared structural analysis of the client call object: MethodCall::{send, recv, more}, Iterator::next (C05, C07)."""
from vlib.cfg import Cfg, DefUse, Slice, ref_chain
from vlib.cond import switch_cond, bool_edges, variant_edge
from vlib.facts import AnchorMissing

MC = "MethodCall::<MRequestParameters, MReply, MError>::"


class Fn:
    def __init__(self, cx, path, exact=True):
        self.body = cx.mir.one("varlink", path, exact=exact)
        cx.saw(self.body)
        self.cfg = Cfg(self.body); self.du = DefUse(self.body); self.sl = Slice(self.body, self.du)


def field_assigns(body, field, ty_part, self_only=None):
    """assignments to a place with last field `field` whose base local's type contains ty_part"""
    out = []
    for b in body.blocks:
        if b.cleanup: continue
        for s in b.stmts:
            if s.kind == "assign" and s.lhs.p and s.lhs.fields()[-1:] == [field] and ty_part in body.ty(s.lhs.l):
                out.append(s)
    return out


def takes_of(fn, field, ty_part):
    """Option::take calls on <base>.field where base local type contains ty_part"""
    out = []
    for t in fn.body.calls("=take"):
        if not t.args or t.args[0].place is None: continue
        for l in ref_chain(fn.du, t.args[0].place.l):
            for k, d in fn.du.defs.get(l, []):
                if k == "stmt" and d.kind == "assign" and d.rplace is not None and d.rplace.fields()[-1:] == [field] and ty_part in fn.body.ty(d.rplace.l):
                    out.append(t)
    return out


def none_checks(fn, field, ty_part):
    """(switch term, cond) for is_none()/is_some() tests on <base>.field"""
    out = []
    for b in fn.body.blocks:
        if b.cleanup or b.term.kind != "switch": continue
        c = switch_cond(fn.body, fn.du, b.term)
        if c.kind == "call" and c.term.callee.name in ("is_none", "is_some") and c.term.args and c.term.args[0].place is not None:
            for l in ref_chain(fn.du, c.term.args[0].place.l):
                for k, d in fn.du.defs.get(l, []):
                    if k == "stmt" and d.kind == "assign" and d.rplace is not None and d.rplace.fields()[-1:] == [field] and ty_part in fn.body.ty(d.rplace.l):
                        out.append((b.term, c))
    return out


def absent_edge(term, c):
    te, fe = bool_edges(term, c)
    return te if c.term.callee.name == "is_none" else fe


def present_edge(term, c):
    te, fe = bool_edges(term, c)
    return fe if c.term.callee.name == "is_none" else te


def try_ok_edge(fn, call):
    """the Continue edge of the `?` applied (possibly after map_err) to the result of `call`"""
    for t in fn.body.calls("=branch"):
        if any(k == "call" and o is call for k, o in fn.sl.origins(t.args[0])):
            sw = fn.body.blocks[t.target].term
            if sw.kind == "switch": return variant_edge(sw, 0), variant_edge(sw, 1)
    return None, None


def err_variant_blocks(body, variant):
    return [s.bb for s in body.stmts() if s.kind == "assign" and s.rv == "agg" and isinstance(s.agg, dict) and s.agg.get("variant") == variant]


def ok_return_blocks(body):
    return [s.bb for s in body.stmts() if s.kind == "assign" and s.lhs.l == 0 and not s.lhs.p and s.rv == "agg" and isinstance(s.agg, dict) and s.agg.get("variant") == "Ok"]


def lock_acquisitions(fn):
    return [t for t in fn.body.calls("=write", "=read", "=lock", "=try_write", "=try_read", "=try_lock") if "RwLock" in t.callee.path or "Mutex" in t.callee.path]


# ------------------------------------------------------------------------------------------------
def check_recv_protocol(cx, rule, prefix):
    """iterator/slot protocol of recv(): used as C05.R2 and C07.R3"""
    f = Fn(cx, MC + "recv")
    body, cfg, du = f.body, f.cfg, f.du
    site = body.sp
    fs = body.calls("serde_json::from_slice")
    if len(fs) != 1: raise AnchorMissing("recv: from_slice")
    ok_edge, err_edge = try_ok_edge(f, fs[0])
    if ok_edge is None: raise AnchorMissing("recv: `?` on from_slice")
    rets = cfg.returns()
    from vlib.cfg import enumerate_paths
    ca = field_assigns(body, "continues", "MethodCall")
    upd = {s.bb for s in ca}
    # the decision on reply.continues: Some(true) edges ("more") versus all others ("final")
    more_edges = set(); final_edges = set()
    for b in body.blocks:
        if b.cleanup or b.term.kind != "switch": continue
        c = switch_cond(body, du, b.term)
        if c.kind == "discr" and c.place.fields()[-1:] == ["continues"] and body.ty_is(c.place.l, "Reply"):
            some = variant_edge(b.term, 1)
            for lab, dst in cfg.succ[b.idx]:
                if (b.idx, lab, dst) != some: final_edges.add((b.idx, dst))
            # the payload test under Some(..); without one the Some edge decides nothing (Some(false) is a final reply too)
            for b2 in sorted(cfg.reach(some[2])):
                t2 = body.blocks[b2].term
                if t2.kind == "switch" and t2.discr.place is not None and "continues" in t2.discr.place.fields() and any(e.startswith("as Some") for e in t2.discr.place.p):
                    for lab, dst in cfg.succ[t2.bb]:
                        (final_edges if lab == 0 else more_edges).add((t2.bb, dst))
                    break
    # other spellings of the same decision: `reply.continues.unwrap_or(false)`, `reply.continues == Some(true)`,
    # or a test of self.continues after it was assigned from the reply
    def reads_reply_continues(term):
        for a in term.args:
            if a.place is None: continue
            for l in ref_chain(du, a.place.l):
                for k, d in du.defs.get(l, []):
                    if k == "stmt" and d.kind == "assign":
                        for pl in ([d.rplace] if d.rplace is not None else []) + [o.place for o in d.ops if o.place is not None]:
                            if pl.fields()[-1:] == ["continues"] and body.ty_is(pl.l, "Reply"): return True
            if a.place.fields()[-1:] == ["continues"] and body.ty_is(a.place.l, "Reply"): return True
        return False
    for b in body.blocks:
        if b.cleanup or b.term.kind != "switch": continue
        c = switch_cond(body, du, b.term)
        te = fe = None
        if c.kind == "call" and c.term.callee.name in ("unwrap_or", "eq", "ne", "unwrap_or_default", "is_some_and", "contains") and reads_reply_continues(c.term):
            te, fe = bool_edges(b.term, c)
            if c.term.callee.name == "ne": te, fe = fe, te
        elif c.kind == "field" and c.place.fields()[-1:] == ["continues"] and "MethodCall" in body.ty(c.place.l) and any(cfg.dominates(s.bb, b.idx) for s in ca):
            te, fe = bool_edges(b.term, c)
        if te is not None:
            more_edges.add((te[0], te[2])); final_edges.add((fe[0], fe[2]))
    if not more_edges and not final_edges: raise AnchorMissing("recv: no decision on reply.continues at all")
    hb_r = field_assigns(body, "reader", "Connection"); hb_w = field_assigns(body, "writer", "Connection")
    locks = lock_acquisitions(f)
    limit = []
    paths = enumerate_paths(cfg, ok_edge[2], lambda blk: blk.term.kind == "return", du=du, on_limit=lambda: limit.append(1))
    if limit: cx.bad(rule, prefix + ":recv:path-limit", site, "recv() has too many paths to enumerate")
    no_update = []; bad_true = []; bad_hand = []; undecided = []; nmore = nfinal = 0
    for p in paths:
        if body.blocks[p[-1]].term.kind != "return": continue
        edges = set(zip(p, p[1:]))
        is_more = bool(edges & more_edges); is_final = bool(edges & final_edges)
        if is_more and is_final: continue         # infeasible combination of two tests of the same value
        if not is_more and not is_final:
            undecided.append(p); continue
        nmore += is_more; nfinal += is_final
        sets = [s for s in ca if s.bb in p]
        if not sets: no_update.append(p); continue
        last = sets[-1]
        v = last.ops[0].cint() if last.ops and last.ops[0].is_const else None
        if v is not None and bool(v) != is_more: bad_true.append(p)
        if v is None:
            # computed value: must derive from the reply's continues member
            reads = False
            for k, o in f.sl.origins(last.ops[0]):
                if k in ("bin", "other", "call"): reads = True
            if not reads: bad_true.append(p)
        hr = any(s.bb in p for s in hb_r); hw = any(s.bb in p for s in hb_w)
        if is_final and not (hr and hw): bad_hand.append(("final reply but the stream is not handed back", p))
        if is_more and (hr or hw): bad_hand.append(("more replies expected but the stream is handed back", p))
    cx.check(not no_update and nmore and nfinal, rule, prefix + ":recv:continues-updated-on-every-exit", site,
             ("%d path(s) from a parsed reply to a return never update self.continues (e.g. the error return, blocks %s): the iterator keeps polling (or stops) on stale state" % (len(no_update), no_update[0][:18]))
             if no_update else "recv() has %d return path(s) deciding 'more replies follow' and %d deciding 'final reply' on the value of reply.continues: both outcomes must be distinguished (Some(false) and None are final, only Some(true) continues)" % (nmore, nfinal),
             note_ok="self.continues is set on all %d paths from the parse to a return" % (nmore + nfinal))
    cx.check(not bad_true, rule, prefix + ":recv:continues-true-iff-reply-says-so", site,
             "%d path(s) set self.continues to a value that disagrees with reply.continues == Some(true)" % len(bad_true), note_ok="true exactly for Some(true)")
    why = [w for w, _ in bad_hand[:2]]
    if undecided: why.append("%d path(s) return after a parsed reply without ever consulting reply.continues (blocks %s): on a final reply the stream is not handed back" % (len(undecided), undecided[0][:18]))
    if len(locks) != 1: why.append("%d lock acquisitions (expected one write lock covering both slots)" % len(locks))
    elif not all(cfg.dominates(locks[0].bb, s.bb) for s in hb_r + hb_w): why.append("hand-back outside the connection lock")
    tr = takes_of(f, "reader", "MethodCall"); tw = takes_of(f, "writer", "MethodCall")
    if not tr or not tw: why.append("hand-back does not move the call object's own reader/writer")
    cx.check(not why, rule, prefix + ":recv:slots-returned-on-final-reply", site, "; ".join(why) + " — the connection stays busy (or is shared) after the call",
             note_ok="final reply (%d paths): conn.reader/conn.writer = self.reader.take()/self.writer.take() under one write lock; untouched while continues (%d paths)" % (nfinal, nmore))
    # (iv) no slots -> IteratorOldReply, nothing read
    nr = none_checks(f, "reader", "MethodCall") + none_checks(f, "writer", "MethodCall")
    ru = body.calls("=read_until")
    old = err_variant_blocks(body, "IteratorOldReply")
    good = len(nr) >= 2 and bool(old) and bool(ru) and all(ru[0].bb not in cfg.reach(absent_edge(t, c)[2]) for t, c in nr)
    cx.check(good, rule, prefix + ":recv:old-reply-guard", site, "recv() on a call object that holds no stream does not fail before reading", note_ok="no reader/writer -> IteratorOldReply before any read")
    return f


def check_next(cx, rule, prefix):
    cands = [b for b in cx.mir.bodies("varlink") if b.promoted is None and b.path.endswith("::next") and "MethodCall" in (b.impl_self or "")]
    if len(cands) != 1: raise AnchorMissing("Iterator::next for MethodCall: %d" % len(cands))
    body = cands[0]; cx.saw(body)
    cfg = Cfg(body); du = DefUse(body)
    recvs = body.calls("=recv")
    sw = None
    for b in body.blocks:
        if b.cleanup or b.term.kind != "switch": continue
        c = switch_cond(body, du, b.term)
        if c.kind == "field" and "continues" in c.place.fields(): sw = (b.term, c)
        if c.kind in ("other", "multi") : pass
    good = False
    if sw and len(recvs) == 1:
        te, fe = bool_edges(*sw)
        nones = [s.bb for s in body.stmts() if s.kind == "assign" and s.lhs.l == 0 and s.rv == "agg" and isinstance(s.agg, dict) and s.agg.get("variant") == "None"]
        good = recvs[0].bb in cfg.reach(te[2]) and recvs[0].bb not in cfg.reach(fe[2]) and bool(nones) and all(n in cfg.reach(fe[2]) and n not in cfg.reach(te[2]) for n in nones)
    cx.check(good, rule, prefix + ":next:stops-when-not-continuing", body.sp,
             "Iterator::next does not return None exactly when self.continues is false (and recv() otherwise)", note_ok="continues ? Some(recv()) : None")
    # more(): continues = true, then send(false, true, false)
    m = Fn(cx, MC + "more")
    ca = field_assigns(m.body, "continues", "MethodCall")
    sends = m.body.calls("=send")
    flags = [a.cint() if a.is_const else None for a in sends[0].args[1:]] if sends else None
    good = len(ca) == 1 and ca[0].ops[0].is_const and ca[0].ops[0].cint() == 1 and len(sends) == 1 and flags == [0, 1, 0] and m.cfg.dominates(ca[0].bb, sends[0].bb)
    cx.check(good, rule, prefix + ":more:arms-the-iterator", m.body.sp, "more() must set continues = true and call send(oneway=false, more=true, upgrade=false) (flags %s)" % flags,
             note_ok="continues = true; send(false, true, false)")


def check_slot_writers(cx, rule, prefix):
    """who may put a stream back into the connection: only recv() (final reply), send() (oneway: the writer only) and the constructors"""
    allowed = {MC + "recv": {"reader", "writer"}, MC + "send": {"writer"}}
    n = 0
    for b in cx.mir.bodies("varlink"):
        if b.promoted is not None: continue
        hits = set()
        for s in b.stmts():
            if s.kind == "assign" and s.lhs.p and s.lhs.fields()[-1:] in (["reader"], ["writer"]) and "Connection" in b.ty(s.lhs.l) and "MethodCall" not in b.ty(s.lhs.l):
                hits.add(s.lhs.fields()[-1])
        if not hits: continue
        n += 1
        ok = b.path in allowed and hits <= allowed[b.path]
        cx.check(ok, rule, "%s:%s:assigns-Connection.%s" % (prefix, b.path, "+".join(sorted(hits))), b.sp,
                 "%s puts the %s back into the connection: only recv() on a final reply (and send() for the oneway writer) may do that — a stream handed back while replies are still outstanding lets another call read them" % (b.path, "/".join(sorted(hits))),
                 note_ok="allowed slot writer")
    cx.floor(rule, "functions assigning Connection.reader/writer", n, 2)
