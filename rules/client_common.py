"""Shared structural analysis of the client call object: MethodCall::{send, recv, more}, Iterator::next (C05, C07)."""
from vlib.cfg import Cfg, DefUse, Slice, ref_chain
from vlib.cond import switch_cond, bool_edges, variant_edge
from vlib.facts import AnchorMissing

MC = "MethodCall::<MRequestParameters, MReply, MError>::"


class Fn:
    def __init__(self, cx, path, exact=True):
        self.body = cx.mir.one("varlink", path, exact=exact)
        cx.saw(self.body)
        self.cfg = Cfg(self.body); self.du = DefUse(self.body); self.sl = Slice(self.body, self.du)


def field_assigns(body, field, ty_part, self_only=None):
    """assignments to a place with last field `field` whose base local's type contains ty_part"""
    out = []
    for b in body.blocks:
        if b.cleanup: continue
        for s in b.stmts:
            if s.kind == "assign" and s.lhs.p and s.lhs.fields()[-1:] == [field] and ty_part in body.ty(s.lhs.l):
                out.append(s)
    return out


def takes_of(fn, field, ty_part):
    """Option::take calls on <base>.field where base local type contains ty_part"""
    out = []
    for t in fn.body.calls("=take"):
        if not t.args or t.args[0].place is None: continue
        for l in ref_chain(fn.du, t.args[0].place.l):
            for k, d in fn.du.defs.get(l, []):
                if k == "stmt" and d.kind == "assign" and d.rplace is not None and d.rplace.fields()[-1:] == [field] and ty_part in fn.body.ty(d.rplace.l):
                    out.append(t)
    return out


def none_checks(fn, field, ty_part):
    """(switch term, cond) for is_none()/is_some() tests on <base>.field"""
    out = []
    for b in fn.body.blocks:
        if b.cleanup or b.term.kind != "switch": continue
        c = switch_cond(fn.body, fn.du, b.term)
        if c.kind == "call" and c.term.callee.name in ("is_none", "is_some") and c.term.args and c.term.args[0].place is not None:
            for l in ref_chain(fn.du, c.term.args[0].place.l):
                for k, d in fn.du.defs.get(l, []):
                    if k == "stmt" and d.kind == "assign" and d.rplace is not None and d.rplace.fields()[-1:] == [field] and ty_part in fn.body.ty(d.rplace.l):
                        out.append((b.term, c))
    return out


def absent_edge(term, c):
    te, fe = bool_edges(term, c)
    return te if c.term.callee.name == "is_none" else fe


def present_edge(term, c):
    te, fe = bool_edges(term, c)
    return fe if c.term.callee.name == "is_none" else te


def try_ok_edge(fn, call):
    """the Continue edge of the `?` applied (possibly after map_err) to the result of `call`"""
    from vlib.cfg import question_mark_edges
    return question_mark_edges(fn.body, fn.du, call)


def err_variant_blocks(body, variant):
    return [s.bb for s in body.stmts() if s.kind == "assign" and s.rv == "agg" and isinstance(s.agg, dict) and s.agg.get("variant") == variant]


def ok_return_blocks(body):
    """blocks building the Ok(..) that is returned (directly into _0 or into a local later moved into _0)"""
    tg = {0}
    ch = True
    while ch:
        ch = False
        for s in body.stmts():
            if s.kind == "assign" and not s.lhs.p and s.lhs.l in tg and s.rv == "use" and s.ops[0].place is not None and not s.ops[0].place.p and s.ops[0].place.l not in tg:
                tg.add(s.ops[0].place.l); ch = True
    return [s.bb for s in body.stmts() if s.kind == "assign" and s.lhs.l in tg and not s.lhs.p and s.rv == "agg" and isinstance(s.agg, dict) and s.agg.get("variant") == "Ok"]


def lock_acquisitions(fn):
    return [t for t in fn.body.calls("=write", "=read", "=lock", "=try_write", "=try_read", "=try_lock") if "RwLock" in t.callee.path or "Mutex" in t.callee.path]


# ------------------------------------------------------------------------------------------------
V3 = frozenset("NFT")

class ContinuesEval:
    """Abstract reading of `reply.continues` (Option<bool>) in one body: which of absent / Some(false) / Some(true) each
    branch edge admits, and which bool a derived value takes for each of the three."""
    def __init__(self, cx, body, du, cfg, reply_arg=None, depth=0):
        self.cx, self.body, self.du, self.cfg, self.depth = cx, body, du, cfg, depth
        self.reply_arg = reply_arg
        self.sl = Slice(body, du)
        self.valfn = {}        # id(call terminator) -> {N,F,T -> bool}
        self.constraints = {}  # (src, dst) -> allowed set
        self._calls()
        self._switches()

    def is_reply_local(self, l):
        if self.reply_arg is not None: return l == self.reply_arg
        return self.body.ty_is(l, "Reply")

    def is_cont_place(self, pl):
        return pl is not None and pl.fields()[-1:] == ["continues"] and self.is_reply_local(pl.l) and not any(e.startswith("as ") for e in pl.p)

    def reads_cont(self, op):
        """operand is (a reference to / a copy of) reply.continues"""
        if op.place is None: return False
        if self.is_cont_place(op.place): return True
        for l in ref_chain(self.du, op.place.l):
            for k, d in self.du.defs.get(l, []):
                if k == "stmt" and d.kind == "assign":
                    for pl in ([d.rplace] if d.rplace is not None else []) + [o.place for o in d.ops if o.place is not None]:
                        if self.is_cont_place(pl): return True
        return False

    def reads_reply(self, op):
        if op.place is None: return None
        for l in ref_chain(self.du, op.place.l):
            if self.is_reply_local(l) and (l != op.place.l or not op.place.p or op.place.p == ["*"]): return l
        return None

    def _calls(self):
        for t in self.body.calls():
            if t.callee.indirect or not t.args: continue
            nm = t.callee.name
            a0 = t.args[0]
            if nm in ("is_none", "is_some", "unwrap_or", "unwrap_or_default") and "Option" in t.callee.path and self.reads_cont(a0):
                if nm == "is_none": g = {"N": True, "F": False, "T": False}
                elif nm == "is_some": g = {"N": False, "F": True, "T": True}
                else:
                    d = False
                    if nm == "unwrap_or":
                        d = None
                        if t.args[1].is_const: d = bool(t.args[1].cint())
                        else:
                            vals = {o.cint() for k, o in self.sl.origins(t.args[1]) if k == "const"}
                            if len(vals) == 1: d = bool(vals.pop())
                        if d is None: continue
                    g = {"N": d, "F": False, "T": True}
                self.valfn[id(t)] = g
            elif nm in ("eq", "ne") and len(t.args) == 2 and (self.reads_cont(a0) or self.reads_cont(t.args[1])):
                other = t.args[1] if self.reads_cont(a0) else a0
                k = self._const_option_bool(other)
                if k is None: continue
                g = {v: (v == k) == (nm == "eq") for v in V3}
                self.valfn[id(t)] = g
            elif self.depth < 2 and len(t.args) >= 1 and self.reads_reply(a0) is not None:
                # a predicate of the reply defined in the library: summarise it
                cal = [b for b in self.cx.mir.bodies("varlink") if b.promoted is None and b.path == t.callee.path]
                if len(cal) != 1 or "bool" != cal[0].ty(0): continue
                g = summarise_predicate(self.cx, cal[0], self.depth + 1)
                if g is not None: self.valfn[id(t)] = g

    def _const_option_bool(self, op):
        """abstract value (N/F/T) of a constant Option<bool> operand (a promoted `&Some(true)` or a local built as such)"""
        from vlib.cfg import promoted_consts
        cands = []
        def from_stmts(stmts):
            for st in stmts:
                if st.kind == "assign" and st.rv == "agg" and isinstance(st.agg, dict) and "Option" in st.agg.get("adt", ""):
                    var = st.agg.get("variant")
                    if var == "None": cands.append("N")
                    elif var == "Some" and st.ops and st.ops[0].is_const and st.ops[0].cint() is not None: cands.append("T" if st.ops[0].cint() else "F")
                    else: cands.append(None)
        for k, o in self.sl.origins(op):
            if k == "const":
                dbg = str((o.const or {}).get("dbg", "") or (o.const or {}).get("str", "") or "")
                if "promoted[" in dbg:
                    from vlib.facts import promoted_body
                    pb = promoted_body(self.body, dbg)
                    if pb is not None: from_stmts(pb.stmts())
                else: cands.append(None)
            elif k == "agg": from_stmts([o])
            else: cands.append(None)
        return cands[0] if len(cands) == 1 else None

    def value_fn(self, op):
        """{N,F,T -> bool} of a bool operand, or None"""
        if op.is_const: 
            c = bool(op.cint()); return {"N": c, "F": c, "T": c}
        orig = self.sl.origins(op)
        calls = [o for k, o in orig if k == "call"]
        if len(orig) == 1 and len(calls) == 1 and id(calls[0]) in self.valfn: return self.valfn[id(calls[0])]
        # a copy of the payload itself: (reply.continues as Some).0 (only read where the value is Some)
        if op.place is not None:
            for k, o in orig:
                pl = getattr(o, "place", None) if k == "place" else None
            srcs = []
            l = op.place.l
            for _ in range(6):
                ds = self.du.defs.get(l, [])
                if len(ds) != 1 or ds[0][0] != "stmt" or ds[0][1].kind != "assign" or ds[0][1].rv != "use" or ds[0][1].ops[0].place is None: break
                pl = ds[0][1].ops[0].place
                if pl.fields()[-2:] == ["continues", "0"] and self.is_reply_local(pl.l) and any(e.startswith("as Some") for e in pl.p): return {"F": False, "T": True}
                if pl.p: break
                l = pl.l
        return None

    def _add(self, src, dst, allowed):
        k = (src, dst)
        self.constraints[k] = (self.constraints[k] | allowed) if k in self.constraints else set(allowed)

    def _switches(self):
        body, du, cfg = self.body, self.du, self.cfg
        cont_assigns = [s for s in field_assigns(body, "continues", "MethodCall")]
        for b in body.blocks:
            if b.cleanup or b.term.kind != "switch": continue
            t = b.term
            c = switch_cond(body, du, t)
            per_label = None
            if c.kind == "discr" and self.is_cont_place(c.place):
                per_label = {}
                listed = set()
                for v, dst in t.targets:
                    per_label[(v, dst)] = {"N"} if v == 0 else {"F", "T"} if v == 1 else set()
                    listed |= per_label[(v, dst)]
                if t.otherwise is not None: per_label[("otherwise", t.otherwise)] = set(V3) - listed
            elif t.discr.place is not None and t.discr.place.fields()[-2:] == ["continues", "0"] and self.is_reply_local(t.discr.place.l) and any(e.startswith("as Some") for e in t.discr.place.p):
                per_label = {}
                listed = set()
                for v, dst in t.targets:
                    per_label[(v, dst)] = {"F"} if v == 0 else {"T"}
                    listed |= per_label[(v, dst)]
                if t.otherwise is not None: per_label[("otherwise", t.otherwise)] = {"F", "T"} - listed
            else:
                g = None
                if c.kind == "call" and id(c.term) in self.valfn: g = self.valfn[id(c.term)]
                elif c.kind == "field" and c.place.fields()[-1:] == ["continues"] and "MethodCall" in body.ty(c.place.l):
                    doms = [s for s in cont_assigns if cfg.dominates(s.bb, b.idx)]
                    if len(doms) == 1 and len(cont_assigns) == 1 and doms[0].ops: g = self.value_fn(doms[0].ops[0])
                if g is not None:
                    te, fe = bool_edges(t, c)
                    per_label = {(te[1], te[2]): {v for v in V3 if g.get(v, True)}, (fe[1], fe[2]): {v for v in V3 if not g.get(v, False)}}
            if per_label:
                for (lab, dst), allowed in per_label.items(): self._add(b.idx, dst, allowed)

    def feasible(self, path):
        S = set(V3)
        for e in zip(path, path[1:]):
            if e in self.constraints: S &= self.constraints[e]
        return S


def summarise_predicate(cx, body, depth):
    """{N,F,T -> bool} computed by a bool function of (&Reply): per abstract value the constant it returns, or None"""
    from vlib.cfg import enumerate_paths
    cfg = Cfg(body); du = DefUse(body)
    ev = ContinuesEval(cx, body, du, cfg, reply_arg=None, depth=depth)
    # the reply is argument 1 (by reference)
    ev.reply_arg = 1; ev.valfn = {}; ev.constraints = {}; ev._calls(); ev._switches()
    rets = [s for s in body.stmts() if s.kind == "assign" and s.lhs.l == 0 and not s.lhs.p]
    calls0 = [t for t in body.calls() if t.dest is not None and t.dest.l == 0 and not t.dest.p]
    paths = enumerate_paths(cfg, 0, lambda blk: blk.term.kind == "return", du=du)
    g = {}
    for p in paths:
        if body.blocks[p[-1]].term.kind != "return": continue
        S = ev.feasible(p)
        if not S: continue
        vf = None
        for bi in p:
            for st in rets:
                if st.bb == bi and st.ops: vf = ev.value_fn(st.ops[0])
            for t in calls0:
                if t.bb == bi: vf = ev.valfn.get(id(t))
        if vf is None: return None
        for v in S:
            if v in g and g[v] != vf[v]: return None
            g[v] = vf[v]
    return g if set(g) == set(V3) else None


def recv_by_evaluation(body, cfg, du, parse_call, cont_assigns, hb_r, hb_w):
    """True when, for each of the three values of reply.continues, every feasible path from the parsed reply to a return stores
    exactly `value == Some(true)` into self.continues and hands reader and writer back exactly when the reply is final"""
    from vlib import absval
    from vlib.cfg import enumerate_paths
    if parse_call.dest is None or parse_call.dest.p or parse_call.target is None: return False
    vals = {"N": ("var", 0, ()), "F": ("var", 1, (("int", 0),)), "T": ("var", 1, (("int", 1),))}
    ca_bbs = {}
    for st in cont_assigns: ca_bbs.setdefault(st.bb, []).append(st)
    for name, v in vals.items():
        rv = absval.struct_value("Reply", {"continues": v})
        if rv is None: return False
        env0 = {parse_call.dest.l: ("var", 0, (rv,))}
        hit = [False]
        paths = enumerate_paths(cfg, parse_call.target, lambda blk: blk.term.kind == "return", du=du, env0=env0, on_limit=lambda: hit.__setitem__(0, True))
        if hit[0]: return False
        n = 0
        for p in paths:
            if p[-1] < 0 or body.blocks[p[-1]].term.kind != "return": continue
            n += 1
            stored = None
            for kind, b, obj, store in absval.walk(body, du, cfg, p, env0=env0):
                if kind == "stmt" and obj in ca_bbs.get(b, []) and obj.ops:
                    stored = absval.operand_value(store, obj.ops[0]) or "unknown"
            if stored is None or stored == "unknown" or stored[0] != "int" or bool(stored[1]) != (name == "T"): return False
            hr = any(st.bb in p for st in hb_r); hw = any(st.bb in p for st in hb_w)
            if name == "T" and (hr or hw): return False
            if name != "T" and not (hr and hw): return False
        if n == 0: return False
    return True


def old_reply_guard_by_paths(f, read_call):
    """every feasible path from the entry of recv() to the read has established that both the call object's reader and its writer
    are present — by is_some()/is_none() on the field, or by matching the Option taken out of it on `Some`"""
    from vlib.cfg import enumerate_paths
    from vlib.pathcond import literals
    body, cfg, du = f.body, f.cfg, f.du
    def field_of(op):
        if op is None or op.place is None: return None
        for l in ref_chain(du, op.place.l):
            for k, d in du.defs.get(l, []):
                if k == "stmt" and d.kind == "assign" and d.rplace is not None and d.rplace.fields()[-1:] and d.rplace.fields()[-1] in ("reader", "writer") and "MethodCall" in body.ty(d.rplace.l):
                    return d.rplace.fields()[-1]
        if op.place.fields()[-1:] and op.place.fields()[-1] in ("reader", "writer"): return op.place.fields()[-1]
        return None
    hit = [False]
    paths = enumerate_paths(cfg, 0, lambda blk: blk.idx == read_call.bb or blk.term.kind == "return", du=du, on_limit=lambda: hit.__setitem__(0, True))
    if hit[0]: return False
    n = 0
    for p in paths:
        if p[-1] != read_call.bb: continue
        n += 1
        have = {"reader": False, "writer": False}
        for lit in literals(body, p):
            if lit.kind == "call" and lit.obj.callee.name in ("is_some", "is_none") and lit.obj.args:
                fld = field_of(lit.obj.args[0])
                if fld and lit.truth == (lit.obj.callee.name == "is_some"): have[fld] = True
        for a, b in zip(p, p[1:]):
            t = body.blocks[a].term
            if t.kind != "switch" or t.discr is None or t.discr.place is None or t.discr.place.p: continue
            ds = du.value_defs(t.discr.place.l)
            if len(ds) == 1 and ds[0][0] == "stmt" and ds[0][1].rv == "discr" and ds[0][1].rplace is not None and not ds[0][1].rplace.p:
                src = ds[0][1].rplace.l
                for k, o in Slice(body, du).origins(ds[0][1].rplace):
                    if k == "call" and o.callee.name == "take" and o.args:
                        fld = field_of(o.args[0])
                        labs = [lab for lab, d in cfg.succ[a] if d == b]
                        if fld and labs and labs[0] == 1: have[fld] = True
        if not (have["reader"] and have["writer"]): return False
    return n > 0


def check_recv_protocol(cx, rule, prefix):
    """iterator/slot protocol of recv(): used as C05.R2 and C07.R3"""
    f = Fn(cx, MC + "recv")
    body, cfg, du = f.body, f.cfg, f.du
    site = body.sp
    fs = body.calls("serde_json::from_slice")
    if len(fs) != 1: raise AnchorMissing("recv: from_slice")
    ok_edge, err_edge = try_ok_edge(f, fs[0])
    if ok_edge is None: raise AnchorMissing("recv: `?` on from_slice")
    rets = cfg.returns()
    from vlib.cfg import enumerate_paths
    ca = field_assigns(body, "continues", "MethodCall")
    upd = {s.bb for s in ca}
    # three-valued abstract reading of reply.continues along every path: N (absent), F (Some(false)), T (Some(true))
    ev = ContinuesEval(cx, body, du, cfg)
    if not ev.constraints and not ev.valfn: raise AnchorMissing("recv: no decision on reply.continues at all")
    hb_r = field_assigns(body, "reader", "Connection"); hb_w = field_assigns(body, "writer", "Connection")
    locks = lock_acquisitions(f)
    limit = []
    paths = enumerate_paths(cfg, ok_edge[2], lambda blk: blk.term.kind == "return", du=du, on_limit=lambda: limit.append(1))
    if limit: cx.bad(rule, prefix + ":recv:path-limit", site, "recv() has too many paths to enumerate")
    NAMES = {"N": "absent", "F": "Some(false)", "T": "Some(true)"}
    no_update = []; bad_true = []; bad_hand = []; nmore = nfinal = 0
    for p in paths:
        if body.blocks[p[-1]].term.kind != "return": continue
        S = ev.feasible(p)
        if not S: continue                         # contradictory tests of the same value: not an execution
        sets = [st for st in ca if st.bb in p]
        hr = any(st.bb in p for st in hb_r); hw = any(st.bb in p for st in hb_w)
        if S <= {"T"}: nmore += 1
        elif S <= {"N", "F"}: nfinal += 1
        for v in sorted(S):
            final = v != "T"
            if final and not (hr and hw): bad_hand.append(("a final reply (continues %s) returns without handing the stream back" % NAMES[v], p))
            if not final and (hr or hw): bad_hand.append(("more replies are expected (continues Some(true)) but the stream is handed back", p))
        if not sets: no_update.append(p); continue
        last = sets[-1]
        if last.ops and last.ops[0].is_const:
            c = bool(last.ops[0].cint())
            if any((v == "T") != c for v in S): bad_true.append((p, "set to %s although reply.continues may be %s" % (c, "/".join(NAMES[v] for v in sorted(S) if (v == "T") != c))))
        else:
            g = ev.value_fn(last.ops[0]) if last.ops else None
            if g is None: bad_true.append((p, "set to a value not derived from reply.continues"))
            elif any(g.get(v) != (v == "T") for v in S): bad_true.append((p, "computed value is %s for %s" % (g, "/".join(NAMES[v] for v in sorted(S) if g.get(v) != (v == "T")))))
    if no_update or bad_true or bad_hand or not nmore or not nfinal:
        # second opinion by evaluation: run the paths behind the parse with the reply's `continues` member seeded as absent /
        # Some(false) / Some(true) and read off what is stored into self.continues and whether the streams go back
        if recv_by_evaluation(body, cfg, du, fs[0], ca, hb_r, hb_w):
            no_update = []; bad_true = []; bad_hand = []; nmore = nmore or 1; nfinal = nfinal or 1
            cx.notes.append("%s: recv() decided by abstract evaluation over reply.continues in {absent, Some(false), Some(true)}" % rule)
    cx.check(not no_update and nmore and nfinal, rule, prefix + ":recv:continues-updated-on-every-exit", site,
             ("%d path(s) from a parsed reply to a return never update self.continues (e.g. the error return, blocks %s): the iterator keeps polling (or stops) on stale state" % (len(no_update), no_update[0][:18]))
             if no_update else "recv() has %d return path(s) that are taken only for Some(true) and %d taken only for a final reply: both outcomes must be distinguished (Some(false) and absent are final, only Some(true) continues)" % (nmore, nfinal),
             note_ok="self.continues is set on all paths from the parse to a return (%d for Some(true), %d for a final reply)" % (nmore, nfinal))
    cx.check(not bad_true, rule, prefix + ":recv:continues-true-iff-reply-says-so", site,
             "%d path(s) leave self.continues disagreeing with reply.continues == Some(true): %s (blocks %s)" % (len(bad_true), bad_true[0][1] if bad_true else "", bad_true[0][0][:18] if bad_true else ""), note_ok="true exactly for Some(true)")
    why = sorted({w for w, _ in bad_hand})[:3]
    if bad_hand: why.append("e.g. blocks %s" % bad_hand[0][1][:18])
    if len(locks) != 1: why.append("%d lock acquisitions (expected one write lock covering both slots)" % len(locks))
    elif not all(cfg.dominates(locks[0].bb, st.bb) for st in hb_r + hb_w): why.append("hand-back outside the connection lock")
    tr = takes_of(f, "reader", "MethodCall"); tw = takes_of(f, "writer", "MethodCall")
    if not tr or not tw: why.append("hand-back does not move the call object's own reader/writer")
    cx.check(not why, rule, prefix + ":recv:slots-returned-on-final-reply", site, "; ".join(why) + " — the connection stays busy (or is shared) after the call",
             note_ok="final reply (%d paths): conn.reader/conn.writer = self.reader.take()/self.writer.take() under one write lock; untouched while continues (%d paths)" % (nfinal, nmore))
    # (iv) no slots -> IteratorOldReply, nothing read
    nr = none_checks(f, "reader", "MethodCall") + none_checks(f, "writer", "MethodCall")
    ru = body.calls("=read_until")
    old = err_variant_blocks(body, "IteratorOldReply")
    good = len(nr) >= 2 and bool(old) and bool(ru) and all(ru[0].bb not in cfg.after(absent_edge(t, c)) for t, c in nr)
    if not good and old and ru:
        good = old_reply_guard_by_paths(f, ru[0])
    cx.check(good, rule, prefix + ":recv:old-reply-guard", site, "recv() on a call object that holds no stream does not fail before reading", note_ok="no reader/writer -> IteratorOldReply before any read")
    return f


def check_next(cx, rule, prefix):
    cands = [b for b in cx.mir.bodies("varlink") if b.promoted is None and b.path.endswith("::next") and "MethodCall" in (b.impl_self or "")]
    if len(cands) != 1: raise AnchorMissing("Iterator::next for MethodCall: %d" % len(cands))
    body = cands[0]; cx.saw(body)
    cfg = Cfg(body); du = DefUse(body)
    recvs = body.calls("=recv")
    sw = None
    for b in body.blocks:
        if b.cleanup or b.term.kind != "switch": continue
        c = switch_cond(body, du, b.term)
        if c.kind == "field" and "continues" in c.place.fields(): sw = (b.term, c)
        if c.kind in ("other", "multi") : pass
    good = False
    thens = [t for t in body.calls("=then") if "bool" in t.callee.path]
    if not sw and len(thens) == 1 and not recvs:
        # `self.continues.then(|| self.recv())`: Some(f()) exactly when the receiver is true
        t = thens[0]
        sl = Slice(body, du)
        rec = t.args[0]
        reads_flag = rec.place is not None and (("continues" in rec.place.fields()) or any(k == "stmt" for k in []) or any(
            d.kind == "assign" and any(o.place is not None and "continues" in o.place.fields() for o in d.ops) for l in ref_chain(du, rec.place.l) for k, d in du.value_defs(l) if k == "stmt"))
        clos = [b for b in cx.mir.bodies("varlink") if b.promoted is None and b.parent == body.path]
        calls_recv = any(c.calls("=recv") for c in clos)
        direct = any(k == "call" and o is t for k, o in sl.origins(__import__("vlib.facts", fromlist=["Place"]).Place({"l": 0, "p": []})))
        good = reads_flag and calls_recv and direct
    if sw and len(recvs) == 1:
        te, fe = bool_edges(*sw)
        nones = [s.bb for s in body.stmts() if s.kind == "assign" and s.lhs.l == 0 and s.rv == "agg" and isinstance(s.agg, dict) and s.agg.get("variant") == "None"]
        good = recvs[0].bb in cfg.after(te) and recvs[0].bb not in cfg.after(fe) and bool(nones) and all(n in cfg.after(fe) and n not in cfg.after(te) for n in nones)
    cx.check(good, rule, prefix + ":next:stops-when-not-continuing", body.sp,
             "Iterator::next does not return None exactly when self.continues is false (and recv() otherwise)", note_ok="continues ? Some(recv()) : None")
    # more() arms the iterator and puts `more` on the wire: decided on the entry point with send() inlined
    s = entry_summary(cx, "more")
    good = s["armed"] == {1} and s["flags"] == {("None", "Some(true)", "None")} and not s["limit"]
    cx.check(good, rule, prefix + ":more:arms-the-iterator", s["body"].sp, "more() must set continues = true and send a request carrying more: true only (continues %s, flags (oneway, more, upgrade) %s)" % (sorted(map(str, s["armed"])), sorted(s["flags"], key=str)),
             note_ok="continues = true; request carries more: true")


def check_slot_writers(cx, rule, prefix):
    """who may put a stream back into the connection: only recv() (final reply), send() (oneway: the writer only) and the constructors"""
    allowed = {MC + "recv": {"reader", "writer"}, MC + "send": {"writer"}}
    n = 0
    for b in cx.mir.bodies("varlink"):
        if b.promoted is not None: continue
        hits = set()
        for s in b.stmts():
            if s.kind == "assign" and s.lhs.p and s.lhs.fields()[-1:] in (["reader"], ["writer"]) and "Connection" in b.ty(s.lhs.l) and "MethodCall" not in b.ty(s.lhs.l):
                hits.add(s.lhs.fields()[-1])
            # a slot of the connection borrowed mutably in order to be stored into (`let slot = &mut conn.writer; *slot = Some(w)`)
            if s.kind == "assign" and s.rv == "ref" and s.bk and "mut" in str(s.bk).lower() and s.rplace is not None and s.rplace.fields()[-1:] in (["reader"], ["writer"]) \
               and "Connection" in b.ty(s.rplace.l) and "MethodCall" not in b.ty(s.rplace.l):
                stores = [x for x in b.stmts() if x.kind == "assign" and tuple(x.lhs.p) == ("*",) and s.lhs.l in ref_chain(DefUse(b), x.lhs.l)]
                if stores: hits.add(s.rplace.fields()[-1])
        if not hits: continue
        n += 1
        ok = b.path in allowed and hits <= allowed[b.path]
        cx.check(ok, rule, "%s:%s:assigns-Connection.%s" % (prefix, b.path, "+".join(sorted(hits))), b.sp,
                 "%s puts the %s back into the connection: only recv() on a final reply (and send() for the oneway writer) may do that — a stream handed back while replies are still outstanding lets another call read them" % (b.path, "/".join(sorted(hits))),
                 note_ok="allowed slot writer")
    cx.floor(rule, "functions assigning Connection.reader/writer", n, 2)


def request_builders(body):
    """sites that build the Request: (site, method operand, parameters operand) for Request::create calls and Request struct literals"""
    out = []
    for t in body.calls("=create"):
        if "Request" in t.callee.path and len(t.args) >= 2: out.append((t, t.args[0], t.args[1]))
    for s in body.stmts():
        if s.kind == "assign" and s.rv == "agg" and isinstance(s.agg, dict) and s.agg.get("adt", "").split("::")[-1] == "Request":
            names = s.agg.get("fields") or []
            if "method" in names and "parameters" in names: out.append((s, s.ops[names.index("method")], s.ops[names.index("parameters")]))
    return out


# ------------------------------------------------------------------------------------------------
ENTRY_POINTS = ("call", "more", "oneway", "upgrade")
FLAGS = ("oneway", "more", "upgrade")

def _show(v):
    if v is None: return "?"
    if v[0] == "var" and v[1] == 0: return "None"
    if v[0] == "var" and v[1] == 1 and len(v) > 2 and v[2] and v[2][0] is not None and v[2][0][0] == "int": return "Some(%s)" % ("true" if v[2][0][1] else "false")
    return "?"


def entry_summary(cx, name):
    """What one public entry point of MethodCall (call/more/oneway/upgrade) does, with send() and every private helper inlined and the
    constants it passes propagated: per feasible path that writes the request, the three flags as they are serialised, whether the
    connection's reader is taken, what is read, where the writer ends up, and whether self.continues is armed."""
    from vlib.inline import inline
    from vlib.known_private import KNOWN_PRIVATE
    from vlib import absval
    from vlib.cfg import enumerate_paths, ref_base
    raw = cx.mir.one("varlink", MC + name)
    def also(cb):
        if cb.path == MC + "send": return True
        return cb.public is False and cb.impl_trait is None and (cb.pkg, cb.path) not in KNOWN_PRIVATE
    body = inline(cx.mir, raw, keep=(), depth=4, also=also)
    cx.saw(raw)
    cfg = Cfg(body); du = DefUse(body)
    limit = []
    paths = enumerate_paths(cfg, 0, lambda blk: blk.term.kind == "return", du=du, on_limit=lambda: limit.append(1), max_paths=40000)
    is_req = lambda l: body.ty_is(l, "Request")
    slq = Slice(body, du)
    def is_conn(l): return "Connection" in body.ty(ref_base(du, l)[0]) + body.ty(l)
    nraw = len(raw.d["blocks"])
    out = dict(paths=0, writes=0, sent=0, flags=set(), reader_taken=set(), reads=set(), writer_back=set(), writer_kept=set(), armed=set(), undecided=[], limit=bool(limit), body=body, sends_inlined=[p for p, _ in body.inlined if p.endswith("::send")])
    for p in paths:
        if p[-1] < 0 or body.blocks[p[-1]].term.kind != "return": continue
        out["paths"] += 1
        freq = {}                     # (request local, flag) -> abstract value
        wrote = False; ser_flags = None; reader_taken = False; reads = set(); back = False; kept = False; armed = None; created = set()
        flushed = False; failed_after_flush = False; seq = 0
        slot_ref = {}                 # local -> the `&mut place` statement that reaches here on this path (a destination chosen earlier)
        for kind, b, x, st in absval.walk(body, du, cfg, p):
            if kind == "stmt" and x.kind == "assign":
                s = x
                if not s.lhs.p:
                    if s.rv == "ref" and s.rplace is not None and tuple(s.rplace.p) == ("*",) and s.rplace.l in slot_ref: slot_ref[s.lhs.l] = slot_ref[s.rplace.l]        # reborrow
                    elif s.rv == "ref" and s.rplace is not None: slot_ref[s.lhs.l] = s
                    elif s.rv in ("use", "cast") and s.ops and s.ops[0].place is not None and not s.ops[0].place.p and s.ops[0].place.l in slot_ref: slot_ref[s.lhs.l] = slot_ref[s.ops[0].place.l]
                    else: slot_ref.pop(s.lhs.l, None)
                elif tuple(s.lhs.p) == ("*",) and s.lhs.l in slot_ref:
                    # `*slot = Some(w)` with `slot = &mut conn.writer` / `&mut self.writer` picked on this path
                    d = slot_ref[s.lhs.l].rplace
                    if d.fields()[-1:] == ["writer"]:
                        if is_conn(d.l) and "MethodCall" not in body.ty(ref_base(du, d.l)[0]): back = True
                        if ref_base(du, d.l)[0] == 1: kept = True
                if s.lhs.p and s.lhs.fields()[-1:] and s.lhs.fields()[-1] in FLAGS and is_req(ref_base(du, s.lhs.l)[0]) and s.ops:
                    seq += 1
                    freq[(ref_base(du, s.lhs.l)[0], s.lhs.fields()[-1])] = (seq, absval.operand_value(st, s.ops[0]) if s.rv == "use" else None)
                if s.rv == "agg" and isinstance(s.agg, dict) and s.agg.get("adt", "").split("::")[-1] == "Request" and not s.lhs.p:
                    names = s.agg.get("fields") or []
                    for fl in FLAGS:
                        if fl in names and names.index(fl) < len(s.ops):
                            seq += 1; freq[(s.lhs.l, fl)] = (seq, absval.operand_value(st, s.ops[names.index(fl)]))
                if s.lhs.p and s.lhs.fields()[-1:] == ["writer"] and is_conn(s.lhs.l) and "MethodCall" not in body.ty(ref_base(du, s.lhs.l)[0]): back = True
                if s.lhs.p and s.lhs.fields()[-1:] == ["writer"] and ref_base(du, s.lhs.l)[0] == 1: kept = True
                if s.lhs.p and s.lhs.fields()[-1:] == ["continues"] and ref_base(du, s.lhs.l)[0] == 1 and s.ops:
                    v = absval.operand_value(st, s.ops[0]); armed = v[1] if v is not None and v[0] == "int" else "?"
            elif kind == "term" and x.kind == "call" and not x.callee.indirect:
                t = x; n = t.callee.name
                if n == "create" and "Request" in t.callee.path and t.dest is not None:
                    for fl in FLAGS:
                        seq += 1; freq[(t.dest.l, fl)] = (seq, ("var", 0, ()))       # Request::create leaves the flags unset (checked separately)
                if n == "to_string" and "serde_json" in t.callee.path and t.args and t.args[0].place is not None:
                    r = ref_base(du, t.args[0].place.l)[0]
                    # every local the serialised Request passed through on its way here (moves, Ok(..), `?`)
                    from vlib.facts import Place
                    slq.origins(Place({"l": r, "p": []}))
                    alias = {l for (l, pj) in slq.last_seen if is_req(l) or any(k[0] == l for k in freq)} | {r}
                    def latest(fl):
                        c = [freq[(l, fl)] for l in alias if (l, fl) in freq]
                        return max(c)[1] if c else None
                    ser_flags = tuple(_show(latest(fl)) for fl in FLAGS)
                if n in ("write_all", "write") and ("io::" in t.callee.resolved or "Write" in (t.callee.trait or "")): wrote = True
                if n == "flush" and ("io::" in t.callee.resolved or "Write" in (t.callee.trait or "")): flushed = True
                if n == "from_residual" and flushed and b >= nraw: failed_after_flush = True
                if n == "take" and "Option" in t.callee.path and t.args and t.args[0].place is not None:
                    for l in ref_chain(du, t.args[0].place.l):
                        for k, d in du.value_defs(l):
                            if k == "stmt" and d.kind == "assign" and d.rplace is not None and d.rplace.fields()[-1:] == ["reader"] and is_conn(d.rplace.l) and "MethodCall" not in body.ty(ref_base(du, d.rplace.l)[0]): reader_taken = True
                if n in ("recv", "read_until", "read_line", "read_to_end", "fill_buf", "read_exact") or (n == "read" and "io::" in t.callee.resolved): reads.add(n)
        if not wrote: continue
        out["writes"] += 1
        out["flags"].add(ser_flags)
        out["reader_taken"].add(reader_taken); out["reads"] |= reads; out["armed"].add(armed)
        if flushed and not failed_after_flush:
            out["sent"] += 1; out["writer_back"].add(back); out["writer_kept"].add(kept)
    return out


def check_entry_table(cx, rule_oneway, rule_more, prefix):
    """C04.R2 / C05.R2: the four entry points put exactly their own flag on the wire; only oneway() leaves the connection's reader
    where it is, reads nothing and hands the writer straight back; more() arms the iterator before sending"""
    want = {"call": ("None", "None", "None"), "more": ("None", "Some(true)", "None"), "oneway": ("Some(true)", "None", "None"), "upgrade": ("None", "None", "Some(true)")}
    # Request::create leaves all three flags unset
    rc = [b for b in cx.mir.bodies("varlink") if b.promoted is None and b.path.endswith("Request::<'a>::create")]
    if len(rc) != 1: raise AnchorMissing("Request::create")
    aggs = [s for s in rc[0].stmts() if s.kind == "assign" and s.rv == "agg" and isinstance(s.agg, dict) and s.agg.get("adt", "").split("::")[-1] == "Request"]
    okc = False
    if len(aggs) == 1:
        names = aggs[0].agg.get("fields") or []
        du0 = DefUse(rc[0])
        def is_none(o):
            if o.place is None: return False
            ds = du0.value_defs(o.place.l)
            return len(ds) == 1 and ds[0][0] == "stmt" and ds[0][1].rv == "agg" and isinstance(ds[0][1].agg, dict) and ds[0][1].agg.get("variant") == "None"
        okc = all(fl in names and is_none(aggs[0].ops[names.index(fl)]) for fl in FLAGS)
    cx.check(okc, rule_oneway, prefix + ":Request::create:flags-unset", rc[0].sp, "Request::create does not leave more/oneway/upgrade unset: every call would carry a flag", note_ok="more, oneway, upgrade = None")
    for name in ENTRY_POINTS:
        s = entry_summary(cx, name)
        rule = rule_more if name == "more" else rule_oneway
        key = "%s:MethodCall::%s:wire-flags" % (prefix, name)
        site = s["body"].sp
        why = []
        if s["limit"]: why.append("too many paths")
        if not s["sends_inlined"]: why.append("does not call send()")
        if not s["writes"]: why.append("no path writes a request")
        if s["flags"] != {want[name]}: why.append("the request is serialised with (oneway, more, upgrade) = %s, expected %s" % (sorted(s["flags"], key=str), want[name]))
        cx.check(not why, rule, key, site, "; ".join(why), note_ok="%d writing paths, flags (oneway, more, upgrade) = %s" % (s["writes"], want[name]))
        if name == "oneway":
            why = []
            if s["reader_taken"] != {False}: why.append("the connection's reader is taken although no reply will be read: a later call finds the connection busy or reads a foreign reply")
            if s["reads"]: why.append("oneway() reads from the stream (%s)" % sorted(s["reads"]))
            if s["writer_back"] != {True} or s["writer_kept"] != {False}: why.append("the writer is not handed straight back to the connection")
            cx.check(not why, rule_oneway, prefix + ":MethodCall::oneway:leaves-connection-free", site, "; ".join(why), note_ok="reader untouched, nothing read, conn.writer = Some(w)")
        else:
            why = []
            if s["reader_taken"] != {True}: why.append("the connection's reader is not taken on every path that sends the request")
            if s["writer_kept"] != {True} or s["writer_back"] != {False}: why.append("the writer is not kept in the call object until the final reply")
            cx.check(not why, rule_oneway, prefix + ":MethodCall::%s:occupies-connection" % name, site, "; ".join(why), note_ok="reader and writer move into the call object")
        if name == "more":
            cx.check(s["armed"] == {1}, rule_more, prefix + ":more:arms-the-iterator", site, "more() does not set self.continues = true on every path that sends the request (%s)" % sorted(map(str, s["armed"])),
                     note_ok="continues = true; request carries more: true")
        elif name in ("call", "upgrade", "oneway"):
            cx.check(s["armed"] <= {None, 0}, rule_more, prefix + ":%s:does-not-arm-the-iterator" % name, site, "%s() sets self.continues" % name, note_ok="continues untouched")


def check_recv_framing(cx, rule, prefix):
    """a reply is one NUL-terminated frame however it is segmented on the wire: recv() fills a buffer with read_until(0) on the
    call's own reader and parses exactly that buffer; it does not parse whatever a single fill_buf()/read() happened to deliver"""
    f = Fn(cx, MC + "recv")
    body, cfg, du = f.body, f.cfg, f.du
    ru = body.calls("=read_until")
    ps = [t for t in body.calls() if not t.callee.indirect and "serde_json" in t.callee.path and t.callee.name in ("from_slice", "from_str", "from_reader")]
    why = []
    if len(ps) != 1: why.append("%d parser calls" % len(ps))
    if not ru: why.append("no read_until on the reader")
    single = [t.callee.name for t in body.calls("=fill_buf", "=consume", "=read", "=read_exact", "=read_line") if "io::" in t.callee.resolved or "BufRead" in (t.callee.trait or "") or "Read" in (t.callee.trait or "")]
    if single: why.append("recv() also reads with %s: a reply that arrives in several segments (or is larger than the buffer) is cut" % sorted(set(single)))
    if ru and len(ps) == 1:
        for t in ru:
            d = t.args[1]
            v = d.cint() if d.is_const else None
            if v != 0: why.append("read_until delimiter is %r" % v)
        bufs = {ref_base_local(du, t.args[2]) for t in ru}
        sl = Slice(body, du, extra_pass=("=deref", "=as_slice", "=as_ref", "=borrow"))
        src = {o.dest.l for k, o in sl.origins(ps[0].args[0]) if k == "call" and o.callee.name in ("new", "with_capacity")}
        if not (src & bufs): why.append("the parser is not fed the buffer read_until filled")
        if not all(cfg.dominates(t.bb, ps[0].bb) for t in ru[:1]): why.append("the parse is reachable without the read")
    cx.check(not why, rule, prefix + ":recv:one-frame-per-reply", body.sp, "; ".join(why), note_ok="read_until(0) into a buffer, that buffer parsed")


def ref_base_local(du, op):
    from vlib.cfg import ref_base
    return ref_base(du, op.place.l)[0] if op.place is not None else None
