"""C08 — generated bindings put exactly the IDL on the wire (rules on the generator's templates = every program it can emit, plus the six generated instances the workspace compiles)."""
import re
from vlib.astfacts import tt_str, tt_walk, lit_str_value
from vlib.cfg import Cfg, DefUse, Slice
from vlib.cond import switch_cond, variant_edge, bool_edges
from vlib.facts import AnchorMissing
from .replies import proxies

GEN = "varlink_generator/src/lib.rs"
CASE_FUNCS = ("to_snake_case", "to_lowercase", "to_uppercase", "to_ascii_lowercase", "to_ascii_uppercase", "to_camel", "to_lower", "to_upper", "replace", "trim")

# expected (IDL type constructor -> Rust/JSON shape) table with default options
TYPE_TABLE = {
    "VType::Bool": "bool", "VType::Int": "i64", "VType::Float": "f64", "VType::String": "String", "VType::Object": "serde_json::Value",
}


def nz(x):
    return re.sub(r"\s+", "", x)


def quotes(f):
    """(event, template text with all whitespace removed)"""
    return [(e, nz(tt_str(e["tokens"]))) for e in f.macros("quote")]


def interps(tokens):
    """names interpolated as #name in a quote! token tree"""
    out = []
    toks = list(tt_walk(tokens))
    for i, t in enumerate(toks):
        if t["t"] == "punct" and t["s"] == "#" and i + 1 < len(toks) and toks[i + 1]["t"] == "ident": out.append(toks[i + 1]["s"])
    return out


class WholeFile:
    """all free functions and methods of the generator seen as one body: templates and `let`s are looked up wherever they live, so
    that splitting a function (or merging two) does not move a rule's anchor out of sight"""
    def __init__(self, ast, rel):
        self.fns = sorted(ast.file(rel)["_fns"], key=lambda f: f.line)
        self.events = [e for f in self.fns for e in f.events]
        self.qual = rel; self.line = 0
    def macros(self, name=None):
        return [e for e in self.events if e["k"] == "macro" and (name is None or e["name"] == name or e["name"].endswith("::" + name))]
    def ev(self, *kinds):
        return [e for e in self.events if e["k"] in kinds]


def _split_args(t):
    out = []; depth = 0; cur = ""
    for ch in t:
        if ch in "([{<": depth += 1
        if ch in ")]}>": depth -= 1
        if ch == "," and depth == 0: out.append(cur); cur = ""
        else: cur += ch
    if cur.strip(): out.append(cur)
    return [x.strip() for x in out]


def _params(f):
    m = re.search(r"\((.*)\)", f.sig or "", flags=re.S)
    if not m: return []
    ps = [re.sub(r"^\s*(mut\s+)?", "", x).split(":")[0].strip() for x in _split_args(m.group(1))]
    return [x for x in ps if x and "self" not in x.split()]


def expand(W, text, depth=0):
    """whitespace-free form of an expression with simple helpers inlined: a call `h(a, b)` of a generator function whose body is one
    `format!(..)` becomes that format! with the parameters replaced by the arguments; an identifier that is a parameter of its
    (single) enclosing helper is replaced by what every caller passes"""
    t = nz(text)
    m = re.fullmatch(r"&?(\w+)\((.*)\)", t)
    if m and depth < 3:
        gs = [g for g in W.fns if g.name == m.group(1)]
        if len(gs) == 1:
            fm = [e for e in gs[0].events if e["k"] == "macro" and e["name"] == "format"]
            if len(fm) == 1:
                body = "format!(" + nz(tt_str(fm[0]["tokens"])) + ")"
                for prm, arg in zip(_params(gs[0]), _split_args(m.group(2))):
                    body = re.sub(r"(?<![\w.])%s(?!\w)" % re.escape(prm), arg.lstrip("&"), body)
                return body
    return t


_SRC = {}

def helper_body(cx, W, name):
    """(parameters, whitespace-free body) of a free generator function that consists of one expression; None otherwise"""
    import os
    gs = [g for g in W.fns if g.name == name]
    if len(gs) != 1: return None
    g = gs[0]
    path = os.path.join(cx.repo, W.qual)
    if path not in _SRC: _SRC[path] = open(path, encoding="utf-8", errors="replace").read().split("\n")
    src = _SRC[path]
    later = [h.line for h in W.fns if h.line > g.line]
    text = "\n".join(src[g.line - 1:(min(later) - 1) if later else len(src)])
    i = text.find("{", text.find(")"))
    if i < 0: return None
    depth = 0; j = i
    while j < len(text):
        if text[j] == "{": depth += 1
        elif text[j] == "}":
            depth -= 1
            if depth == 0: break
        j += 1
    body = text[i + 1:j].strip()
    body = re.sub(r"//[^\n]*", "", body)
    if ";" in body.rstrip(";") or re.search(r"\blet\b", body): return None
    return _params(g), nz(body.rstrip(";"))


def expand_call(cx, W, text, depth=0):
    """`h(a, b)` with h a one-expression helper of the generator -> h's body with the parameters replaced by the arguments"""
    t = nz(text)
    m = re.fullmatch(r"&?(?:Self::)?(\w+)\((.*)\)", t)
    if not m or depth > 2: return t
    hb = helper_body(cx, W, m.group(1))
    if hb is None: return t
    params, body = hb
    for prm, arg in zip(params, _split_args(m.group(2))):
        body = re.sub(r"(?<![\w.])%s(?!\w)" % re.escape(prm), arg, body)
    return body


def subst_params(W, f_of_let, t):
    """replace parameters of the function a `let` lives in by the (unanimous) argument its callers pass"""
    if f_of_let is None: return t
    ps = _params(f_of_let)
    for i, prm in enumerate(ps):
        if not re.search(r"(?<![\w.])%s(?!\w)" % re.escape(prm), t): continue
        args = set()
        for g in W.fns:
            if g is f_of_let: continue
            for e in g.events:
                if e["k"] == "call" and e["text"].split("::")[-1] == f_of_let.name and i < len(e["args"]): args.add(nz(e["args"][i]).lstrip("&"))
        if len(args) == 1:
            t = re.sub(r"(?<![\w.])%s(?!\w)" % re.escape(prm), args.pop(), t)
    return t


def let_value(W, name):
    """expanded initialisers of `let <name> = ..` anywhere in the generator"""
    out = []
    for f in W.fns:
        for l in f.events:
            if l["k"] == "let" and l["pat"].replace(" ", "").split(":")[0].replace("mut", "", 1) == name:
                out.append(subst_params(W, f, expand(W, l["text"])))
    return out


def run(cx):
    cx.rule("C08.R1", "wire names are the IDL names: every identifier emitted in field or variant position of a serde-derived type is built from the IDL name by the raw-identifier constructor only (no case conversion, no serde rename anywhere in the templates)")
    cx.rule("C08.R2", "optional members are omitted: wherever method-input, reply or error-parameter fields are emitted, an Option-typed IDL member gets skip_serializing_if = \"Option::is_none\" (typedef struct fields have no annotation slot: they serialise as null, which the statement allows)")
    cx.rule("C08.R3", "one method name on both sides: the client stub's method string and the server dispatch arm are the same binding, format!(\"{}.{}\", idl.name, t.name); get_name/get_description are idl.name/idl.description")
    cx.rule("C08.R4", "one error name on both sides: reply_<error>() emits and From<&Reply> compares format!(\"{iname}.{ename}\") over the same sources, by exact string equality, with the same <Error>_Args payload")
    cx.rule("C08.R5", "type mapping table: bool/i64/f64/String/serde_json::Value, Vec<..>, StringHashMap<..>, StringHashSet for [string](), Option<..>; no wildcard arm on the IDL type enums; every composite arm recurses into its element type and every inline struct/enum arm emits the type it names")
    cx.rule("C08.R6", "bad parameters are answered with InvalidParameter: in the dispatch template (and in every generated instance) a failed from_value replies invalid_parameter and returns Err, missing parameters reply invalid_parameter(\"parameters\")")
    cx.rule("C08.R7", "the client always sends `parameters`: MethodCall::send serialises the argument struct into Some(..) unconditionally (the generated server requires the member for every method with inputs)")
    cx.rule("C08.R8", "string sets travel as objects of empty objects: StringHashSet serialises as a map from each element to an empty JSON object and deserialises from a map, inserting every key (shared with C17.R3)")
    ast = cx.ast
    from .C17 import r3 as set_shape
    set_shape(cx, rule="C08.R8")
    r1(cx, ast); r2(cx, ast); r3(cx, ast); r4(cx, ast); r5(cx, ast); r6(cx, ast); r7(cx)


FIELD_VECS = ("enames", "args_enames", "in_field_names", "out_field_names", "field_names", "inparms_name")


def r1(cx, ast):
    n = 0
    for f in ast.file(GEN)["_fns"]:
        for e in f.events:
            if e["k"] != "method" or e["text"] != "push": continue
            recv = e["recv"].replace(" ", "")
            # the pushed identifier: find its `let` in this function; an Ident built from IDL text is a field/variant name
            arg = e["args"][0].replace(" ", "") if e["args"] else ""
            init = None
            for l in f.events:
                if l["k"] == "let" and l["pat"].replace(" ", "").split(":")[0] == arg and l["line"] <= e["line"]: init = l["text"]
            if init is None and re.fullmatch(r"&?(?:Self::)?\w+\(.*\)", arg):
                # pushed straight from a helper call: `enames.push(raw_ident(e.name))`
                init = expand_call(cx, WholeFile(ast, GEN), arg)
                if init == arg: init = None
            elif init is not None:
                init = expand_call(cx, WholeFile(ast, GEN), init)
            is_ident = init is not None and re.search(r"syn::parse_str|format_ident!|Ident::new", init.replace(" ", "")) is not None
            if recv not in FIELD_VECS and not (is_ident and re.search(r"(^|[^\w])(\w+\.)?name\b|\belt\b", init)): continue
            n += 1
            key = "gen:%s:%s.push" % (f.qual, recv)
            site = "%s:%d" % (GEN, e["line"])
            if init is None:
                cx.bad("C08.R1", key, site, "cannot find how the field identifier %s is built" % arg); continue
            conv = [c for c in CASE_FUNCS if c + "(" in init.replace(" ", "")]
            raw = 'String::from("r#")+' in init.replace(" ", "") or 'format_ident!("r#{}"' in init.replace(" ", "")
            cx.check(raw and not conv, "C08.R1", key, site, "field identifier is built as `%s`: the wire name would differ from the IDL name (%s)" % (init[:90], conv or "not the raw-identifier constructor"),
                     note_ok="r# + IDL name, unchanged")
    cx.floor("C08.R1", "field/variant identifier emission sites", n, 3)
    ren = []
    for f in ast.file(GEN)["_fns"]:
        for e, txt in quotes(f):
            if re.search(r"serde\((rename|alias|flatten|default|with|tag|untagged)", txt): ren.append("%s:%d" % (GEN, e["line"]))
    cx.check(not ren, "C08.R1", "gen:templates:no-serde-rename", GEN, "a template changes wire names/shape with a serde attribute at %s" % ren, note_ok="no rename/alias/flatten/default/tag attribute in any template")
    # derive pairs: every emitted data type derives Serialize and Deserialize together
    nd = 0; bad = []
    for f in ast.file(GEN)["_fns"]:
        for e, txt in quotes(f):
            for m in re.finditer(r"derive\(([^)]*)\)\](?:#\[[^\]]*\])*pub(struct|enum)#(\w+)", txt):
                nd += 1
                if m.group(3) in ("args_name", "in_struct_name", "out_struct_name", "tname"):
                    if not ("Serialize" in m.group(1) and "Deserialize" in m.group(1)): bad.append(m.group(3))
    cx.check(not bad and nd >= 5, "C08.R1", "gen:templates:derive-both-directions", GEN, "emitted wire types %s do not derive Serialize and Deserialize together (%d derive sites)" % (bad, nd), note_ok="%d emitted types derive both" % nd)


def r2(cx, ast):
    n = 0
    for f in ast.file(GEN)["_fns"]:
        pushes = [e for e in f.events if e["k"] == "method" and e["text"] == "push" and (e["recv"].replace(" ", "") in ("anot", "args_anot", "in_anot", "out_anot") or
                  re.search(r"ano", e["recv"]) or (e["args"] and ("skip_serializing_if" in e["args"][0] or re.match(r"\s*if\s+let\s+VTypeExt\s*::\s*Option", e["args"][0]))))]
        for e in pushes:
            n += 1
            a = e["args"][0].replace(" ", "")
            good = re.match(r'ifletVTypeExt::Option\(_\)=\w+\.vtype\{quote!\(#\[serde\(skip_serializing_if="Option::is_none"\)\]\)\}else\{quote!\(\)\}', a) is not None
            cx.check(good, "C08.R2", "gen:%s:%s" % (f.qual, e["recv"].replace(" ", "")), "%s:%d" % (GEN, e["line"]),
                     "annotation pushed is `%s`: an unset optional member would be written as null/with a value instead of being omitted" % e["args"][0][:100], note_ok="Option(_) -> skip_serializing_if = Option::is_none")
    cx.floor("C08.R2", "annotation sites (method in/out via generate_anon_struct, error parameters)", n, 1)
    # the annotation vectors are interpolated next to their fields
    f = WholeFile(ast, GEN)
    txt = " ".join(t for _, t in quotes(f))
    reps = re.findall(r"pubstruct#(\w+)\{#\(#(\w+)pub#(\w+):#(\w+),\)\*\}", txt)
    cx.check(len([r for r in reps if re.search(r"out", r[0])]) >= 1 and len([r for r in reps if re.search(r"in_", r[0])]) >= 1, "C08.R2", "gen:varlink_to_rust:annotations-attached", GEN,
             "in/out annotation vectors are not emitted in front of their fields", note_ok="#(#anot pub #name: #type,)*")
    cx.check(len([r for r in reps if re.search(r"arg", r[0])]) >= 1, "C08.R2", "gen:VError:annotations-attached", GEN, "error parameter annotations are not emitted (struct templates with an annotation slot: %s)" % [r[0] for r in reps], note_ok="#(#args_anot pub #args_enames: #args_etypes,)*")
    fs = [x for x in ast.fns(GEN, "to_tokenstream") if "VStruct" in x.qual]
    txt = " ".join(t for _, t in quotes(fs[0])) if fs else ""
    cx.note("C08.R2", "gen:VStruct:typedef-fields-null", GEN, "typedef struct fields have no annotation slot (`#(pub #enames: #etypes,)*`): unset optionals are written as null — allowed by the statement (\"omitted or null\")")


def r3(cx, ast):
    f = WholeFile(ast, GEN)
    lets = {l["pat"].replace(" ", ""): l["text"].replace(" ", "") for l in f.events if l["k"] == "let"}
    vm = let_value(f, "varlink_method_name")
    cx.check(vm == ['format!("{}.{}",idl.name,t.name)'], "C08.R3", "gen:varlink_method_name:definition", GEN,
             "varlink_method_name is %s (expected format!(\"{}.{}\", idl.name, t.name))" % vm, note_ok="<interface>.<Method>")
    uses = []
    for e, txt in quotes(f):
        if "varlink_method_name" in interps(e["tokens"]): uses.append(txt)
    client = [t for t in uses if "MethodCall" in t]; server = [t for t in uses if "#varlink_method_name=>" in t]
    cx.check(len(client) == 1 and len(server) == 2, "C08.R3", "gen:varlink_method_name:both-sides", GEN,
             "the method string is interpolated into %d client stub(s) and %d dispatch arm template(s) (expected 1 and 2: with and without inputs)" % (len(client), len(server)), note_ok="same binding in the client stub and both dispatch-arm templates")
    # no other string literal used as method
    okc = all(re.search(r"::new\(self\.connection\.clone\(\),#varlink_method_name,#in_struct_name\{", t) for t in client)
    cx.check(okc, "C08.R3", "gen:client-stub-template", GEN, "the client stub does not pass #varlink_method_name and the argument struct to MethodCall::new", note_ok="MethodCall::new(connection, #varlink_method_name, #in_struct_name{..})")
    cx.check(let_value(f, "iname") == ["idl.name"] and let_value(f, "description") == ["idl.description"], "C08.R3", "gen:name-and-description", GEN,
             "get_name/get_description are %s / %s" % (let_value(f, "iname"), let_value(f, "description")), note_ok="iname = idl.name, description = idl.description (the whole input, C11.R3)")
    cand = [t for _, t in quotes(f) if "fnget_description(" in t]
    last = cand[-1] if cand else ""
    cx.check("fnget_description(&self)->&'staticstr{#description}" in last and "fnget_name(&self)->&'staticstr{#iname}" in last
             and re.search(r"(?:#server_method_impls|#\(#server_method_impls\),\*,?)(\w+)=>\{?call\.reply_method_not_found\(String::from\(\1\)\)", last) is not None and re.search(r"match\w+\.method\.as_ref\(\)\{", last) is not None, "C08.R3", "gen:proxy-template", GEN, "the Interface impl template does not return #description/#iname or lacks the MethodNotFound fallback",
             note_ok="get_description -> #description, get_name -> #iname, fallback MethodNotFound(m)")


def r4(cx, ast):
    f = WholeFile(ast, GEN)
    lets = {}
    for l in f.events:
        if l["k"] == "let": lets.setdefault(l["pat"].replace(" ", ""), []).append(l["text"].replace(" ", ""))
    want = 'format!("{iname}.{ename}",iname=idl.name,ename=t.name)'
    a = (let_value(f, "error_name") or [None])[0]; b = (let_value(f, "errorname") or [None])[0]
    cx.check(a == want and b == want, "C08.R4", "gen:error-name:definitions", GEN, "error names are built as %s (client side) and %s (server side)" % (a, b), note_ok="both: <interface>.<Error>")
    arm = [t for e, t in quotes(f) if "error_name" in interps(e["tokens"])]
    emit = [t for e, t in quotes(f) if "errorname" in interps(e["tokens"])]
    ok_arm = len(arm) == 1 and re.search(r"if\w+==#error_name=>", arm[0]) and re.search(r"serde_json::from_value\(\w+(\.clone\(\))?\)", arm[0]) and re.search(r"Ok\((\w+)\)=>#ename\(\1\)", arm[0])
    ok_arm = bool(ok_arm)
    ok_emit = len(emit) == 1 and re.search(r"varlink::Reply::error\(#errorname,#\w+\)", emit[0]) is not None
    cx.check(ok_arm, "C08.R4", "gen:error-arm-template", GEN, "the From<&Reply> arm does not compare the error name by exact equality and deserialise the parameters into the variant payload", note_ok="t == #error_name -> from_value(p) -> #ename(v)")
    cx.check(ok_emit, "C08.R4", "gen:error-emitter-template", GEN, "reply_<error>() does not emit Reply::error(#errorname, #parms)", note_ok="Reply::error(#errorname, #parms)")
    pj = [l for l in lets.get("parms", []) + [e["text"].replace(" ", "") for e in f.events if e["k"] == "assign" and e.get("lhs", "").strip() == "parms"]]
    allq = [t for _, t in quotes(f)]
    okp = (any("Some(serde_json::to_value(#args_name{#(#innames2),*})" in p for p in pj) and any(p == "quote!(None)" for p in pj)) or \
          (any(re.search(r"^Some\(serde_json::to_value\(#\w+\{#\(#\w+\),\*\}\)", t) for t in allq) and any(t == "None" for t in allq))
    cx.check(okp, "C08.R4", "gen:error-parameters", GEN, "error parameters are not serialised from <Error>_Args{..} (or None when the error has none): %s" % pj, note_ok="Some(to_value(<Error>_Args{..})) | None")
    # the library-side mapping of standard errors uses exact names too (shared with C07.R6, decided on the MIR)
    from .C07 import _name_tests, STD_ERRORS
    fr = cx.mir.one("varlink", "<impl std::convert::From<Reply> for error::ErrorKind>::from")
    tests, fuzzy, _ = _name_tests(fr, Cfg(fr), DefUse(fr))
    cx.check(sorted(tests) == sorted(STD_ERRORS) and not fuzzy, "C08.R4", "varlink:From<Reply>:exact-names", fr.sp,
             "the runtime classifies reply errors with %s%s: an error declared in an IDL could be taken for a standard one and lose its variant" % (sorted(tests), " and %s" % sorted({t.callee.name for t in fuzzy}) if fuzzy else ""),
             note_ok="four equality tests against full literal names")


def _variant_edges(body, cfg, du, of_place_local=1):
    """the top-level `match *self`: {variant name: (edge, blocks reachable behind it)}, plus whether an arm catches `the rest`"""
    for b in body.blocks:
        if b.cleanup or b.term.kind != "switch": continue
        c = switch_cond(body, du, b.term)
        if c.kind == "discr" and c.place.l == of_place_local and tuple(c.place.p) == ("*",):
            out = {}
            for lab, dst in cfg.succ[b.idx]:
                e = (b.idx, lab, dst)
                out[lab] = (e, cfg.after(e))
            rest = None
            if b.term.otherwise is not None and body.blocks[b.term.otherwise].term.kind != "unreachable": rest = b.term.otherwise
            return b, out, rest
    return None, {}, None


def _enum_variants(cx, name):
    for u in cx.mir.units:
        for it in u.items:
            if it.get("kind") == "Enum" and it.get("path", "").split("::")[-1] == name:
                return [v["name"] for v in it.get("variants", [])]
    return []


def _results(body, region):
    """how the return place is written inside a region: [("call", term) | ("stmt", stmt)]"""
    out = []
    for bi in sorted(region):
        blk = body.blocks[bi]
        if blk.cleanup: continue
        for st in blk.stmts:
            if st.kind == "assign" and st.lhs.l == 0 and not st.lhs.p: out.append(("stmt", st))
        t = blk.term
        if t.kind == "call" and t.dest is not None and t.dest.l == 0 and not t.dest.p: out.append(("call", t))
    return out


def r5(cx, ast=None, rule="C08.R5"):
    """decided on the MIR of the two to_rust_string impls (helpers inlined, format! templates evaluated), not on their source text"""
    from vlib import fmt
    from vlib.cfg import const_strings
    GENPKG = "varlink_generator"
    impls = [b for b in cx.mir.bodies(GENPKG) if b.promoted is None and b.path.endswith("::to_rust_string") and b.kind != "Closure"]
    fv = [b for b in impls if (b.impl_self or "").split("<")[0].endswith("VType")]
    fx = [b for b in impls if (b.impl_self or "").split("<")[0].endswith("VTypeExt")]
    if len(fv) != 1 or len(fx) != 1: raise AnchorMissing("to_rust_string impls")
    # ---------------- VType
    body = fv[0]; cx.saw(body)
    cfg = Cfg(body); du = DefUse(body); sl = Slice(body, du)
    names = _enum_variants(cx, "VType")
    sw, edges, rest = _variant_edges(body, cfg, du)
    why = []
    if sw is None: raise AnchorMissing("VType::to_rust_string: match on *self")
    if rest is not None: why.append("wildcard arm on VType")
    if len(names) != 8: why.append("%d constructors on VType (8 expected)" % len(names))
    def strings_of(b, s_l, d_u, kind, o):
        """string constants a result site can return (through .into()/Cow, Option::unwrap_or(default))"""
        ops = o.args[:1] if kind == "call" else o.ops
        out = []
        for a in ops:
            out += const_strings(b, s_l, a)
            for k, c in s_l.origins(a):
                if k == "call" and c.callee.name in ("unwrap_or",) and len(c.args) == 2: out += const_strings(b, s_l, c.args[1])
        return out
    for vn, want in (("Bool", "bool"), ("Int", "i64"), ("Float", "f64"), ("String", "String"), ("Object", "serde_json::Value")):
        if vn not in names or names.index(vn) not in edges: why.append("no arm for VType::%s" % vn); continue
        res = _results(body, edges[names.index(vn)][1])
        got = sorted({x for k, o in res for x in strings_of(body, sl, du, k, o)})
        if got != [want]: why.append("VType::%s maps to %s (expected %s)" % (vn, got, want))
    if "Typename" in names and names.index("Typename") in edges:
        res = _results(body, edges[names.index("Typename")][1])
        def from_payload(op, variant):
            if op is None or op.place is None: return False
            s2 = Slice(body, du, extra_pass=("=as_ref", "=deref", "=borrow", "=clone"))
            s2.origins(op)
            return any(l == 1 and any(("as " + variant) in e for e in proj) for (l, proj) in s2.last_seen)
        ok = bool(res) and all(k == "call" and o.callee.name in ("into", "from", "to_string", "to_owned") and o.args and from_payload(o.args[0], "Typename") for k, o in res)
        if not ok: why.append("a type reference is not emitted by its own name")
    else: why.append("no arm for VType::Typename")
    for vn in ("Enum", "Struct"):
        if vn not in names or names.index(vn) not in edges: why.append("no arm for VType::%s" % vn); continue
        e, region = edges[names.index(vn)]
        emit = [t for t in body.calls("=to_tokenstream") if t.bb in region and len(t.args) >= 2 and any(k == "arg" and o == 2 for k, o in sl.origins(t.args[1]))]
        res = _results(body, region)
        named = bool(res) and all(any(k2 == "arg" and o2 == 2 for a in (o.args[:1] if k == "call" else o.ops) for k2, o2 in Slice(body, du, extra_pass=("=to_string", "=into", "=to_owned", "=from")).origins(a)) for k, o in res)
        dom = bool(emit) and all(cfg.must_pass(e[2], [body.blocks[bi].idx for bi in region if body.blocks[bi].term.kind == "return"], {t.bb for t in emit}) for _ in [0])
        if not (emit and named and dom): why.append("VType::%s does not emit the inline type it names" % vn)
    cx.check(not why, rule, "gen:VType:table", body.sp, "; ".join(why), note_ok="bool i64 f64 String Value | typename | inline struct/enum emitted and named")
    # ---------------- VTypeExt
    body = fx[0]; cx.saw(body)
    cfg = Cfg(body); du = DefUse(body); sl = Slice(body, du)
    names = _enum_variants(cx, "VTypeExt")
    vnames = _enum_variants(cx, "VType")
    sw, edges, rest = _variant_edges(body, cfg, du)
    why = []
    if sw is None: raise AnchorMissing("VTypeExt::to_rust_string: match on *self")
    if rest is not None: why.append("wildcard arm on VTypeExt")
    def payload_of(op, variant):
        """does the operand derive from the payload of `variant` of self?"""
        if op is None or op.place is None: return False
        s2 = Slice(body, du, extra_pass=("=as_ref", "=deref", "=borrow", "=clone"))
        s2.origins(op)
        for (l, proj) in s2.last_seen:
            if l == 1 and any(("as " + variant) in e for e in proj): return True
        return False
    def shapes(region, variant):
        """(text pattern, element generated through to_rust_string of the payload?) per result site"""
        out = []
        for k, o in _results(body, region):
            if k == "call" and o.callee.name == "to_rust_string":
                out.append(("<delegated>", payload_of(o.args[0], variant), o.bb)); continue
            r = fmt.render(body, du, sl, o) if k == "call" else None
            if r is None and k == "stmt" and o.ops and o.ops[0].place is not None:
                # the value comes back from a closure or helper written out in the view: look at the call that produced it
                for kk, c in Slice(body, du).origins(o.ops[0]):
                    if kk == "call" and c.bb in region:
                        if c.callee.name == "to_rust_string":
                            r = None; out.append(("<delegated>", payload_of(c.args[0], variant), o.bb)); break
                        r = fmt.render(body, du, sl, c)
                        if r is not None: break
                else:
                    pass
                if out and out[-1][2] == o.bb and out[-1][0] == "<delegated>": continue
            if r is not None:
                text, holes = r
                rec = len(holes) == 1 and any(kk == "call" and c.callee.name == "to_rust_string" and c.bb in region and payload_of(c.args[0], variant)
                                              for kk, c in Slice(body, du, extra_pass=("=as_ref", "=deref", "=borrow")).origins(holes[0]))
                out.append((text, rec, o.bb)); continue
            cs = sorted(set(const_strings(body, sl, (o.args[0] if k == "call" else o.ops[0])))) if (o.args if k == "call" else o.ops) else []
            out.append((cs[0] if len(cs) == 1 else "<unknown>", False, o.bb))
        return out
    def region_of(vn):
        if vn not in names or names.index(vn) not in edges: return None
        return edges[names.index(vn)]
    got = {}
    for vn, want in (("Plain", "<delegated>"), ("Array", "Vec<{}>"), ("Option", "Option<{}>")):
        er = region_of(vn)
        if er is None: why.append("no arm for VTypeExt::%s" % vn); continue
        sh = shapes(er[1], vn); got[vn] = sh
        if not sh or any(t != want or not rec for t, rec, _ in sh):
            why.append({"Plain": "Plain does not delegate", "Array": "Array is not Vec<element> with the element type generated", "Option": "Option is not Option<element> with the element type generated"}[vn] + " (%s)" % [(t, r) for t, r, _ in sh])
    er = region_of("Dict")
    if er is None: why.append("no arm for VTypeExt::Dict")
    else:
        e, region = er
        sh = shapes(region, "Dict"); got["Dict"] = sh
        sets = [x for x in sh if x[0] == "varlink::StringHashSet"]
        maps = [x for x in sh if x[0] == "varlink::StringHashMap<{}>" and x[1]]
        if len(sets) + len(maps) != len(sh) or not maps:
            why.append("a map of a non-empty element type is not StringHashMap<element> with the element type generated through to_rust_string (an inline struct/enum value type would be named but never emitted) (%s)" % [(t, r) for t, r, _ in sh])
        if not sets: why.append("[string]() is not mapped to StringHashSet exactly when the struct is empty")
        elif maps:
            # path by path: the set is returned exactly when the value type is Plain(Struct(s)) with s.elts.is_empty()
            from vlib.cfg import enumerate_paths
            from vlib.pathcond import literals
            hit = [False]
            paths = enumerate_paths(cfg, e[2], lambda blk: blk.term.kind == "return", du=du, on_limit=lambda: hit.__setitem__(0, True))
            pi = names.index("Plain") if "Plain" in names else -1; si = vnames.index("Struct") if "Struct" in vnames else -1
            set_bbs = {x[2] for x in sets}; map_bbs = {x[2] for x in maps}
            bad = 0; n = 0
            for pth in ([] if hit[0] else paths):
                ends_set = any(bb in set_bbs for bb in pth); ends_map = any(bb in map_bbs for bb in pth)
                if not (ends_set or ends_map): continue
                n += 1
                is_plain = None; is_struct = None; empty = None
                full = [e[0]] + pth
                for i in range(len(full) - 1):
                    t = body.blocks[full[i]].term
                    if t.kind != "switch" or t.discr is None or t.discr.place is None or t.discr.place.p: continue
                    ds = du.value_defs(t.discr.place.l)
                    if len(ds) == 1 and ds[0][0] == "stmt" and ds[0][1].rv == "discr" and ds[0][1].rplace is not None and full[i] != e[0]:
                        pl = ds[0][1].rplace
                        labs = [lab for lab, d in cfg.succ[full[i]] if d == full[i + 1]]
                        if not labs: continue
                        if any("as Plain" in x for x in pl.p): is_struct = (labs[0] == si)
                        else: is_plain = (labs[0] == pi)
                for lit in literals(body, full):
                    if lit.kind == "call" and lit.obj.callee.name == "is_empty": empty = lit.truth
                allthree = is_plain is True and is_struct is True and empty is True
                if ends_set and not allthree: bad += 1
                if ends_map and allthree: bad += 1
            if hit[0] or n == 0 or bad: why.append("[string]() is not mapped to StringHashSet exactly when the struct is empty (%d of %d paths through the Dict arm disagree)" % (bad, n))
    cx.check(not why, rule, "gen:VTypeExt:table", body.sp, "; ".join(why), note_ok="Vec<T> | StringHashSet for [string]() | StringHashMap<T> | Option<T>, each recursing into T")


def r6(cx, ast):
    f = WholeFile(ast, GEN)
    tpl = [t for e, t in quotes(f) if "serde_json::from_value(args)" in t]
    ok = len(tpl) == 1 and re.search(r"Err\(\w+\)=>\{.*?call\.reply_invalid_parameter\(.*?\);returnErr\(", tpl[0]) is not None \
         and re.search(r'else\{call\.reply_invalid_parameter\("parameters"\.into\(\)\)\}', tpl[0]) is not None and re.search(r"ifletSome\(\w+\)=\w+\.parameters", tpl[0]) is not None
    cx.check(ok, "C08.R6", "gen:dispatch-arm-template", GEN, "the dispatch arm for methods with inputs does not answer bad/missing parameters with InvalidParameter", note_ok="from_value Err -> reply_invalid_parameter + Err ; no parameters -> reply_invalid_parameter(\"parameters\")")
    n = 0
    for body in proxies(cx):
        cx.saw(body)
        cfg = Cfg(body); du = DefUse(body); sl = Slice(body, du)
        inv = {t.bb for t in body.calls("=reply_invalid_parameter")}
        for i, t in enumerate(body.calls("=from_value")):
            n += 1
            err = None
            for b in sorted(cfg.reach(t.target)):
                term = body.blocks[b].term
                if term.kind == "switch":
                    c = switch_cond(body, du, term)
                    if c.kind == "discr" and c.place.l == t.dest.l: err = variant_edge(term, 1); break
            good = err is not None and cfg.must_pass(err[2], cfg.returns(), inv)
            cx.check(good, "C08.R6", "%s:%s:from_value#%d" % (body.pkg, body.impl_self, i), "%s %s" % (t.sp, body.path), "ill-typed parameters do not lead to an InvalidParameter reply", note_ok="Err -> reply_invalid_parameter -> return")
    cx.floor("C08.R6", "from_value sites in generated dispatchers", n, 15)


def r7(cx):
    send = cx.mir.one("varlink", "MethodCall::<MRequestParameters, MReply, MError>::send")
    cx.saw(send)
    du = DefUse(send); sl = Slice(send, du, extra_pass=("=branch", "=map_err"))
    from .client_common import request_builders
    cr = request_builders(send)
    why = []
    if len(cr) != 1: why.append("%d places build the Request" % len(cr))
    else:
        p = cr[0][2]
        ds = du.value_defs(p.place.l) if p.place is not None else []
        some = [d for k, d in ds if k == "stmt" and d.rv == "agg" and isinstance(d.agg, dict) and d.agg.get("variant") == "Some"]
        if len(ds) != 1 or len(some) != 1: why.append("the parameters member is not unconditionally Some(..) (%d definitions): methods whose inputs are all optional would be called without `parameters` and rejected by the generated server" % len(ds))
        elif not any(k == "call" and o.callee.name == "to_value" for k, o in sl.origins(some[0].ops[0])): why.append("parameters are not serde_json::to_value(request)")
    assigns = [s for s in send.stmts() if s.kind == "assign" and s.lhs.p and s.lhs.fields()[-1:] == ["parameters"] and "Request" in send.ty(s.lhs.l)]
    if assigns: why.append("Request.parameters is modified after creation at %s" % [s.sp for s in assigns])
    cx.check(not why, "C08.R7", "varlink:send:parameters-always-sent", send.sp, "; ".join(why), note_ok="Request::create(method, Some(to_value(args)?))")
