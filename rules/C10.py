"""C10 — formatting preserves the definition and is idempotent (structural necessary conditions only)."""
import re
from vlib.astfacts import tt_walk, lit_str_value
from vlib.facts import AnchorMissing

F = "varlink_parser/src/format.rs"
COLORIZE = ("black", "red", "green", "yellow", "blue", "magenta", "purple", "cyan", "white", "bright_", "bold", "dimmed", "italic", "underline", "normal", "on_", "color(", "truecolor")
LAYOUT = ("get_oneline", "get_multiline")
# reviewed deviations between a plain routine and its coloured twin (both invisible at the top level, indent == 0, which is what the property restricts itself to)
TWIN_DEVIATIONS = {
    ("IDL<'_>", "get_multiline", "format-literal", "{:indent$}error {} ", "error {} "): "error-line width is measured including the indent in the plain routine only; identical for indent == 0",
}


def nz(x): return re.sub(r"\s+", "", x)


def run(cx):
    cx.rule("C10.R1", "declaration order: every IDL formatting routine walks typedef_keys / method_keys / error_keys (the lists filled in order of appearance) and only indexes the BTreeMaps with those keys; from_token pushes every member onto its key list")
    cx.rule("C10.R2", "widths are measured on plain text: in every *_colored routine each len() that feeds a layout decision is taken from a value produced without colouring (escape sequences must not influence line breaking)")
    cx.rule("C10.R3", "the coloured twin agrees with the plain routine: same decision skeleton (conditions and loops), same sequence of layout calls, same format literals, up to a table of reviewed deviations; a twin that simply delegates to the plain routine is accepted")
    cx.rule("C10.R4", "documentation is re-emitted without loss: the only operations applied to a .doc text are split('\\n') / per-line indentation / join(\"\\n\") (no lines(), trim or replace), so comments survive a format/parse round trip for every line-ending convention")
    ast = cx.ast
    fns = ast.file(F)["_fns"]
    by = {}
    for f in fns: by[(nz(f.self_ty), f.name)] = f
    r1(cx, by); r2(cx, fns); r3(cx, by); r4(cx, fns)
    cx.notes.append("C10: round trip and idempotence over all definitions x widths are runtime equivalences and are NOT claimed; the rules decide necessary conditions only")


def r1(cx, by):
    n = 0
    for name in ("get_oneline", "get_multiline", "get_oneline_colored", "get_multiline_colored"):
        f = by.get(("IDL<'_>", name))
        if f is None: raise AnchorMissing("IDL::%s" % name)
        loops = [e for e in f.events if e["k"] == "for"]
        kinds = []
        for e in loops:
            it = nz(e["text"])
            m = re.match(r"self\.(typedef|method|error)_keys\.iter\(\)\.map\(\|(\w+)\|&self\.(typedefs|methods|errors)\[\2\]\)", it)
            key = "fmt:IDL::%s:loop@%s" % (name, (m.group(1) if m else it[:30]))
            if m and {"typedef": "typedefs", "method": "methods", "error": "errors"}[m.group(1)] == m.group(3):
                n += 1; kinds.append(m.group(1))
                cx.ok("C10.R1", key, "%s:%d" % (F, e["line"]), "walks %s_keys, indexes %s" % (m.group(1), m.group(3)))
            else:
                cx.bad("C10.R1", key, "%s:%d" % (F, e["line"]), "members are iterated as `%s`: BTreeMap order is alphabetical, the declaration order of the source would be lost (or keys and map do not match)" % e["text"][:80])
        cx.check(kinds == ["typedef", "method", "error"], "C10.R1", "fmt:IDL::%s:sections" % name, "%s:%d" % (F, f.line), "sections are emitted as %s (expected typedefs, methods, errors — the twin routines and the parser's grouping rely on it)" % kinds, note_ok="types, methods, errors")
        # no direct iteration of the maps
        direct = [e for e in f.events if e["k"] == "method" and e["text"] in ("values", "keys", "iter", "into_iter", "values_mut") and re.search(r"self\.(typedefs|methods|errors)$", nz(e["recv"]))]
        cx.check(not direct, "C10.R1", "fmt:IDL::%s:no-map-iteration" % name, "%s:%d" % (F, f.line), "iterates a BTreeMap directly at line(s) %s" % [e["line"] for e in direct], note_ok="maps are only indexed")
    cx.floor("C10.R1", "member loops over the key lists", n, 12)
    # from_token pushes onto each key list (MIR-checked in C11.R2): cross-reference
    ft = cx.ast.fn("varlink_parser/src/lib.rs", "from_token")
    pushes = sorted({re.sub(r"^.*\.", "i.", nz(e["recv"])) for f2 in cx.ast.file("varlink_parser/src/lib.rs")["_fns"] for e in f2.events if e["k"] == "method" and e["text"] == "push" and nz(e["recv"]).endswith("_keys")})
    if pushes != ["i.error_keys", "i.method_keys", "i.typedef_keys"]:
        # the pushes may sit in a helper that receives the list by reference: ask the MIR view of from_token which fields of the IDL
        # under construction the pushed-onto vectors are
        from .C11 import recv_fields
        from vlib.cfg import DefUse
        fb = cx.mir.one("varlink_parser", "IDL::<'a>::from_token")
        fdu = DefUse(fb)
        got = set()
        for t in fb.calls("=push"):
            if t.args: got |= {"i." + f for f in recv_fields(fb, fdu, t.args[0]) if f.endswith("_keys")}
        pushes = sorted(got)
    cx.check(pushes == ["i.error_keys", "i.method_keys", "i.typedef_keys"], "C10.R1", "parser:from_token:key-lists-filled", "varlink_parser/src/lib.rs:%d" % ft.line, "key lists pushed: %s" % pushes, note_ok="one push per member kind, in order of appearance")


def binding(f, name, line):
    init = None
    for l in f.events:
        if l["k"] == "let" and nz(l["pat"]).split(":")[0].replace("mut", "") == name and l["line"] <= line: init = l["text"]
    return init


def coloured(text):
    t = nz(text)
    if "_colored(" in t: return "calls a *_colored routine"
    for c in COLORIZE:
        if re.search(r"\.%s" % re.escape(c), t): return "applies Colorize::%s" % c.rstrip("(_")
    return None


def r2(cx, fns):
    n = 0
    for f in fns:
        if not f.name.endswith("_colored"): continue
        seen = {}
        for e in f.events:
            if e["k"] != "method" or e["text"] != "len": continue
            recv = nz(e["recv"])
            init = binding(f, recv, e["line"]) if re.fullmatch(r"\w+", recv) else e["recv"]
            k = seen.get(recv, 0); seen[recv] = k + 1
            key = "fmt:%s::%s:len(%s)#%d" % (nz(f.self_ty), f.name, recv, k)
            site = "%s:%d" % (F, e["line"])
            n += 1
            if init is None:
                cx.bad("C10.R2", key, site, "cannot find what `%s` is measured from" % recv); continue
            why = coloured(init)
            cx.check(why is None, "C10.R2", key, site, "the measured text `%s` %s: terminal escape bytes are counted, so the coloured rendering breaks lines differently from the plain one" % (init[:70], why),
                     note_ok="measured on plain text: %s" % nz(init)[:60])
    cx.floor("C10.R2", "len() measurements in coloured routines", n, 3)


def fn_profile(f):
    conds = []; lits = []; calls = []
    for e in f.events:
        if e["k"] in ("if", "while"): conds.append((e["k"], nz(e["text"]).replace("_colored", "")))
        elif e["k"] == "for": conds.append(("for", nz(e["text"]).replace("_colored", "")))
        elif e["k"] == "method" and e["text"].replace("_colored", "") in LAYOUT:
            calls.append((e["text"].replace("_colored", ""), nz(e["recv"])))
        elif e["k"] == "macro":
            toks = e["tokens"]
            if e["name"] == "format" and toks and toks[0]["t"] == "lit": lits.append(lit_str_value(toks[0]["s"]))
            flat = [t for t in tt_walk(toks)]
            for i, t in enumerate(flat):
                if t["t"] == "ident" and t["s"].replace("_colored", "") in LAYOUT and i >= 2 and flat[i - 1]["t"] == "punct" and flat[i - 1]["s"] == ".":
                    # receiver: the identifier path before the dot
                    j = i - 2; path = []
                    while j >= 0 and (flat[j]["t"] == "ident" or (flat[j]["t"] == "punct" and flat[j]["s"] == ".")):
                        path.append(flat[j]["s"]); j -= 1
                    calls.append((t["s"].replace("_colored", ""), "".join(reversed(path))))
        elif e["k"] == "opassign" and e["text"].strip().startswith('"'):
            lits.append("+=" + e["text"].strip())
    return conds, lits, calls


def r3(cx, by):
    n = 0
    for (ty, name), f in sorted(by.items()):
        if not name.endswith("_colored") or not ty: continue
        p = by.get((ty, name[: -len("_colored")]))
        key = "fmt:%s::%s" % (ty, name)
        site = "%s:%d" % (F, f.line)
        if p is None:
            cx.bad("C10.R3", key, site, "no plain twin"); continue
        n += 1
        # pure delegation
        body_calls = [e for e in f.events if e["k"] == "method"]
        if len(body_calls) == 1 and body_calls[0]["text"] == p.name and nz(body_calls[0]["recv"]) == "self" and not [e for e in f.events if e["k"] in ("if", "for", "macro")]:
            cx.ok("C10.R3", key, site, "delegates to %s" % p.name); continue
        c1, l1, k1 = fn_profile(p); c2, l2, k2 = fn_profile(f)
        why = []
        if c1 != c2:
            i = next((i for i, (x, y) in enumerate(zip(c1, c2)) if x != y), min(len(c1), len(c2)))
            why.append("decision skeleton differs at #%d: plain `%s` vs coloured `%s`" % (i, c1[i][1][:60] if i < len(c1) else "-", c2[i][1][:60] if i < len(c2) else "-"))
        m1 = [x for x in k1 if x[0] == "get_multiline"]; m2 = [x for x in k2 if x[0] == "get_multiline"]
        if m1 != m2:
            i = next((i for i, (x, y) in enumerate(zip(m1, m2)) if x != y), min(len(m1), len(m2)))
            why.append("multi-line layout call #%d differs: plain %s vs coloured %s" % (i, m1[i] if i < len(m1) else "-", m2[i] if i < len(m2) else "-"))
        o1 = [x for x in k1 if x[0] == "get_oneline"]; o2 = [x for x in k2 if x[0] == "get_oneline"]
        # the coloured routine may render a measured element again in colour (one extra one-line call per decision); it must not have fewer
        if len(o2) < len(o1) or not set(r for _, r in o1) <= set(r for _, r in o2): why.append("one-line layout calls differ: plain %s vs coloured %s" % (o1[:4], o2[:4]))
        if len(l1) != len(l2): why.append("%d vs %d format literals" % (len(l1), len(l2)))
        for i, (x, y) in enumerate(zip(l1, l2)):
            if x != y:
                dk = (ty, p.name, "format-literal", x, y)
                if dk in TWIN_DEVIATIONS: cx.note("C10.R3", key + ":deviation#%d" % i, site, "reviewed deviation: " + TWIN_DEVIATIONS[dk])
                else: why.append("format literal #%d differs: plain %r vs coloured %r" % (i, x, y))
        cx.check(not why, "C10.R3", key, site, "; ".join(why[:3]), note_ok="%d decisions, %d layout calls, %d literals agree with the plain routine" % (len(c1), len(k1), len(l1)))
    cx.floor("C10.R3", "coloured routines with a plain twin", n, 12)


def r4(cx, fns):
    n = 0
    allowed = {"split", "map", "collect", "join", "is_empty", "to_string", "into", "as_ref"} | {c.rstrip("(_") for c in COLORIZE}
    for f in fns:
        if not f.name.startswith("get_") and f.name != "fmt": continue
        seen = 0
        for e in f.events:
            if e["k"] != "method": continue
            r = nz(e["recv"])
            if not re.match(r"(self|\w)\.doc(\.|$)", r): continue
            n += 1; seen += 1
            key = "fmt:%s::%s:doc.%s#%d" % (nz(f.self_ty), f.name, e["text"], seen)
            site = "%s:%d" % (F, e["line"])
            why = None
            if e["text"] not in allowed: why = "applies .%s() to a documentation text" % e["text"]
            elif e["text"] == "split" and [nz(a) for a in e["args"]] != ["'\\n'"]: why = "splits documentation at %s" % e["args"]
            elif e["text"] == "join" and [nz(a) for a in e["args"]] != ['"\\n"']: why = "joins documentation lines with %s" % e["args"]
            if re.search(r"\.(lines|trim\w*|replace\w*|to_\w*case|split_whitespace|split_terminator)\(", r): why = "the documentation text has been through `%s`" % r[:60]
            cx.check(why is None, "C10.R4", key, site, "%s: comment text is altered by formatting (e.g. the \\r of CRLF line endings is dropped), so the re-parsed definition differs from the original" % why,
                     note_ok=".%s(%s)" % (e["text"], ",".join(nz(a) for a in e["args"])[:20]))
    # docs interpolated whole into format! (typedef branch of the plain routine) are trivially lossless
    cx.floor("C10.R4", "operations on documentation texts", n, 20)
