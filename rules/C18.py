"""C18 — the CLI bridge is transparent."""
from vlib.cfg import Cfg, DefUse, Slice, ref_chain, ref_base, forward_taint
from vlib.cond import switch_cond, bool_edges
from vlib.facts import AnchorMissing

PKG = "varlink-cli"
FOLLOW_ARG0 = {"try_clone", "new_read", "as_ref", "as_mut", "take", "unwrap", "expect", "from_raw_fd", "as_raw_fd", "deref", "deref_mut", "by_ref",
               "branch", "map_err", "buffer", "add", "to_string", "from_slice", "as_bytes", "as_slice", "index", "as_mut_slice", "into", "from", "clone", "to_vec", "write", "read", "lock"}
# per function: which arguments are the client's side / the service's side
ROLES = {
    "proxy::handle": dict(client={2, 3}, service=set()),
    "proxy::handle_connect": dict(client={2, 3}, service={1}),
}


class Sides:
    """provenance-based colouring: 'client' = derived from the stdin/stdout arguments, 'service' = derived from varlink_connect()/the Connection"""
    def __init__(self, body, roles, upvar_sides=None):
        self.body = body; self.du = DefUse(body); self.roles = roles; self.upvar_sides = upvar_sides or {}
        self.read_untils = [t for t in body.calls("=read_until")] + [t for t in body.calls("=read_to_end", "=read_line", "=read")]
    def of_local(self, local, depth=0, seen=None):
        seen = seen if seen is not None else set()
        if local in seen or depth > 40: return set()
        seen.add(local)
        out = set()
        body = self.body
        if body.kind == "closure" or ("{closure" in body.path):
            pass
        for k, d in self.du.defs.get(local, []):
            if k == "arg":
                if d in self.roles["client"]: out.add("client")
                elif d in self.roles["service"]: out.add("service")
                elif d == 1 and self.upvar_sides: pass
                continue
            if k == "call":
                t = d
                if t.callee.indirect: continue
                n = t.callee.name
                if n == "varlink_connect" or "varlink_connect" in t.callee.path: out.add("service"); continue
                if n in ("new",) and "BufReader" in t.callee.path and t.args and t.args[0].place is not None:
                    out |= self.of_local(t.args[0].place.l, depth + 1, seen); continue
                if n == "new" and "Vec" in t.callee.path:
                    # a buffer: its side is the side of the reader that fills it
                    for r in self.read_untils:
                        for a in r.args[1:]:
                            if a.place is not None and local in ref_chain(self.du, a.place.l):
                                out |= self.of_place_op(r.args[0], depth + 1, seen)
                    continue
                if n in FOLLOW_ARG0 and t.args and t.args[0].place is not None:
                    out |= self.of_place(t.args[0].place, depth + 1, seen); continue
                continue
            s = d
            if s.kind != "assign": continue
            if s.rv in ("use", "cast", "repeat"):
                if s.ops and s.ops[0].place is not None: out |= self.of_place(s.ops[0].place, depth + 1, seen)
            elif s.rv in ("ref", "rawptr"):
                out |= self.of_place(s.rplace, depth + 1, seen)
            elif s.rv == "agg":
                for o in s.ops:
                    if o.place is not None: out |= self.of_place(o.place, depth + 1, seen)
        return out
    def of_place(self, place, depth=0, seen=None):
        # closure upvar: _1.N
        if place.l == 1 and self.upvar_sides and place.p:
            for e in place.p:
                if e.startswith("."):
                    try: idx = int(e[1:].split("#")[0])
                    except ValueError: break
                    return set(self.upvar_sides.get(idx, set()))
        return self.of_local(place.l, depth, seen)
    def of_place_op(self, op, depth=0, seen=None):
        if op.place is None: return set()
        return self.of_place(op.place, depth, seen)


def closure_upvar_sides(parent, psides, clos_path):
    """sides of the captured values of closure `clos_path`, from the aggregate that builds it in the parent"""
    out = {}
    for s in parent.stmts():
        if s.kind == "assign" and s.rv == "agg" and isinstance(s.agg, dict) and s.agg.get("closure", "") == clos_path:
            for i, o in enumerate(s.ops):
                out[i] = psides.of_place_op(o)
    return out


def run(cx):
    cx.rule("C18.R1", "directional flow: bytes read from the client side are written only to the service side and vice versa (provenance colouring from the stdin/stdout arguments and varlink_connect()/the Connection); every copy() pairs a reader and a writer of opposite sides")
    cx.rule("C18.R2", "nullness: an Option taken out of the shared Connection (stream/child/reader/writer) is unwrapped only behind a presence test of the same field")
    cx.rule("C18.R3", "configured resolver is used: every address the bridge connects to derives from the resolver argument or from a Resolve reply, never from a string literal")
    cx.rule("C18.R4", "agreement with the library: after a locally generated InterfaceNotFound reply the bridge goes on with the next request (no success return without reading again)")
    cx.rule("C18.R5", "termination parity: the results of proxy::handle and proxy::handle_connect go through the same BrokenPipe-is-normal-end handling; no raw close() of a descriptor that still has an owner")
    cx.rule("C18.R6", "forward then wait: in proxy.rs every write_all is followed by a flush of the same writer on every path before the bridge blocks in another read (or returns): bytes already received are never parked in a buffer")
    cx.rule("C18.R7", "close detection precedes reading: in WatchClose::read the data descriptor is read only after the scan for hang-up/error events of both descriptors found nothing, and a hang-up is reported as BrokenPipe")
    cx.rule("C18.R8", "the relay of one call ends with the reply that ends it: after a reply was parsed the bridge goes back to reading the service exactly when reply.continues == Some(true) (absent and Some(false) both end the call) — evaluated with the member seeded absent / Some(false) / Some(true)")
    cx.rule("C18.R9", "an upgraded session starts flowing at once in both directions: between the relay of the upgrade reply and the start of the two copy threads the bridge does not block in a read (bytes already buffered are taken with BufReader::buffer(), which never waits) — otherwise what the service says first is withheld until the client speaks")
    cx.rule("C18.R10", "only service-info queries are redirected: the bridge rewrites the method of a request (to the resolver's GetInfo) only behind an equality test against a literal of the org.varlink.service interface — a method that merely happens to be called GetInfo on some other interface goes to its own service")
    cx.rule("C18.R11", "an interrupted read is retried, not taken for the end of the stream: in proxy::copy the edge on which the read error's kind equals Interrupted leads back to a read on every path before the function can return (EINTR from epoll_wait after SIGSTOP/SIGCONT must not tear the session down)")
    r1(cx); r2(cx); r3(cx); r4(cx); r5(cx); r6(cx); r7(cx); r7_level(cx); r8(cx); r9(cx); r10(cx); r11(cx)


def r1(cx):
    nflows = 0
    for fn, roles in ROLES.items():
        body = cx.mir.one(PKG, fn)
        cx.saw(body)
        S = Sides(body, roles)
        writes = [t for t in body.calls("=write_all", "=write") if t.args and len(t.args) >= 2]
        for i, t in enumerate(writes):
            dst = S.of_place_op(t.args[0]); src = S.of_place_op(t.args[1])
            key = "%s:%s:%s#%d" % (PKG, fn, t.callee.name, i)
            site = "%s %s" % (t.sp, fn)
            if not dst or not src:
                cx.note("C18.R1", key, site, "flow not classified (dst=%s src=%s)" % (sorted(dst), sorted(src))); continue
            nflows += 1
            good = len(dst) == 1 and len(src) == 1 and dst != src
            cx.check(good, "C18.R1", key, site, "bytes from the %s side are written to the %s side" % ("/".join(sorted(src)), "/".join(sorted(dst))),
                     note_ok="%s -> %s" % ("/".join(sorted(src)), "/".join(sorted(dst))))
        # copy() calls inside the thread closures
        for c in cx.mir.bodies(PKG):
            if c.promoted is not None or c.parent != fn or not c.path.startswith(fn + "::{closure"): continue
            copies = [t for t in c.calls("proxy::copy") if t.callee.name == "copy"]
            if not copies: continue
            cx.saw(c)
            ups = closure_upvar_sides(body, S, c.path)
            CS = Sides(c, dict(client=set(), service=set()), upvar_sides=ups)
            for j, t in enumerate(copies):
                rs = CS.of_place_op(t.args[0]); ws = CS.of_place_op(t.args[1])
                key = "%s:%s:copy#%d" % (PKG, c.path, j)
                site = "%s %s" % (t.sp, c.path)
                if not rs or not ws:
                    cx.bad("C18.R1", key, site, "copy() between streams whose sides cannot be determined (reader %s, writer %s)" % (sorted(rs), sorted(ws))); continue
                nflows += 1
                cx.check(len(rs) == 1 and len(ws) == 1 and rs != ws, "C18.R1", key, site,
                         "copy() reads from the %s side and writes to the %s side" % ("/".join(sorted(rs)), "/".join(sorted(ws))),
                         note_ok="%s -> %s" % ("/".join(sorted(rs)), "/".join(sorted(ws))))
    cx.floor("C18.R1", "classified byte flows", nflows, 4)


CONN_FIELDS = ("stream", "child", "reader", "writer", "tempdir")


def r2(cx):
    n = 0
    for body in cx.mir.bodies(PKG):
        if body.promoted is not None: continue
        du = None
        for t in body.calls("=unwrap", "=expect"):
            if "Option" not in t.callee.path: continue
            du = du or DefUse(body)
            sl = Slice(body, du, pass_through=("=deref", "=deref_mut", "=as_ref", "=as_mut", "=borrow_mut"))
            field = None
            for k, o in sl.origins(t.args[0]):
                if k == "call" and o.callee.name in ("take", "as_ref", "as_mut", "clone"):
                    ds = du.defs.get(o.args[0].place.l, [])
                    for kk, dd in ds:
                        if kk == "stmt" and dd.rplace is not None:
                            fs = dd.rplace.fields()
                            base_ty = body.ty(dd.rplace.l)
                            if fs and fs[-1] in CONN_FIELDS and ("Connection" in base_ty):
                                field = fs[-1]
            if field is None: continue
            n += 1
            cfg = Cfg(body)
            # a presence test on the same field whose "absent" edge cannot reach the unwrap
            guarded = False
            for b in body.blocks:
                if b.cleanup or b.term.kind != "switch": continue
                c = switch_cond(body, du, b.term)
                if c.kind == "call" and c.term.callee.name in ("is_none", "is_some"):
                    ds = du.defs.get(c.term.args[0].place.l, [])
                    same = any(kk == "stmt" and dd.rplace is not None and dd.rplace.fields()[-1:] == [field] for kk, dd in ds)
                    if not same: continue
                    te, fe = bool_edges(b.term, c)
                    absent = te if c.term.callee.name == "is_none" else fe
                    if t.bb not in cfg.after(absent): guarded = True
            cx.check(guarded, "C18.R2", "%s:%s:unwrap-of-Connection.%s" % (PKG, body.path, field), "%s %s" % (t.sp, body.path),
                     "Connection.%s is unwrapped without a presence test: connections built by the *_no_rw / with_address constructors leave it None (definite panic on that bridge mode)" % field,
                     note_ok="behind a presence test of Connection.%s" % field)
    # the child of a connection is optional: handle_connect must not demand it
    hc = cx.mir.one(PKG, "proxy::handle_connect")
    takes = 0
    du = DefUse(hc)
    for t in hc.calls("=take"):
        ds = du.defs.get(t.args[0].place.l, [])
        if any(kk == "stmt" and dd.rplace is not None and dd.rplace.fields()[-1:] == ["child"] for kk, dd in ds): takes += 1
    cx.floor("C18.R2", "Connection.child uses in handle_connect", takes, 1)
    cx.notes.append("C18.R2: %d unwraps of Connection fields examined" % n)


def r3(cx):
    body = cx.mir.one(PKG, "proxy::handle")
    du = DefUse(body)
    sl = Slice(body, du, extra_pass=("=as_str", "=deref", "=borrow"))
    resolves = [t for t in body.calls("=call") if "MethodCall" in t.callee.path]
    seeds = {1} | {t.dest.l for t in resolves}
    T = forward_taint(body, du, seeds)
    conns = [t for t in body.calls() if not t.callee.indirect and (t.callee.name == "varlink_connect" or (t.callee.name in ("new", "with_address", "with_address_no_rw") and "Connection" in t.callee.path))]
    cx.floor("C18.R3", "connect sites in proxy::handle", len(conns), 2)
    for i, t in enumerate(conns):
        a = t.args[0]
        orig = sl.origins(a)
        lits = [o.cstr() for k, o in orig if k == "const" and o.cstr() is not None]
        chain = set(ref_chain(du, a.place.l)) if a.place is not None else set()
        for k, o in orig:
            if k == "call": chain.add(o.dest.l)
        derived = bool(chain & T) or any(k == "arg" and o == 1 for k, o in orig)
        key = "%s:proxy::handle:%s#%d:address" % (PKG, t.callee.name, i)
        cx.check(not lits and derived, "C18.R3", key, "%s proxy::handle" % t.sp,
                 ("connects to the literal address %s, ignoring the configured resolver; " % lits if lits else "") + ("" if derived else "address does not derive from the resolver argument or a Resolve reply"),
                 note_ok="address derives from the resolver argument / a Resolve reply")
    r3_cache(cx, body, du)
    # no address literal anywhere in the function
    lits = []
    for s in body.stmts():
        if s.kind == "assign":
            for o in s.ops:
                if o.is_const and o.cstr() and (o.cstr().startswith("unix:") or o.cstr().startswith("tcp:")): lits.append((o.cstr(), s.sp))
    for t in body.calls():
        for a in t.args:
            if a.is_const and a.cstr() and (a.cstr().startswith("unix:") or a.cstr().startswith("tcp:")): lits.append((a.cstr(), t.sp))
    cx.check(not lits, "C18.R3", "%s:proxy::handle:no-address-literal" % PKG, body.sp, "hard-coded address(es) %s" % lits, note_ok="no hard-coded address")


def r3_cache(cx, body, du):
    """the (interface, address) cache is updated as a pair: after the cached address is overwritten inside the request loop, the remembered
    interface name is overwritten too before the next request is read or the address is used"""
    cfg = Cfg(body)
    conns = [t for t in body.calls("=varlink_connect")]
    if len(conns) != 1 or conns[0].args[0].place is None: raise AnchorMissing("proxy::handle: varlink_connect(&address)")
    A = ref_base(du, conns[0].args[0].place.l)[0]
    # the remembered interface: the String compared (ne/eq) on the edge that guards the address update
    L = None
    for t in body.calls("=ne", "=eq"):
        if t.target is None or len(t.args) != 2: continue
        locs = [ref_base(du, a.place.l)[0] for a in t.args if a.place is not None]
        if len(locs) == 2 and all("String" in body.ty(l) for l in locs):
            # one side is assigned once per iteration (iface), the other persists across iterations
            for l in locs:
                wr = [x for x in body.calls("=clone_from") if x.args and x.args[0].place is not None and ref_base(du, x.args[0].place.l)[0] == l]
                if wr: L = l
    if L is None: raise AnchorMissing("proxy::handle: remembered interface name (compared with != and updated with clone_from)")
    def writes(loc):
        out = []
        for st in body.stmts():
            if st.kind == "assign" and st.lhs.l == loc and not st.lhs.p: out.append((st.bb, st.sp))
        for t in body.calls():
            if t.callee.indirect or not t.args or t.args[0].place is None: continue
            if t.callee.name in ("clone_from", "push_str", "clear", "insert_str", "truncate", "replace_range", "clone_into") and ref_base(du, t.args[0].place.l)[0] == loc: out.append((t.bb, t.sp))
            if t.dest is not None and t.dest.l == loc and not t.dest.p: out.append((t.bb, t.sp))
        return out
    Lw = {bb for bb, _ in writes(L)}
    client_reads = [t for t in body.calls("=read_until") if cfg.dominates(t.bb, conns[0].bb)]
    if not client_reads: raise AnchorMissing("proxy::handle: request read dominating the connect")
    stops = [conns[0].bb, client_reads[0].bb] + cfg.returns()
    n = 0
    for i, (bb, sp) in enumerate(sorted(set(writes(A)))):
        if bb not in cfg.reach(client_reads[0].bb): continue          # initialisation before the loop
        n += 1
        succ = [d for _, d in cfg.succ[bb]]
        ok = bb in Lw or all(cfg.must_pass(d, stops, Lw) for d in succ)
        cx.check(ok, "C18.R3", "%s:proxy::handle:address-write#%d:cache-pair" % (PKG, n - 1), "%s proxy::handle" % sp,
                 "the cached address is overwritten here, but a path reaches the next request (or the connect) without updating the remembered interface name: a later request for the previously resolved interface skips the lookup and uses an address that belongs to another (or no) interface",
                 note_ok="followed by the update of the remembered interface on every path")
    cx.floor("C18.R3", "writes to the cached address inside the request loop", n, 1)


def r4(cx):
    body = cx.mir.one(PKG, "proxy::handle")
    cfg = Cfg(body); du = DefUse(body)
    S = Sides(body, ROLES["proxy::handle"])
    client_reads = {t.bb for t in body.calls("=read_until") if S.of_place_op(t.args[0]) == {"client"}}
    if not client_reads: raise AnchorMissing("proxy::handle: no read_until on the client side")
    okrets = {s.bb for s in body.stmts() if s.kind == "assign" and s.lhs.l == 0 and not s.lhs.p and s.rv == "agg" and isinstance(s.agg, dict) and s.agg.get("variant") == "Ok"}
    replies = [t for t in body.calls("=reply_interface_not_found", "=reply_invalid_parameter", "=reply_method_not_found")]
    cx.floor("C18.R4", "locally generated error replies in proxy::handle", len(replies), 3)
    for i, t in enumerate(replies):
        # innermost loop header around the reply: a dominator of the reply that the reply can reach again
        dom = cfg.dominators().get(t.bb, set())
        after = cfg.reach(t.target)
        heads = [h for h in dom if h in after and h != t.bb]
        head = min(heads, key=lambda h: len(cfg.dominators()[h])) if heads else None      # outermost loop header containing the reply
        r = cfg.reach(t.target, blocked_nodes=client_reads | ({head} if head is not None else set()))
        ends = sorted(b for b in okrets if b in r)
        goes_on = any(b in cfg.reach(t.target) for b in client_reads)
        cx.check(not ends and goes_on, "C18.R4", "%s:proxy::handle:%s#%d:continues" % (PKG, t.callee.name, i), "%s proxy::handle" % t.sp,
                 "after answering the error itself the bridge returns Ok instead of reading the next request: requests sent behind an unknown interface are dropped, unlike with a direct connection",
                 note_ok="reply, then next request")


def r5(cx):
    vb = cx.mir.one(PKG, "varlink_bridge")
    cx.saw(vb)
    du = DefUse(vb)
    calls = [t for t in vb.calls() if not t.callee.indirect and t.callee.name in ("handle", "handle_connect") and "proxy" in t.callee.path]
    cx.floor("C18.R5", "bridge entry points called by varlink_bridge", len(calls), 2)
    def filters(body):
        # a body that tests io::ErrorKind::BrokenPipe on a downcast error
        return bool(body.calls("=downcast_ref")) and any(s.kind == "assign" and s.rv == "agg" and isinstance(s.agg, dict) and s.agg.get("variant") == "BrokenPipe" for s in body.stmts()) or \
               bool(body.calls("=downcast_ref")) and any(o.is_const and "BrokenPipe" in str((o.const or {}).get("dbg", "")) for s in body.stmts() if s.kind == "assign" for o in s.ops)
    idx = {b.path: b for b in cx.mir.bodies(PKG) if b.promoted is None}
    def is_broken_pipe(body, sl, op):
        from vlib.facts import promoted_body
        def bp(stmts): return any(s.kind == "assign" and s.rv == "agg" and isinstance(s.agg, dict) and s.agg.get("variant") == "BrokenPipe" for s in stmts)
        for k, o in sl.origins(op, follow_agg=False):
            if k == "agg" and bp([o]): return True
            if k == "const":
                c = o.const or {}
                if "BrokenPipe" in str(c.get("val", "")): return True
                dbg = str(c.get("dbg", "") or "")
                if "promoted[" in dbg:
                    pb = promoted_body(body, dbg)
                    if pb is not None and (bp(pb.stmts()) or any(o2.is_const and "BrokenPipe" in str((o2.const or {}).get("val", "")) for s2 in pb.stmts() if s2.kind == "assign" for o2 in s2.ops)): return True
                elif "BrokenPipe" in dbg: return True
        return False
    def filter_decides(body, start, env0):
        """with the bridged result assumed Err: Ok is returned exactly on the paths that found `kind() == BrokenPipe`"""
        from vlib.cfg import enumerate_paths
        from vlib.pathcond import literals
        from vlib import absval
        cfg = Cfg(body); bdu = DefUse(body); sl = Slice(body, bdu)
        hit = [False]
        paths = enumerate_paths(cfg, start, lambda blk: blk.term.kind == "return", du=bdu, env0=env0, on_limit=lambda: hit.__setitem__(0, True))
        if hit[0]: return None
        n = 0; wrong = 0
        for pth in paths:
            if pth[-1] < 0 or body.blocks[pth[-1]].term.kind != "return": continue
            n += 1
            found = False
            for lit in literals(body, pth):
                if lit.kind != "call" or lit.obj.callee.name not in ("eq", "ne") or len(lit.obj.args) != 2: continue
                a, b = lit.obj.args
                for x, y in ((a, b), (b, a)):
                    if any(k == "call" and o.callee.name == "kind" for k, o in sl.origins(x)) and is_broken_pipe(body, sl, y):
                        if lit.truth == (lit.obj.callee.name == "eq"): found = True
            # value of the return place at the end of the path
            st = None
            for kind, b, obj, store in absval.walk(body, bdu, cfg, pth, env0=env0): st = store
            v = st.get(0) if st is not None else None
            is_ok = v is not None and v[0] == "var" and v[1] == 0
            is_err = v is not None and v[0] == "var" and v[1] == 1
            if found != is_ok or (not found and not is_err): wrong += 1
        return n > 0 and wrong == 0
    for i, t in enumerate(calls):
        T = forward_taint(vb, du, {t.dest.l})
        good = False
        if vb.calls("=downcast_ref") and any(a.place is not None and a.place.l in T for x in vb.calls("=downcast_ref") for a in x.args):
            good = bool(filter_decides(vb, t.target, {t.dest.l: ("var", 1, None)}))
        for x in vb.calls():
            if x.callee.indirect: continue
            cb = idx.get(x.callee.resolved) or idx.get(x.callee.path)
            if cb is not None and cb.calls("=downcast_ref"):
                for ai, a in enumerate(x.args):
                    if a.place is not None and a.place.l in T and filter_decides(cb, 0, {ai + 1: ("var", 1, None)}): good = True
        cx.check(good, "C18.R5", "%s:varlink_bridge:%s#%d:broken-pipe-is-normal-end" % (PKG, t.callee.name, i), "%s varlink_bridge" % t.sp,
                 "the result of proxy::%s does not pass through the BrokenPipe filter its sibling uses: a peer that simply closes makes this bridge mode exit with an error" % t.callee.name,
                 note_ok="result goes through the shared BrokenPipe handling")
    # raw close of an owned descriptor
    n = 0
    for body in cx.mir.bodies(PKG):
        if body.promoted is not None or "proxy.rs" not in body.sp: continue
        bdu = None
        for t in body.calls("libc::close", "=close"):
            if not t.callee.path.startswith("libc"): continue
            bdu = bdu or DefUse(body)
            sl = Slice(body, bdu)
            from_borrow = any(k == "call" and o.callee.name == "as_raw_fd" for k, o in sl.origins(t.args[0]))
            n += 1
            cx.check(not from_borrow, "C18.R5", "%s:%s:raw-close" % (PKG, body.path), "%s %s" % (t.sp, body.path),
                     "libc::close() on a descriptor obtained with as_raw_fd(): its owner closes it again on drop (double close; IO-safety abort in debug builds, exit status lost)",
                     note_ok="closes a descriptor it owns")
    cx.notes.append("C18.R5: %d raw close() sites in proxy.rs" % n)


def r6(cx):
    n = 0
    for body in cx.mir.bodies(PKG):
        if body.promoted is not None or "proxy.rs" not in body.sp: continue
        ws = [t for t in body.calls("=write_all", "=write") if "io" in t.callee.resolved or "Write" in (t.callee.trait or "")]
        if not ws: continue
        cx.saw(body)
        cfg = Cfg(body); du = DefUse(body)
        blocking = {t.bb for t in body.calls("=read", "=read_until", "=read_exact", "=read_line", "=recv", "=join", "=fill_buf")}
        okret = {s.bb for s in body.stmts() if s.kind == "assign" and s.lhs.l == 0 and not s.lhs.p and s.rv == "agg" and isinstance(s.agg, dict) and s.agg.get("variant") == "Ok"}
        for i, t in enumerate(ws):
            if t.mac and ("eprint" in t.mac or "print" in t.mac): continue
            n += 1
            base = ref_chain(du, t.args[0].place.l)[-1]
            fl = {x.bb for x in body.calls("=flush") if ref_chain(du, x.args[0].place.l)[-1] == base}
            # Call::reply_* helpers flush themselves; here only raw writes are examined
            good = bool(fl) and cfg.must_pass_sens(t.target, sorted(blocking | okret), fl)
            cx.check(good, "C18.R6", "%s:%s:%s#%d:flushed-before-blocking" % (PKG, body.path, t.callee.name, i), "%s %s" % (t.sp, body.path),
                     "a path from this write reaches the next blocking read (or a successful return) without flushing the writer: with a buffered writer (stdout) bytes the bridge has already received stay unforwarded while it waits",
                     note_ok="flush on every path before the next read/return")
    cx.floor("C18.R6", "raw writes in proxy.rs", n, 4)


def _depends_on_field(body, du, local, field, limit=200):
    """does the value of `local` depend (through copies, casts, arithmetic, comparisons, call arguments) on a read of `.field`?"""
    seen = set(); work = [local]
    while work and len(seen) < limit:
        l = work.pop()
        if l in seen: continue
        seen.add(l)
        for k, d in du.value_defs(l):
            places = []
            if k == "call": places = [a.place for a in d.args if a.place is not None]
            elif k == "stmt" and d.kind == "assign": places = [o.place for o in d.ops if o.place is not None] + ([d.rplace] if d.rplace is not None else [])
            for q in places:
                if field in q.fields(): return True
                work.append(q.l)
    return False


def r7(cx):
    cands = [b for b in cx.mir.bodies(PKG) if b.promoted is None and b.path.endswith("::read") and "WatchClose" in (b.impl_self or "")]
    if len(cands) != 1: raise AnchorMissing("WatchClose::read: %d candidates" % len(cands))
    body = cands[0]; cx.saw(body)
    cfg = Cfg(body)
    bp = [s.bb for s in body.stmts() if s.kind == "assign" and s.rv == "agg" and isinstance(s.agg, dict) and s.agg.get("variant") == "BrokenPipe"]
    rd = [t for t in body.calls("libc::read") if t.callee.name == "read"]
    ew = body.calls("=epoll_wait")
    why = []
    if len(bp) != 1 or len(rd) != 1 or len(ew) != 1: why.append("expected one BrokenPipe exit, one libc::read and one epoll_wait (found %d/%d/%d)" % (len(bp), len(rd), len(ew)))
    else:
        doms = cfg.dominators()
        nexts = [t for t in body.calls("=next") if t.bb in doms.get(bp[0], set())]
        if not nexts: why.append("the BrokenPipe exit is not inside a scan over the reported events")
        else:
            scan = max(nexts, key=lambda t: len(doms[t.bb]))     # innermost loop header around the BrokenPipe exit
            if not cfg.dominates(scan.bb, rd[0].bb):
                why.append("the data descriptor is read on a path that skipped the hang-up/error scan: a descriptor that is readable and hung up is read as a clean end-of-stream instead of ending the session")
            if not cfg.dominates(ew[0].bb, scan.bb): why.append("the scan does not follow epoll_wait")
            # both descriptors: inside one iteration of the scan, nothing that depends on which descriptor the event belongs to
            # (its `data` token) stands before the hang-up test
            du = DefUse(body)
            fwd = cfg.reach([scan.target], blocked_nodes={scan.bb}) if scan.target is not None else set()
            region = {b for b in fwd if bp[0] in cfg.reach([b], blocked_nodes={scan.bb})}
            for b in sorted(region):
                t = body.blocks[b].term
                if body.blocks[b].cleanup or t.kind != "switch" or t.discr is None or t.discr.place is None: continue
                if _depends_on_field(body, du, t.discr.place.l, "data"):
                    why.append("the hang-up/error test is applied only to events selected by their `data` token (%s): a hang-up of the other descriptor goes unnoticed and the bridge does not stop when that side closes" % t.sp)
                    break
        # the mask covers RDHUP, HUP and ERR
        ors = [t for t in body.calls("=bitor")]
        if len(ors) < 2: why.append("error mask is not the union of three event kinds")
    cx.check(not why, "C18.R7", "%s:WatchClose::read:hangup-before-data" % PKG, body.sp, "; ".join(why), note_ok="epoll_wait -> scan all events for RDHUP|HUP|ERR (-> BrokenPipe) -> only then read")


def r7_level(cx):
    """WatchClose::read does one epoll_wait and one read(2) per call and its callers read one buffer at a time: that only works with
    level-triggered registrations (an edge-triggered or one-shot descriptor is not reported again for the bytes left behind)"""
    import re as _re
    rel = "varlink-cli/src/watchclose_epoll.rs"
    n = 0; bad = []
    for f in cx.ast.file(rel)["_fns"]:
        for e in f.events:
            txt = ""
            if e["k"] == "call": txt = " ".join(e.get("args") or []) + " " + e["text"]
            elif e["k"] in ("let", "assign", "opassign", "method"): txt = e.get("text", "") + " " + " ".join(e.get("args") or []) if isinstance(e.get("args"), list) else e.get("text", "")
            elif e["k"] == "macro": txt = e.get("text", "")
            if e["k"] == "call" and e["text"].replace(" ", "") == "Event::new": n += 1
            m = _re.findall(r"EPOLL(?:ET|ONESHOT|EXCLUSIVE)\b", txt)
            if m: bad.append((f.qual, e["line"], sorted(set(m))))
    from vlib.astfacts import tt_walk
    vocab = any(t["t"] == "ident" and t["s"] == "EPOLLET" for m in cx.ast.item_macros(rel) if m["path"].endswith("bitflags") for t in tt_walk(m["tokens"]))
    key = "%s:watchclose_epoll:level-triggered" % PKG
    if bad:
        cx.bad("C18.R7", key, "%s:%d %s" % (rel, bad[0][1], bad[0][0]), "descriptor registered with %s: after a wake-up that is answered by one read of at most one buffer, the bytes left in the socket are never reported again, so a message larger than the buffer is cut off" % bad[0][2])
    else:
        cx.check(n >= 1 and vocab, "C18.R7", key, rel, "expected an Event::new registration and the EPOLLET definition to be visible (found %d, %s)" % (n, vocab), note_ok="%d registration site(s), none edge-triggered/one-shot" % n)


def r8(cx):
    from vlib import absval
    from vlib.cfg import enumerate_paths
    n = 0
    for body in cx.mir.bodies(PKG):
        if body.promoted is not None or "proxy.rs" not in body.sp: continue
        parses = [t for t in body.calls("=from_slice") if "serde_json" in t.callee.path and t.dest is not None and not t.dest.p and "Reply" in body.ty(t.dest.l)]
        if not parses: continue
        cx.saw(body)
        cfg = Cfg(body); du = DefUse(body)
        reads = [t for t in body.calls("=read_until")]
        for i, t in enumerate(parses):
            n += 1
            key = "%s:%s:reply#%d:relay-ends-with-final-reply" % (PKG, body.path, i)
            site = "%s %s" % (t.sp, body.path)
            # the read this reply came from: the read_until that dominates the parse, innermost
            doms = cfg.dominators().get(t.bb, set())
            mine = [r for r in reads if r.bb in doms]
            if not mine or t.target is None:
                cx.bad("C18.R8", key, site, "the parsed reply does not come from a read_until of this function"); continue
            src = max(mine, key=lambda r: len(cfg.dominators().get(r.bb, set())))
            others = {r.bb for r in reads if r is not src}
            why = []
            for name, v in (("absent", ("var", 0, ())), ("Some(false)", ("var", 1, (("int", 0),))), ("Some(true)", ("var", 1, (("int", 1),)))):
                rv = absval.struct_value("Reply", {"continues": v})
                if rv is None: why.append("Reply layout unknown"); break
                env0 = {t.dest.l: ("var", 0, (rv,))}
                hit = [False]
                paths = enumerate_paths(cfg, t.target, lambda blk: blk.idx == src.bb or blk.idx in others or blk.term.kind == "return", du=du, env0=env0, on_limit=lambda: hit.__setitem__(0, True))
                if hit[0]: why.append("too many paths"); break
                back = [p for p in paths if p[-1] == src.bb]
                if name != "Some(true)" and back: why.append("after a final reply (continues %s) the bridge waits for another reply of the service: the next request of the client is never forwarded" % name)
                if name == "Some(true)" and not back: why.append("after a reply with continues: true the bridge stops relaying: the rest of the stream is lost")
            cx.check(not why, "C18.R8", key, site, "; ".join(why), note_ok="reads the service again iff continues == Some(true)")
    cx.floor("C18.R8", "reply parse sites in proxy.rs", n, 1)


def r9(cx):
    n = 0
    for body in cx.mir.bodies(PKG):
        if body.promoted is not None or "proxy.rs" not in body.sp: continue
        spawns = [t for t in body.calls("=spawn") if "thread" in t.callee.path]
        parses = [t for t in body.calls("=from_slice") if "serde_json" in t.callee.path and t.dest is not None and not t.dest.p and "Reply" in body.ty(t.dest.l)]
        if not spawns or not parses: continue
        cx.saw(body)
        cfg = Cfg(body); doms = cfg.dominators()
        blocking = [t for t in body.calls("=read", "=read_until", "=read_exact", "=read_line", "=read_to_end", "=fill_buf", "=recv", "=join")]
        for i, sp in enumerate(spawns):
            n += 1
            key = "%s:%s:spawn#%d:no-wait-before-splice" % (PKG, body.path, i)
            # reads that every way to this spawn has passed, but that came after the reply had been parsed (not the request read at the
            # top of the loop, which also stands before the parse)
            late = [r for r in blocking if r.bb in doms.get(sp.bb, set()) and not any(r.bb in doms.get(p.bb, set()) for p in parses)
                    and any(p.bb in doms.get(r.bb, set()) or r.bb in cfg.reach(p.target) for p in parses if p.target is not None)
                    and not any(s2.bb in doms.get(r.bb, set()) for s2 in spawns)]
            cx.check(not late, "C18.R9", key, "%s %s" % (sp.sp, body.path),
                     "%s (%s) stands between the relayed upgrade reply and the start of the copy threads: the bridge waits for the client although the service may speak first" % (late[0].callee.name if late else "", late[0].sp if late else ""),
                     note_ok="no blocking read between the reply relay and the copy threads")
    cx.floor("C18.R9", "copy-thread spawns behind a reply relay", n, 2)


def r10(cx):
    from vlib.cfg import const_strings
    from vlib.cond import bool_edges
    n = 0
    for body in cx.mir.bodies(PKG):
        if body.promoted is not None or "proxy.rs" not in body.sp or body.kind == "Closure": continue
        writes = [st for st in body.stmts() if st.kind == "assign" and st.lhs.p and st.lhs.fields()[-1:] == ["method"] and "Request" in body.ty(ref_base(DefUse(body), st.lhs.l)[0])]
        if not writes: continue
        cx.saw(body)
        cfg = Cfg(body); du = DefUse(body); sl = Slice(body, du, extra_pass=("=as_ref", "=deref", "=as_str", "=borrow"))
        svc_edges = []
        for b in body.blocks:
            if b.cleanup or b.term.kind != "switch": continue
            c = switch_cond(body, du, b.term)
            if c.kind == "call" and c.term.callee.name in ("eq", "ne") and len(c.term.args) == 2:
                lits = [x for a in c.term.args for x in ([a.cstr()] if a.is_const and a.cstr() else const_strings(body, sl, a))]
                if any(isinstance(x, str) and (x == "org.varlink.service" or x.startswith("org.varlink.service.")) for x in lits):
                    te, fe = bool_edges(b.term, c)
                    svc_edges.append(te if c.term.callee.name == "eq" else fe)
        for i, st in enumerate(writes):
            n += 1
            good = any(cfg.edge_dominates(e, st.bb) for e in svc_edges)
            cx.check(good, "C18.R10", "%s:%s:method-rewrite#%d" % (PKG, body.path, i), "%s %s" % (st.sp, body.path),
                     "the request's method is rewritten without having been compared with a literal of org.varlink.service: a call to another interface's own method (e.g. `org.example.a.GetInfo`) is answered by the resolver instead of the service",
                     note_ok="rewritten only behind `== \"org.varlink.service..\"`")
    cx.floor("C18.R10", "method rewrites in proxy.rs", n, 1)


def r11(cx):
    from vlib.cond import bool_edges
    from vlib.facts import promoted_body
    body = cx.mir.one(PKG, "proxy::copy")
    cx.saw(body)
    cfg = Cfg(body); du = DefUse(body); sl = Slice(body, du)
    reads = {t.bb for t in body.calls("=read")}
    def is_interrupted(op):
        for k, o in sl.origins(op, follow_agg=False):
            if k == "agg" and isinstance(o.agg, dict) and o.agg.get("variant") == "Interrupted": return True
            if k == "const":
                c = o.const or {}
                if "Interrupted" in str(c.get("val", "")): return True
                dbg = str(c.get("dbg", "") or "")
                if "promoted[" in dbg:
                    pb = promoted_body(body, dbg)
                    if pb is not None and any((st.kind == "assign" and st.rv == "agg" and isinstance(st.agg, dict) and st.agg.get("variant") == "Interrupted") or
                                              any(oo.is_const and "Interrupted" in str((oo.const or {}).get("val", "")) for oo in (st.ops if st.kind == "assign" else [])) for st in pb.stmts()): return True
        return False
    edges = []
    for b in body.blocks:
        if b.cleanup or b.term.kind != "switch": continue
        c = switch_cond(body, du, b.term)
        if c.kind == "call" and c.term.callee.name in ("eq", "ne") and len(c.term.args) == 2:
            a0, a1 = c.term.args
            for x, y in ((a0, a1), (a1, a0)):
                if any(k == "call" and o.callee.name == "kind" for k, o in sl.origins(x)) and is_interrupted(y):
                    te, fe = bool_edges(b.term, c)
                    edges.append(te if c.term.callee.name == "eq" else fe)
    good = bool(edges) and bool(reads) and all(cfg.must_pass_after(e, cfg.returns(), reads) for e in edges)
    cx.check(good, "C18.R11", "%s:proxy::copy:interrupted-read-is-retried" % PKG, body.sp,
             "%s" % ("no test of the read error against ErrorKind::Interrupted" if not edges else "after `kind() == Interrupted` copy() can return without reading again: an interrupted wait ends the bridged session although neither side closed"),
             note_ok="Interrupted -> read again")
