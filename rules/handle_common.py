import re
"""Shared analysis of <VarlinkService as ConnectionHandler>::handle (C01, C02, C06)."""
from vlib.cfg import Cfg, DefUse, Slice, enumerate_paths
from vlib.cond import switch_cond, bool_edges, dominating_edges
from vlib.facts import AnchorMissing

HANDLE = "<VarlinkService as ConnectionHandler>::handle"

class HandleInfo:
    pass

def base_local(du, op_or_place, max_hops=12):
    """follow refs/copies/casts of a place back to the local it ultimately borrows"""
    place = op_or_place.place if hasattr(op_or_place, "const") else op_or_place
    if place is None: return None
    l = place.l
    for _ in range(max_hops):
        ds = du.value_defs(l)
        if len(ds) != 1 or ds[0][0] != "stmt": return l
        s = ds[0][1]
        if s.kind != "assign": return l
        if s.rv in ("ref", "rawptr"): l = s.rplace.l; continue
        if s.rv in ("use", "cast") and s.ops[0].place is not None and not s.lhs.p: l = s.ops[0].place.l; continue
        return l
    return l

def analyse_handle(cx):
    body = cx.mir.one("varlink", HANDLE)
    cx.saw(body)
    cfg = Cfg(body); du = DefUse(body)
    h = HandleInfo(); h.body = body; h.cfg = cfg; h.du = du; h.cx = cx
    news = body.calls("std::io::BufReader::<R>::new")
    if len(news) != 1: raise AnchorMissing("handle: expected one inner BufReader::new, found %d" % len(news))
    h.inner = news[0].dest.l
    h.read_untils = body.calls("=read_until")
    if not h.read_untils: raise AnchorMissing("handle: no read_until call")
    h.buf_locals = set()
    for t in h.read_untils:
        if base_local(du, t.args[0]) != h.inner:
            raise AnchorMissing("handle: read_until does not read the inner BufReader")
        h.buf_locals.add(base_local(du, t.args[2]))
    # the parser: the call that yields the Request — serde_json::from_slice/from_str, or `Request::deserialize(&mut de)` on a
    # serde_json::Deserializer built over the message (then `h.deser_ctor` is that constructor)
    h.deser_ctor = None
    cands = [t for t in body.calls() if not t.callee.indirect and "serde_json" in t.callee.path and t.callee.name in ("from_slice", "from_str", "from_reader") and "Deserializer" not in t.callee.path]
    if not cands:
        ctors = [t for t in body.calls() if not t.callee.indirect and "serde_json" in t.callee.path and "Deserializer" in t.callee.path and t.callee.name in ("from_slice", "from_str", "from_reader", "new")]
        des = [t for t in body.calls("=deserialize") if t.dest is not None and "Request" in body.ty(t.dest.l)]
        if len(ctors) == 1 and len(des) == 1:
            cands = des; h.deser_ctor = ctors[0]
    h.parse_done = None
    if h.deser_ctor is not None:
        ends = [t for t in body.calls("=end") if "Deserializer" in (t.callee.path + t.callee.resolved + str(t.callee.impl_self or ""))]
        if len(ends) == 1: h.parse_done = ends[0]        # with the streaming form a message counts as parsed once end() has agreed
    h.from_slice = cands
    if len(h.from_slice) != 1: raise AnchorMissing("handle: expected one serde_json parser call (from_slice/from_str), found %d" % len(h.from_slice))
    h.from_slice = h.from_slice[0]
    if h.parse_done is None: h.parse_done = h.from_slice
    h.dispatch = [t for t in body.calls("VarlinkService::call", "reply_interface_not_found")
                  if t.callee.resolved.endswith("VarlinkService::call") or t.callee.name == "reply_interface_not_found"]
    h.call_news = body.calls("Call::<'a>::new")
    h.call_news = [t for t in h.call_news if t.callee.name == "new"]
    h.upgraded_calls = body.calls("VarlinkService::call_upgraded")
    # the Ok(..) results: assignments _0 = Result::Ok(tuple)
    h.ok_assigns = []
    for s in body.stmts():
        if s.kind == "assign" and s.lhs.l == 0 and not s.lhs.p and s.rv == "agg" and isinstance(s.agg, dict) \
           and s.agg.get("adt") == "std::result::Result" and s.agg.get("variant") == "Ok":
            h.ok_assigns.append(s)
    # len local(s): values derived from read_until's result
    return h

def const_item_init(cx, src_dir, name):
    """whitespace-free initialiser text of `const NAME: T = <init>;` in the crate's sources (named constants reach the MIR unevaluated)"""
    import os, glob
    for f in sorted(glob.glob(os.path.join(cx.repo, src_dir, "*.rs"))):
        try: text = open(f, encoding="utf-8", errors="replace").read()
        except OSError: continue
        m = re.search(r"\bconst\s+%s\s*:[^=;]*=\s*([^;]+);" % re.escape(name), text)
        if m: return re.sub(r"\s+", "", m.group(1))
    return None


def len_derived(h, op):
    """does operand derive (moves/copies/?-desugaring) from a read_until result"""
    sl = Slice(h.body, h.du)
    for k, o in sl.origins(op):
        if k == "call" and o.callee.name == "read_until": return True
    return False

def classify_edge(h, edge):
    """classify a dominating switch edge: 'eof' (len == 0 true), 'incomplete' (last byte != 0 true), or None"""
    src, lab, dst = edge
    term = h.body.blocks[src].term
    c = switch_cond(h.body, h.du, term)
    t_edge, f_edge = bool_edges(term, c)
    if c.kind == "bin" and c.op in ("Eq", "Ne"):
        a, b = c.a, c.b
        zero = (b.is_const and b.cint() == 0 and len_derived(h, a)) or (a.is_const and a.cint() == 0 and len_derived(h, b))
        if zero:
            is_true = (edge[1] == t_edge[1] and edge[2] == t_edge[2])
            eq_holds = is_true if c.op == "Eq" else not is_true
            return "eof" if eq_holds else None
    if c.kind == "call" and c.term.callee.name == "ends_with" and len(c.term.args) == 2:
        # `buf.ends_with(b"\\0")` / `buf.ends_with(&[0])`
        sl = Slice(h.body, h.du, extra_pass=("=as_slice", "=deref", "=as_ref"))
        on_buf = base_local(h.du, c.term.args[0]) in h.buf_locals or any(k == "call" and o.callee.name in ("new", "with_capacity") and o.dest.l in h.buf_locals for k, o in sl.origins(c.term.args[0]))
        zero = False
        for k, o in sl.origins(c.term.args[1]):
            if k == "const":
                if promoted_value(h, o) == 0: zero = True
                txt = str((o.const or {}).get("str") or (o.const or {}).get("dbg") or "")
                if txt in ('b"\\0"', 'b"\\x00"'): zero = True
                if re.fullmatch(r"[A-Za-z_][\w:]*", txt) and const_item_init(h.cx, "varlink/src", txt.split("::")[-1]) in ('b"\\0"', 'b"\\x00"', "&[0]", "&[0u8]", "&[b'\\0']", "[0]", "[0u8]"): zero = True
        if on_buf and zero:
            is_true = (edge[1] == t_edge[1] and edge[2] == t_edge[2])
            return None if is_true else "incomplete"
    if c.kind == "call" and c.term.callee.name in ("ne", "eq"):
        # operands: last byte of buf (get/last/index on a buf local) vs constant 0
        sl = Slice(h.body, h.du)
        saw_buf = False; saw_zero = False
        for a in c.term.args:
            for k, o in sl.origins(a):
                if k == "call" and o.callee.name in ("get", "last", "index", "unwrap_or", "ends_with"):
                    for aa in o.args:
                        if base_local(h.du, aa) in h.buf_locals: saw_buf = True
                        for k2, o2 in sl.origins(aa):
                            if k2 == "call" and o2.callee.name in ("new", "with_capacity") and o2.dest.l in h.buf_locals: saw_buf = True
                            if k2 == "call" and o2.callee.name in ("get", "last", "index"):
                                for a3 in o2.args:
                                    if base_local(h.du, a3) in h.buf_locals: saw_buf = True
                                    for k4, o4 in sl.origins(a3):
                                        if k4 == "call" and o4.callee.name == "new" and o4.dest.l in h.buf_locals: saw_buf = True
                if k == "const":
                    v = promoted_value(h, o)
                    if v == 0: saw_zero = True
                if k == "call" and o.callee.name == "new" and o.dest.l in h.buf_locals: saw_buf = True
        if saw_buf and saw_zero:
            is_true = (edge[1] == t_edge[1] and edge[2] == t_edge[2])
            ne_holds = is_true if c.term.callee.name == "ne" else not is_true
            return "incomplete" if ne_holds else None
    return None

def promoted_value(h, constop):
    """value of a constant operand; resolves `fn::promoted[i]` references to a scalar when the promoted body is `&&k`"""
    v = constop.cint()
    if v is not None: return v
    dbg = (constop.const or {}).get("dbg", "")
    from vlib.facts import promoted_body
    pb = promoted_body(h.body, dbg)
    if pb is not None:
        for s in pb.stmts():
            if s.kind == "assign" and s.rv == "use" and s.ops and s.ops[0].is_const and s.ops[0].cint() is not None:
                return s.ops[0].cint()
    return None

def tail_kind(h, ok_stmt):
    """classify the first tuple member of an Ok((tail, iface)) result"""
    sl = Slice(h.body, h.du)
    tup = ok_stmt.ops[0]
    kinds = set(); detail = []
    # select tuple field 0
    from vlib.facts import Place
    p = Place({"l": tup.place.l, "p": list(tup.place.p) + [".0"]}) if tup.place is not None else None
    if p is None: return {"other"}, ["constant tuple"]
    for k, o in sl.origins(p):
        if k == "call":
            n = o.callee.name
            if n == "buffer" and base_local(h.du, o.args[0]) == h.inner: kinds.add("inner-buffer")
            elif n == "new" and "Vec" in o.callee.path:
                kinds.add("readbuf" if o.dest.l in h.buf_locals else "fresh-empty")
            elif n == "call_upgraded": kinds.add("upgraded-result")
            else: kinds.add("other"); detail.append("call %s" % o.callee)
        elif k == "arg": kinds.add("other"); detail.append("argument %d" % o)
        elif k == "const": kinds.add("other"); detail.append("constant")
        else: kinds.add("other"); detail.append(k)
    return kinds, detail

def path_classes(h, target_bb):
    """classes ('eof', 'incomplete') that every feasible path from a read_until to `target_bb` (within one iteration) establishes;
    a path that establishes either counts for both questions the caller asks ("eof or incomplete")"""
    from vlib.cfg import enumerate_paths
    body, cfg, du = h.body, h.cfg, h.du
    ru_blocks = {t.bb for t in h.read_untils}
    common = None
    for t in h.read_untils:
        if t.target is None: continue
        hit = [False]
        # seed: the read succeeded (its `?` continues)
        paths = enumerate_paths(cfg, t.target, lambda blk: blk.idx == target_bb or blk.term.kind == "return" or blk.idx in ru_blocks, du=du,
                                env0={t.dest.l: ("var", 0, None)} if t.dest is not None and not t.dest.p else None, on_limit=lambda: hit.__setitem__(0, True))
        if hit[0]: return set()
        for p in paths:
            if p[-1] != target_bb: continue
            cl = set()
            for a, b in zip(p, p[1:]):
                if body.blocks[a].term.kind != "switch": continue
                for lab, d in cfg.succ[a]:
                    if d == b:
                        c = classify_edge(h, (a, lab, b))
                        if c: cl.add(c)
            common = cl if common is None else (common & cl if (common & cl) else ({"eof-or-incomplete"} if (cl & {"eof", "incomplete"}) and (common & {"eof", "incomplete", "eof-or-incomplete"}) else set()))
    if not common: return set()
    if "eof-or-incomplete" in common: return {"incomplete"}          # every path passed one of the two tests
    return common


def check_tails(cx, rule, prop_filter):
    """C01.R1 / C02.R1. prop_filter(after_dispatch: bool) -> True when this property owns the instance"""
    h = analyse_handle(cx)
    body, cfg = h.body, h.cfg
    n = 0
    ru_blocks = {t.bb for t in h.read_untils}
    disp_blocks = {t.bb for t in h.call_news}
    for i, s in enumerate(h.ok_assigns):
        n += 1
        kinds, detail = tail_kind(h, s)
        doms = dominating_edges(cfg, s.bb)
        classes = {classify_edge(h, e) for e in doms} - {None}
        if not (classes & {"eof", "incomplete"}) and "readbuf" in kinds or ("fresh-empty" in kinds and "eof" not in classes):
            # the state may have been decided earlier and carried in a value (an enum returned by a reading helper): ask every
            # feasible path from the read to this return which of the two tests it passed
            classes |= path_classes(h, s.bb)
        # reachable from a dispatch in the same iteration (without passing read_until again)?
        after_dispatch = any(s.bb in cfg.reach(d, blocked_nodes=ru_blocks - {d}) for d in disp_blocks)
        if not prop_filter(after_dispatch): continue
        key = "handle:Ok-return#%d" % i
        site = "%s %s" % (s.sp, body.path)
        bad = []
        for k in kinds:
            if k in ("inner-buffer", "upgraded-result"): continue
            if k == "readbuf":
                if not (classes & {"eof", "incomplete"}): bad.append("returns the read buffer as tail outside the EOF/incomplete-message states")
                if after_dispatch: bad.append("returns the read buffer after a message was dispatched")
            elif k == "fresh-empty":
                if "eof" not in classes: bad.append("returns a fresh empty Vec as tail although the inner BufReader may still hold later requests")
            else:
                bad.append("tail of unknown provenance (%s)" % ", ".join(detail))
        cx.check(not bad, rule, key, site, "; ".join(bad),
                 note_ok="tail=%s guards=%s%s" % ("+".join(sorted(kinds)), "+".join(sorted(classes)) or "-", " (after dispatch)" if after_dispatch else ""),
                 witness={"path_hint": "read_until -> ... -> bb%d" % s.bb, "tail_kinds": sorted(kinds)})
    return h, n


def check_writer_passthrough(cx, rule, h=None):
    """replies are written to the caller's writer as they are produced: every Call in handle() wraps the `writer` argument itself"""
    h = h or analyse_handle(cx)
    body, du = h.body, h.du
    sl = Slice(body, du)
    calls = list(h.call_news) + list(body.calls("=new_upgraded"))
    for i, t in enumerate(calls):
        orig = sl.origins(t.args[0])
        good = bool(orig) and all(k == "arg" and o == 3 for k, o in orig)
        cx.check(good, rule, "handle:%s#%d:writes-to-callers-writer" % (t.callee.name, i), "%s %s" % (t.sp, body.path),
                 "the Call replies into %s instead of handle()'s writer argument: replies are held back (and lost on an error exit), so what the peer sees depends on how the stream was segmented" %
                 sorted({("a local buffer" if k == "call" else k) for k, o in orig if not (k == "arg" and o == 3)}),
                 note_ok="Call wraps the writer argument")
    return len(calls)


def check_request_immutable(cx, rule, h=None):
    """the parsed request reaches the interface as parsed: nothing assigns to it or borrows it mutably between parse and dispatch"""
    h = h or analyse_handle(cx)
    body, du = h.body, h.du
    reqs = set()
    for t in h.call_news:
        if len(t.args) > 1 and t.args[1].place is not None:
            from vlib.cfg import ref_chain
            reqs.add(ref_chain(du, t.args[1].place.l)[-1])
    bad = []
    for s in body.stmts():
        if s.kind != "assign": continue
        if s.lhs.l in reqs and s.lhs.p: bad.append("assignment to request%s at %s" % ("".join(x for x in s.lhs.p if x.startswith("."))[:30], s.sp))
        if s.rv == "ref" and s.rplace is not None and s.rplace.l in reqs and s.bk and "mut" in str(s.bk).lower(): bad.append("mutable borrow of the request at %s" % s.sp)
    cx.check(bool(reqs) and not bad, rule, "handle:request-not-modified", body.sp, "the parsed request is modified before it is dispatched (%s): the interface does not see the flags/parameters the caller sent" % bad[:2],
             note_ok="request is read-only between parse and dispatch")
