"""C01 — every request answered in order, exactly once, under pipelining."""
from vlib.cfg import Cfg, DefUse, Slice, enumerate_paths
from vlib.cond import switch_cond, bool_edges, variant_edge
from vlib.facts import AnchorMissing
from . import handle_common as hc
from .replies import check_one_reply_paths, proxies

def run(cx):
    cx.rule("C01.R1", "buffered-input-not-abandoned: every Ok((tail,_)) of handle() after a dispatched message takes its tail from the inner BufReader's buffer (or from call_upgraded)")
    cx.rule("C01.R2", "one dispatch per parsed message: each path from a successful parse to the next read/return has exactly one dispatch call; the parse-error edge has none")
    cx.rule("C01.R3", "exactly one reply-producing call on every path of the library's own dispatchers and of every generated Interface::call")
    cx.rule("C01.R4", "handler error closes the connection: every path from handle()'s Err edge in the listen worker passes Stream::shutdown and leaves the loop")
    h, n = hc.check_tails(cx, "C01.R1", lambda after_dispatch: after_dispatch)
    cx.floor("C01.R1", "Ok returns of handle()", len(h.ok_assigns), 2)
    from .C02 import r1_fresh
    r1_fresh(cx, h, rule="C01.R1")
    r2(cx, h)
    r2b(cx, h)
    hc.check_writer_passthrough(cx, "C01.R3", h)
    check_one_reply_paths(cx, "C01.R3")
    r4(cx)
    cx.rule("C01.R5", "per-call reply state: a reply is flagged `continues` (i.e. is not the final one) only through the gate of reply_struct — set_continues stores its argument, wants_more() is exact, the mismatch error writes nothing (shared with C05.R1)")
    from .C05 import r1 as reply_gate
    reply_gate(cx, rule="C01.R5")
    cx.rule("C01.R6", "a oneway request is never answered (its reply would be taken for the next request's): every protocol write on Call.writer is reachable only for is_oneway()==false, and is_oneway() is exactly request.oneway == Some(true) (shared with C04.R1)")
    from .C04 import r1 as oneway_guard, r1_flag as oneway_flag
    oneway_guard(cx, rule="C01.R6")
    oneway_flag(cx, rule="C01.R6", only=("is_oneway",))

def r2(cx, h):
    body, cfg, du = h.body, h.cfg, h.du
    # the `?` on from_slice(..).map_err(..): find the Try::branch fed by it and its discriminant switch
    sl = Slice(body, du)
    from vlib.cfg import question_mark_edges
    ok_edge, err_edge = question_mark_edges(body, du, h.parse_done)
    if ok_edge is None: raise AnchorMissing("handle: `?` on serde_json::from_slice not found")
    ru_blocks = {t.bb for t in h.read_untils}
    disp_blocks = {t.bb: t for t in h.dispatch}
    cx.floor("C01.R2", "dispatch sites in handle()", len(h.dispatch), 2)
    stop = lambda blk: blk.idx in ru_blocks or blk.term.kind == "return"
    limit = []
    paths = enumerate_paths(cfg, ok_edge[2], stop, du=du, on_limit=lambda: limit.append(1))
    if limit:
        cx.bad("C01.R2", "handle:path-limit", body.sp, "path enumeration limit hit: handle() grew beyond what the rule can enumerate")
    counts = {}
    for p in paths:
        c = sum(1 for b in p if b in disp_blocks)
        counts.setdefault(c, []).append(p)
    for c, ps in sorted(counts.items()):
        sample = ps[0]
        end = "next read" if sample[-1] in ru_blocks else "return"
        key = "handle:parsed-message:%d-dispatches" % c
        cx.check(c == 1, "C01.R2", key, "%s %s" % (h.from_slice.sp, body.path),
                 "%d path(s) from a parsed request to the %s contain %d dispatch calls (expected exactly 1), e.g. blocks %s" % (len(ps), end, c, sample[:40]),
                 note_ok="%d paths with exactly one dispatch" % len(ps), witness={"path": sample})
    # the parse-error edge: no dispatch, no Call::new
    r = cfg.after(err_edge)
    hit = [b for b in r if b in disp_blocks or b in {t.bb for t in h.call_news}]
    # err path must not come back to the loop
    loops = [b for b in r if b in ru_blocks]
    cx.check(not hit and not loops, "C01.R2", "handle:parse-error-edge", "%s %s" % (h.from_slice.sp, body.path),
             "the parse-error edge reaches a dispatch/reply site or re-enters the read loop (blocks %s)" % (hit + loops),
             note_ok="parse error leaves handle() without dispatching")

def r2b(cx, h):
    """an error from a dispatch (the interface replied nothing, or could not write) must end handle() with Err — R3 counts `0 replies + Err` as answered-by-closing"""
    body, cfg, du = h.body, h.cfg, h.du
    sl = Slice(body, du)
    ru_blocks = {t.bb for t in h.read_untils}
    disp = list(h.dispatch) + list(h.upgraded_calls)
    for i, t in enumerate(disp):
        key = "handle:dispatch#%d:%s:error-propagates" % (i, t.callee.name)
        site = "%s %s" % (t.sp, body.path)
        # the switch on the result (directly or through `?`)
        err_edges = []
        for b in sorted(cfg.reach(t.target)):
            term = body.blocks[b].term
            if term.kind != "switch": continue
            c = switch_cond(body, du, term)
            if c.kind == "discr" and any(k == "call" and o is t for k, o in sl.origins(c.place)) and ("Result" in body.ty(c.place.l) or "ControlFlow" in body.ty(c.place.l)):
                err_edges.append(variant_edge(term, 1)); break
        if not err_edges:
            cx.bad("C01.R2", key, site, "the result of the dispatch is never examined: an interface that failed without replying leaves the request unanswered while the connection stays open"); continue
        r = cfg.after(err_edges[0])
        again = sorted(b for b in ru_blocks if b in r)
        okret = [s.bb for s in h.ok_assigns if s.bb in r]
        cx.check(not again and not okret, "C01.R2", key, site,
                 "after a dispatch error handle() can go on reading (%s) or return Ok: the failed request is skipped silently while the connection stays open" % ("next read_until" if again else "Ok return"),
                 note_ok="Err -> return Err (connection is closed by the caller)")


def r4(cx):
    from .roles import listen_worker
    body = listen_worker(cx)
    cx.saw(body)
    cfg = Cfg(body); du = DefUse(body)
    hcalls = [t for t in body.calls("=handle") if "ConnectionHandler" in t.callee.path]
    cx.floor("C01.R4", "handle() call sites in the listen worker", len(hcalls), 1)
    for i, t in enumerate(hcalls):
        # discriminant switch on the result
        sw = None
        for b in cfg.reach(t.target):
            term = body.blocks[b].term
            if term.kind == "switch":
                c = switch_cond(body, du, term)
                if c.kind == "discr" and c.place.l == t.dest.l and not c.place.p: sw = term; break
        key = "listen-worker:handle#%d:Err-edge" % i
        site = "%s %s" % (t.sp, body.path)
        if sw is None:
            cx.bad("C01.R4", key, site, "result of handle() is not matched on Ok/Err"); continue
        err = variant_edge(sw, 1)
        shut = {x.bb for x in body.calls("=shutdown")}
        rets = cfg.returns()
        passes = cfg.must_pass_after(err, rets, shut)
        again = t.bb in cfg.after(err)
        cx.check(passes and not again, "C01.R4", key, site,
                 ("a path from handle()'s Err edge reaches the worker's return without Stream::shutdown; " if not passes else "") +
                 ("the Err edge can re-enter handle() on the same connection" if again else ""),
                 note_ok="Err -> shutdown -> leave loop")
