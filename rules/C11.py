"""C11 — parser accepts exactly the varlink grammar, rejects duplicates, mirrors the source."""
from vlib import peg
from vlib.cfg import Slice, Cfg, DefUse, ref_chain
from vlib.cond import bool_edges, switch_cond, variant_edge
from vlib.facts import AnchorMissing

GRAMMAR = "varlink_parser/src/varlink_grammar.rs"
AZ = (65, 90); az = (97, 122); D09 = (48, 57)


def cls(*r): return ("class", tuple(sorted(r)))
def seq(*x): return ("seq", list(x))
def star(x): return ("star", x)
def plus(x): return ("plus", x)
def opt(x): return ("opt", x)
def alt(*x): return ("alt", list(x))
def lit(s): return ("lit", s)


REF_NAME = seq(cls(AZ), star(cls(AZ, az, D09)))
REF_FIELD = seq(cls(AZ, az), star(seq(opt(lit("_")), cls(AZ, az, D09))))
# strict lower-case form of the specification
REF_IFACE_LOWER = seq(cls(az), star(seq(star(lit("-")), cls(az, D09))), plus(seq(lit("."), cls(az, D09), star(seq(star(lit("-")), cls(az, D09))))))
# case-liberal upper bound with the property's clause built in: >= 2 elements, first char a letter, no element starts or ends with '-'
REF_IFACE_UPPER = seq(cls(AZ, az), star(seq(star(lit("-")), cls(AZ, az, D09))), plus(seq(lit("."), cls(AZ, az, D09), star(seq(star(lit("-")), cls(AZ, az, D09))))))
B = "\x01"
REF_TYPE = seq(star(seq(opt(lit("?")), alt(lit("[]"), lit("[string]")))), opt(lit("?")), lit(B))


def strip_fail(e):
    """quiet!{x} / expected!(..): drop the always-failing alternative"""
    if e[0] == "alt":
        xs = [x for x in e[1] if x != ("fail",)]
        return xs[0] if len(xs) == 1 else ("alt", xs)
    return e


def run(cx):
    cx.rule("C11.R1", "lexical languages decided exactly by automata built from the peg grammar: name == [A-Z][A-Za-z0-9]*, field_name == [A-Za-z](_?[A-Za-z0-9])*, L_lower <= interface_name <= L_upper (no element starts/ends with '-', >= 2 elements), type prefix language == ((\\?)?(\\[\\]|\\[string\\]))*(\\?)?btype; each rule is checked to be determinate so that PEG and regular semantics coincide")
    cx.rule("C11.R2", "duplicate matrix: in IDL::from_token the arm of each member kind consults the key lists of exactly the two other kinds, always records its own name, and reports a same-kind duplicate from map.insert() returning Some; try_from returns Err(Idl) iff the error set is non-empty")
    cx.rule("C11.R3", "mirroring: grammar actions build Method/Typedef/VError/Argument/IDL from the captures in source order (name <- name capture, input before '->' and output after, doc <- leading trivia, description <- whole input)")
    g = peg.find_grammar(cx.ast, GRAMMAR)
    cx.g = g
    r1(cx, g); r2(cx); r3(cx, g)
    cx.rule("C11.R4", "accepted text is answered with a value, not a panic: the may-panic constructs of the hand-written code behind IDL::try_from (from_token, trim_doc, the error mapper) are the reviewed table of C12.R3 — a slice of the documentation text at a byte offset computed from character counts would panic on a valid definition")
    from .C12 import r3 as parser_panic_census
    parser_panic_census(cx, rule="C11.R4")


def lexical(cx, g, rule, follow_rules):
    e = peg.normalize_lookahead(strip_fail(g.inline(g.rules[rule])))
    follow = []
    for fr in follow_rules:
        follow += g.first_chars(fr)[0]
    conf = peg.determinate(g, e, follow)
    cx.check(not conf, "C11.R1", "grammar:%s:determinate" % rule, "%s:%d" % (GRAMMAR, g.lines.get(rule, 0)),
             "rule %s is not determinate (%s): its PEG behaviour differs from its regular reading" % (rule, "; ".join(conf[:3])),
             note_ok="every loop/option body starts with characters that cannot follow it")
    return e


def incl(cx, key, rule, site, A, B_, what, cuts):
    da = peg.compile_dfa(A, cuts); db = peg.compile_dfa(B_, cuts)
    w = peg.difference_witness(da, db)
    cx.check(w is None, "C11.R1", key, site, "%s: the string %r separates the two languages" % (what, w), note_ok=what + " holds for all strings (%d x %d DFA states)" % (len(da.states), len(db.states)), witness={"separating_input": w})


def r1(cx, g):
    n_obl = 0
    site = lambda r: "%s:%d" % (GRAMMAR, g.lines.get(r, 0))
    # what may follow each lexical rule at its call sites
    users = {"name": [], "field_name": [], "interface_name": []}
    wce_first = [("call", "wce")]
    nm = lexical(cx, g, "name", [("call", "wce"), cls((40, 40)), cls((41, 41)), cls((44, 44))])
    fl = lexical(cx, g, "field_name", [("call", "wce"), cls((58, 58)), cls((44, 44)), cls((41, 41))])
    ifc = lexical(cx, g, "interface_name", [("call", "eol")])
    cuts = peg.collect_cuts(nm, fl, ifc, REF_NAME, REF_FIELD, REF_IFACE_LOWER, REF_IFACE_UPPER)
    incl(cx, "grammar:name:subset-of-spec", "name", site("name"), nm, REF_NAME, "name <= [A-Z][A-Za-z0-9]*", cuts)
    incl(cx, "grammar:name:superset-of-spec", "name", site("name"), REF_NAME, nm, "[A-Z][A-Za-z0-9]* <= name", cuts)
    incl(cx, "grammar:field_name:subset-of-spec", "field_name", site("field_name"), fl, REF_FIELD, "field_name <= [A-Za-z](_?[A-Za-z0-9])*", cuts)
    incl(cx, "grammar:field_name:superset-of-spec", "field_name", site("field_name"), REF_FIELD, fl, "[A-Za-z](_?[A-Za-z0-9])* <= field_name", cuts)
    incl(cx, "grammar:interface_name:upper-bound", "interface_name", site("interface_name"), ifc, REF_IFACE_UPPER,
         "interface_name <= L_upper (>= 2 elements, first char a letter, no element starts or ends with a hyphen)", cuts)
    incl(cx, "grammar:interface_name:lower-bound", "interface_name", site("interface_name"), REF_IFACE_LOWER, ifc,
         "L_lower (strict lower-case reverse-domain names) <= interface_name", cuts)
    # trivia: a comment runs from '#' to the first line terminator, and the characters that stop it are exactly those eol_r() starts with
    LT = ((10, 10), (13, 13), (0x2028, 0x2029))
    REF_EOL = alt(lit("\n"), lit("\r\n"), lit("\r"), lit("\u2028"), lit("\u2029"))
    NOT_LT = ("class", ((0, 9), (11, 12), (14, 0x2027), (0x202A, peg.MAXCP)))
    REF_COMMENT = seq(lit("#"), star(NOT_LT), REF_EOL)
    eolr = strip_fail(g.inline(g.rules["eol_r"]))
    cm = lexical(cx, g, "comment", [])
    cuts_t = peg.collect_cuts(eolr, cm, REF_EOL, REF_COMMENT)
    incl(cx, "grammar:eol_r:subset-of-spec", "eol_r", site("eol_r"), eolr, REF_EOL, "eol_r <= {LF, CRLF, CR, U+2028, U+2029}", cuts_t)
    incl(cx, "grammar:eol_r:superset-of-spec", "eol_r", site("eol_r"), REF_EOL, eolr, "{LF, CRLF, CR, U+2028, U+2029} <= eol_r", cuts_t)
    incl(cx, "grammar:comment:subset-of-spec", "comment", site("comment"), cm, REF_COMMENT, "comment <= '#' [^line terminator]* line-terminator", cuts_t)
    incl(cx, "grammar:comment:superset-of-spec", "comment", site("comment"), REF_COMMENT, cm, "'#' [^line terminator]* line-terminator <= comment", cuts_t)
    if cx.tier == "thorough":
        # independent cross-check of the automata route: run the grammar rules under exact PEG semantics (interpreter over the IR)
        # on every string over one representative per character class up to 7 characters and compare with the references
        from itertools import product
        alpha = ["a", "Z", "7", "-", ".", "_", " "]
        dn = peg.compile_dfa(REF_NAME, cuts); df = peg.compile_dfa(REF_FIELD, cuts)
        dl = peg.compile_dfa(REF_IFACE_LOWER, cuts); du_ = peg.compile_dfa(REF_IFACE_UPPER, cuts)
        nstr = 0; diffs = []
        for L in range(0, 8):
            for tup in product(alpha, repeat=L):
                w = "".join(tup); nstr += 1
                pn = peg.peg_match(g, ("call", "name"), w, 0, {}) == len(w)
                pf = peg.peg_match(g, ("call", "field_name"), w, 0, {}) == len(w)
                pi = peg.peg_match(g, ("call", "interface_name"), w, 0, {}) == len(w)
                if pn != peg.dfa_accepts(dn, w): diffs.append(("name", w))
                if pf != peg.dfa_accepts(df, w): diffs.append(("field_name", w))
                if peg.dfa_accepts(dl, w) and not pi: diffs.append(("interface_name rejects a strict reverse-domain name", w))
                if pi and not peg.dfa_accepts(du_, w): diffs.append(("interface_name accepts", w))
                if len(diffs) > 3: break
            if len(diffs) > 3: break
        cx.check(not diffs, "C11.R1", "grammar:lexical:peg-cross-check", GRAMMAR, "PEG semantics disagree with the reference languages: %s" % diffs[:3],
                 note_ok="PEG interpreter agrees with the reference automata on all %d strings over {a,Z,7,-,.,_,space} up to 7 characters" % nstr)
        rules2 = dict(g.rules); rules2["btype"] = ("lit", B)
        nt, d2 = peg.bounded_compare(g, "type_", REF_TYPE, ["?", "[]", "[string]", B], 8, rules=rules2)
        cx.check(d2 is None, "C11.R1", "grammar:type_:peg-cross-check", site("type_"), "PEG semantics of type_ disagree with the documented type language on %r" % (d2[0].replace(B, "<btype>") if d2 else ""),
                 note_ok="PEG interpreter agrees with the documented type language on all %d token strings up to 8 tokens" % nt)
    # ---- type prefix language: type_ must be right-linear in itself; btype is an opaque symbol
    t = g.rules["type_"]
    alts = t[1] if t[0] == "alt" else [t]
    rl = True
    for a in alts:
        items = a[1] if a[0] == "seq" else [a]
        for i, x in enumerate(items):
            if "type_" in g.calls(x) and not (x == ("call", "type_") and i == len(items) - 1): rl = False
    if rl: cx.ok("C11.R1", "grammar:type_:right-linear", site("type_"), "self calls only in tail position")
    else: cx.note("C11.R1", "grammar:type_:right-linear", site("type_"), "type_ calls itself outside tail position: decided by bounded enumeration instead of automata")
    if rl:
        te = g.inline(t, stack=("type_",), stop=("type_", "btype"))
        # replace remaining calls: btype -> symbol, type_ -> self
        cuts2 = peg.collect_cuts(te, REF_TYPE)
        try:
            dt = peg.compile_dfa(te, cuts2, self_rule="type_", symbols={"btype": 1})
            dr = peg.compile_dfa(REF_TYPE, cuts2)
            w1 = peg.difference_witness(dt, dr); w2 = peg.difference_witness(dr, dt)
            show = lambda w: None if w is None else w.replace(B, "<btype>")
            cx.check(w1 is None, "C11.R1", "grammar:type_:prefix-subset-of-spec", site("type_"),
                     "type expression %r is accepted but is not a documented type expression (at most one '?' in front of each element type)" % show(w1),
                     note_ok="type_ <= ((?)?([]|[string]))*(?)?btype", witness={"separating_input": show(w1)})
            cx.check(w2 is None, "C11.R1", "grammar:type_:prefix-superset-of-spec", site("type_"),
                     "documented type expression %r is rejected" % show(w2), note_ok="((?)?([]|[string]))*(?)?btype <= type_", witness={"separating_input": show(w2)})
        except peg.GrammarError as ex:
            rl = False; cx.notes.append("C11.R1: type_ is not handled by the exact engine (%s): falling back to bounded enumeration" % ex)
    if not rl:
        # the rule uses a construct the exact engine does not cover (lookahead, non-tail recursion): compare PEG semantics with the
        # reference on every token string up to 7 tokens (bounded, exhaustive within the bound)
        rules2 = dict(g.rules); rules2["btype"] = ("lit", B)
        nstr, diff = peg.bounded_compare(g, "type_", REF_TYPE, ["?", "[]", "[string]", B], 7, rules=rules2)
        show = lambda w: w.replace(B, "<btype>")
        cx.check(diff is None, "C11.R1", "grammar:type_:prefix-language-bounded", site("type_"),
                 "type expression %r is %s by the grammar but %s by the documented type language" % (show(diff[0]) if diff else "", "accepted" if diff and diff[1] else "rejected", "accepted" if diff and diff[2] else "rejected"),
                 note_ok="PEG semantics of type_ agree with ((?)?([]|[string]))*(?)?btype on all %d token strings up to 7 tokens (bounded)" % nstr, witness={"separating_input": show(diff[0]) if diff else None})
    # ---- keyword tables
    def lits_of(e):
        out = []
        def w(e):
            if e[0] == "lit": out.append(e[1])
            for x in e[1:]:
                if isinstance(x, tuple): w(x)
                elif isinstance(x, list):
                    for y in x: w(y)
        w(e); return out
    bt = g.rules["btype"]
    balts = bt[1] if bt[0] == "alt" else [bt]
    kw = [a[1] for a in balts if a[0] == "lit"]
    calls = [a[1] for a in balts if a[0] == "call"]
    cx.check(kw == ["bool", "int", "float", "string", "object"] and calls == ["name", "vstruct", "venum"], "C11.R1", "grammar:btype:alternatives", site("btype"),
             "btype alternatives are %s + %s (expected the five scalar keywords, then name, vstruct, venum)" % (kw, calls), note_ok="bool|int|float|string|object|name|vstruct|venum")
    for rule, kws in (("method", ["method", "->"]), ("vtypedef", ["type", "type"]), ("error", ["error"]), ("ParseInterface", ["interface"]),
                      ("array", ["[]"]), ("dict", ["[string]"]), ("option", ["?"])):
        got = lits_of(g.rules[rule])
        cx.check(sorted(set(got)) == sorted(set(kws)), "C11.R1", "grammar:%s:keywords" % rule, site(rule), "rule %s uses literals %s, expected %s" % (rule, got, kws), note_ok="literals %s" % kws)
    # member = method / vtypedef / error ; interface = header eol member ++ eol
    mem = g.rules["member"]
    mc = [a[1] for a in (mem[1] if mem[0] == "alt" else [mem]) if a[0] == "call"]
    cx.check(sorted(mc) == ["error", "method", "vtypedef"], "C11.R1", "grammar:member:kinds", site("member"), "member kinds %s" % mc, note_ok="method | type | error")
    # struct and enum separators: fields separated by ',', enclosed in parentheses
    for rule, elem in (("vstruct", "object_field"), ("venum", "field_name")):
        e = g.rules[rule]
        items = e[1] if e[0] == "seq" else [e]
        ok = items[0] == cls((40, 40)) and items[-1] == cls((41, 41)) and any(x[0] == "sepstar" and x[1] == ("call", elem) and peg.Grammar.first_chars(g, x[2])[0] == [(44, 44)] for x in items)
        cx.check(ok, "C11.R1", "grammar:%s:shape" % rule, site(rule), "%s is not '(' %s ** ',' ')'" % (rule, elem), note_ok="'(' %s ** ',' ')'" % elem)


KINDS = {"Method": dict(own_keys="method_keys", own_map="methods", others={"error_keys", "typedef_keys"}),
         "Typedef": dict(own_keys="typedef_keys", own_map="typedefs", others={"error_keys", "method_keys"}),
         "Error": dict(own_keys="error_keys", own_map="errors", others={"typedef_keys", "method_keys"})}


_ITEMS = [None]

def _struct_field_names(body, tyname):
    from vlib import absval
    f = absval._FACTS[0]
    if f is None: return None
    for u in f.units:
        for it in u.items:
            if it.get("kind") == "Struct" and it.get("path", "").split("::")[-1] == tyname and it.get("variants"):
                return [x["name"] for x in it["variants"][0].get("fields", [])]
    return None


def recv_fields(body, du, op):
    """field names on the receiver chain of a method call (through refs, copies and Deref-like calls; through tuples, arrays and
    iterators over them when the receiver was handed to a helper that way)"""
    out = []
    if op.place is None: return out
    sl = Slice(body, du, extra_pass=("=deref", "=deref_mut", "=as_slice", "=as_ref", "=as_mut", "=borrow", "=borrow_mut", "=as_mut_slice", "=iter", "=iter_mut", "=into_iter", "=next", "=by_ref"))
    sl.origins(op)
    for (l, proj) in sl.last_seen:
        if not proj or not proj[0].startswith("."): continue
        ty = body.ty(l).replace("&mut ", "").replace("&", "").strip().split("<")[0].split("::")[-1]
        names = _struct_field_names(body, ty)
        if names:
            try: k = int(proj[0][1:])
            except ValueError: continue
            if k < len(names): out.append(names[k])
    work = [op.place.l]; seen = set()
    while work:
        l0 = work.pop()
        for l in ref_chain(du, l0):
            if l in seen: continue
            seen.add(l)
            for k, d in du.defs.get(l, []):
                if k == "stmt" and d.kind == "assign" and d.rplace is not None: out += d.rplace.fields()
                if k == "call" and not d.callee.indirect and d.callee.name in ("deref", "deref_mut", "as_slice", "as_ref", "as_mut", "borrow", "as_mut_slice", "iter") and d.args and d.args[0].place is not None:
                    work.append(d.args[0].place.l)
    return out


def r2(cx):
    body = cx.mir.one("varlink_parser", "IDL::<'a>::from_token")
    cx.saw(body)
    cfg = Cfg(body); du = DefUse(body)
    # the match on the member kind
    sw = None
    for b in body.blocks:
        if b.cleanup or b.term.kind != "switch": continue
        c = switch_cond(body, du, b.term)
        if c.kind == "discr" and "MethodOrTypedefOrError" in body.ty(c.place.l): sw = b.term
    if sw is None: raise AnchorMissing("from_token: no match on MethodOrTypedefOrError")
    # (the member loop's own next(); the `next` of an adaptor written out inside an arm does not end the arm)
    sw_bb = [b.idx for b in body.blocks if b.term is sw][0]
    nexts = {t.bb for t in body.calls("=next") if cfg.dominates(t.bb, sw_bb)} or {t.bb for t in body.calls("=next") if not t.callee.d.get("synthetic")}
    arms = {}
    for v, dst in sw.targets:
        r = cfg.reach(dst, blocked_nodes=nexts)
        kind = None
        for bi in r:
            for s in body.blocks[bi].stmts:
                if s.kind == "assign":
                    for o in s.ops:
                        if o.place is not None:
                            for e in o.place.p:
                                if e.startswith("as ") and e[3:].split("#")[0] in KINDS: kind = e[3:].split("#")[0]
            if kind: break
        if kind: arms[kind] = (dst, r)
    cx.floor("C11.R2", "member-kind arms in from_token", len(arms), 3)
    cells = 0
    for kind, (dst, r) in sorted(arms.items()):
        want = KINDS[kind]
        contains = [t for t in body.calls("=contains") if t.bb in r]
        cf = set()
        for t in contains:
            cf |= {f for f in recv_fields(body, du, t.args[0]) if f.endswith("_keys")}
        pushes = [t for t in body.calls("=push") if t.bb in r]
        pf = set()
        for t in pushes: pf |= {f for f in recv_fields(body, du, t.args[0]) if f.endswith("_keys")}
        inserts = [t for t in body.calls("=insert") if t.bb in r and "BTreeMap" in t.callee.path]
        mf = set()
        for t in inserts: mf |= {f for f in recv_fields(body, du, t.args[0]) if f in ("methods", "typedefs", "errors")}
        errins = [t for t in body.calls("=insert") if t.bb in r and "HashSet" in t.callee.path]
        site = "%s %s" % (body.blocks[dst].term.sp or body.sp, body.path)
        for other in sorted(want["others"]):
            cells += 1
            cx.check(other in cf, "C11.R2", "from_token:%s:checks-%s" % (kind, other), site,
                     "a %s whose name is already used by a member recorded in %s is not reported (cross-kind duplicate accepted, depending on declaration order)" % (kind.lower(), other),
                     note_ok="consults %s" % other)
        cells += 1
        # own name recorded on every path through the arm
        okp = pf == {want["own_keys"]} and all(cfg.must_pass(dst, [b for b in nexts], {t.bb}) for t in pushes)
        cx.check(okp, "C11.R2", "from_token:%s:records-own-name" % kind, site, "the arm does not always push onto %s (pushes onto %s)" % (want["own_keys"], sorted(pf)), note_ok="always pushes onto %s" % want["own_keys"])
        # same-kind duplicate: insert into own map, Some(..) edge reaches an error insert
        oks = False
        if mf == {want["own_map"]} and len(inserts) == 1:
            t = inserts[0]
            for bi in sorted(cfg.reach(t.target, blocked_nodes=nexts)):
                term = body.blocks[bi].term
                if term.kind == "switch":
                    c = switch_cond(body, du, term)
                    if c.kind == "discr" and (c.place.l == t.dest.l or (not c.place.p and [o for k, o in Slice(body, du).origins(c.place) if k == "call"] == [t])):
                        some = variant_edge(term, 1)
                        oks = any(e.bb in cfg.after(some, blocked_nodes=nexts) for e in errins) and cfg.must_pass(dst, list(nexts), {t.bb})
                        break
                    if c.kind == "call" and c.term.callee.name in ("is_some", "is_none") and c.term.args and c.term.args[0].place is not None \
                       and any(k == "call" and o is t for k, o in Slice(body, du).origins(c.term.args[0])):
                        # `if map.insert(name, member).is_some() { report }`
                        te, fe = bool_edges(term, c)
                        some = te if c.term.callee.name == "is_some" else fe
                        oks = any(e.bb in cfg.after(some, blocked_nodes=nexts) for e in errins) and cfg.must_pass(dst, list(nexts), {t.bb})
                        break
        cells += 1
        cx.check(oks, "C11.R2", "from_token:%s:same-kind-duplicate" % kind, site, "a repeated %s name is not reported (map insert returning Some must record an error)" % kind.lower(), note_ok="insert()==Some -> error recorded")
        # each contains-true edge records an error
        okc = len(errins) >= 2
        cx.check(okc, "C11.R2", "from_token:%s:error-recorded" % kind, site, "fewer than two error recordings in the arm (%d)" % len(errins), note_ok="%d error recordings" % len(errins))
        # the recorded message names the duplicate: format args include the member's name
    cx.floor("C11.R2", "duplicate matrix cells", cells, 12)
    # try_from: Err(Idl) iff error set non-empty
    tf = [b for b in cx.mir.bodies("varlink_parser") if b.promoted is None and b.path.endswith("::try_from") and "IDL" in (b.impl_self or b.path)]
    if len(tf) != 1: raise AnchorMissing("IDL::try_from: %d candidates" % len(tf))
    tf = tf[0]; cx.saw(tf)
    tcfg = Cfg(tf); tdu = DefUse(tf)
    emp = [t for t in tf.calls("=is_empty") if "error" in recv_fields(tf, tdu, t.args[0])]
    okt = False
    if len(emp) == 1:
        for b in tf.blocks:
            if b.cleanup or b.term.kind != "switch": continue
            c = switch_cond(tf, tdu, b.term)
            if c.kind == "call" and c.term is emp[0]:
                te, fe = bool_edges(b.term, c)
                from .client_common import ok_return_blocks
                okret = ok_return_blocks(tf)
                idl = [s.bb for s in tf.stmts() if s.kind == "assign" and s.rv == "agg" and isinstance(s.agg, dict) and s.agg.get("variant") == "Idl"]
                okt = bool(okret) and bool(idl) and all(x in tcfg.after(te) and x not in tcfg.after(fe) for x in okret) and all(x in tcfg.after(fe) and x not in tcfg.after(te) for x in idl)
    cx.check(okt, "C11.R2", "try_from:Err-iff-errors", tf.sp, "try_from does not return Ok exactly when the error set is empty and Error::Idl otherwise", note_ok="error.is_empty() ? Ok(interface) : Err(Idl(sorted, joined))")
    srt = tf.calls("=sort") + tf.calls("=sort_unstable")
    cx.check(bool(srt) and bool(tf.calls("=join")), "C11.R2", "try_from:all-errors-reported", tf.sp, "the collected messages are not sorted and joined into the error (some duplicate may go unnamed)", note_ok="all messages sorted and joined")


ACTIONS = {
    # rule: (constructor, {field: expression of labels}, ordered label list)
    "method": ("Method", {"name": "n", "doc": "trim_doc ( d )", "input": "i", "output": "o"}, ["d", "n", "i", "o"]),
    "error": ("VError", {"name": "n", "doc": "trim_doc ( d )", "parm": "p"}, ["d", "n", "p"]),
    "object_field": ("Argument", {"name": "n", "vtype": "v"}, ["n", "v"]),
}


def parse_fields(action, ctor):
    """Ctor { a : x , b : y } -> {a: 'x', b: 'y'} (top level commas only)"""
    a = action.strip()
    if not a.startswith(ctor + " {"): return None
    inner = a[len(ctor) + 2:].rstrip()
    if inner.endswith("}"): inner = inner[:-1]
    out = {}; depth = 0; cur = ""
    parts = []
    for tok in inner.split(" "):
        if tok in ("(", "{", "["): depth += 1
        if tok in (")", "}", "]"): depth -= 1
        if tok == "," and depth == 0: parts.append(cur.strip()); cur = ""
        else: cur += " " + tok
    if cur.strip(): parts.append(cur.strip())
    for p in parts:
        if " : " in p:
            k, v = p.split(" : ", 1); out[k.strip()] = v.strip()
        else: out[p] = p
    return out


def r3(cx, g):
    site = lambda r: "%s:%d" % (GRAMMAR, g.lines.get(r, 0))
    for rule, (ctor, want, labels) in ACTIONS.items():
        metas = g.meta[rule]
        for ai, m in enumerate(metas):
            key = "grammar:%s#%d:action" % (rule, ai)
            got = parse_fields(m["action"] or "", ctor)
            lab = [l for l, _ in m["items"] if l]
            why = []
            want2 = dict(want)
            if want2.get("doc") == "trim_doc ( d )" and got is not None and got.get("doc") == "d":
                # `d:doc()` where rule doc captures the leading trivia and trims it (judged by doc-is-leading-trivia below)
                first = m["items"][0] if m["items"] else (None, None)
                if first[0] == "d" and first[1][0] == "call": want2["doc"] = "d"
            if got != want2: why.append("action builds %s, expected %s{%s}" % (m["action"], ctor, want))
            if lab != labels: why.append("captures are %s, expected %s" % (lab, labels))
            cx.check(not why, "C11.R3", key, site(rule), "; ".join(why), note_ok="%s fields <- captures %s" % (ctor, labels))
    # what each capture captures
    def cap(rule, ai, label):
        for l, e in g.meta[rule][ai]["items"]:
            if l == label: return e
        return None
    m = g.meta["method"][0]
    order = [(l, e) for l, e in m["items"]]
    idx = {l: i for i, (l, e) in enumerate(order) if l}
    arrow = [i for i, (l, e) in enumerate(order) if e == ("lit", "->")]
    ok = arrow and idx.get("i", 99) < arrow[0] < idx.get("o", -1) and cap("method", 0, "i") == ("call", "vstruct") and cap("method", 0, "o") == ("call", "vstruct") and cap("method", 0, "n") == ("call", "name")
    cx.check(bool(ok), "C11.R3", "grammar:method:input-before-arrow", site("method"), "method's input/output captures are not the structs before/after '->'", note_ok="i = vstruct before '->', o = vstruct after")
    # doc captures: leading trivia d:$(wce()*) at position 0 of every member and of the interface — either spelled in place
    # (`d:$(wce()*) .. trim_doc(d)`) or through a rule that captures exactly that trivia and trims it (`d:doc() .. d`)
    doc_rules = set()
    for rn, alts in g.meta.items():
        if len(alts) == 1 and len(alts[0]["items"]) == 1 and alts[0]["items"][0][1] == ("star", ("call", "wce")) and "trim_doc(" in (alts[0]["action"] or "").replace(" ", ""):
            doc_rules.add(rn)
    def doc_field(rule, ai):
        """text the `doc` member must have in this alternative's action, or None when the doc capture is not the leading trivia"""
        mm = g.meta[rule][ai]
        first = mm["items"][0] if mm["items"] else (None, None)
        if first[0] == "d" and first[1] == ("star", ("call", "wce")): return "trim_doc ( d )"
        if first[0] == "d" and first[1][0] == "call" and first[1][1] in doc_rules: return "d"
        return None
    for rule in ("method", "vtypedef", "error", "ParseInterface"):
        for ai, mm in enumerate(g.meta[rule]):
            cx.check(doc_field(rule, ai) is not None, "C11.R3", "grammar:%s#%d:doc-is-leading-trivia" % (rule, ai), site(rule),
                     "documentation capture is not the trivia in front of the member", note_ok="d = $(wce()*) in front")
    # typedef: two alternatives (struct, enum) wrapped in the matching variant
    td = g.meta["vtypedef"]
    want_td = [("vstruct", "VStructOrEnum : : VStruct ( Box : : new ( v ) )"), ("venum", "VStructOrEnum : : VEnum ( Box : : new ( v ) )")]
    factored = None
    if len(td) == 1:
        # left-factored spelling: `"type" n:name() v:<rule>()` where <rule> = vstruct wrapped / venum wrapped
        vcap = None; vlab = None
        for l, e in td[0]["items"]:
            if l and e[0] == "call" and e[1] in g.meta and len(g.meta[e[1]]) == 2 and e[1] not in ("name",): vcap, vlab = e, l
        if vcap is not None:
            sub = g.meta[vcap[1]]
            oks = []
            for ai, (callee, elt) in enumerate(want_td):
                lab = [l for l, e in sub[ai]["items"] if e == ("call", callee)]
                oks.append(bool(lab) and (sub[ai]["action"] or "").replace(" ", "") == elt.replace(" ", "").replace("(v)", "(%s)" % lab[0]))
            got = parse_fields(td[0]["action"] or "", "Typedef")
            factored = all(oks) and got == {"name": "n", "doc": doc_field("vtypedef", 0), "elt": vlab} and cap("vtypedef", 0, "n") == ("call", "name")
            cx.check(factored, "C11.R3", "grammar:vtypedef#0:action", site("vtypedef"), "typedef builds %s through rule %s (%s)" % (td[0]["action"], vcap[1], [x["action"] for x in sub]),
                     note_ok="Typedef{name:n, doc, elt: %s() = VStruct(vstruct) | VEnum(venum)}" % vcap[1])
    for ai, (callee, elt) in enumerate(want_td if factored is None else []):
        got = parse_fields(td[ai]["action"] or "", "Typedef") if ai < len(td) else None
        good = ai < len(td) and got == {"name": "n", "doc": doc_field("vtypedef", ai), "elt": elt} and cap("vtypedef", ai, "v") == ("call", callee) and cap("vtypedef", ai, "n") == ("call", "name")
        cx.check(good, "C11.R3", "grammar:vtypedef#%d:action" % ai, site("vtypedef"), "typedef alternative %d builds %s" % (ai, td[ai]["action"] if ai < len(td) else None), note_ok="Typedef{name:n, doc, elt:%s}" % callee)
    # interface: from_token(__input, n, mt, trim_doc(d)) with n = $interface_name(), mt = member ++ eol
    pi = g.meta["ParseInterface"][0]
    good = (pi["action"] or "").replace(" ", "") == "IDL::from_token(__input,n,mt,%s)" % (doc_field("ParseInterface", 0) or "?").replace(" ", "") and cap("ParseInterface", 0, "n") == ("call", "interface_name") \
           and cap("ParseInterface", 0, "mt") == ("sepplus", ("call", "member"), ("call", "eol"))
    cx.check(good, "C11.R3", "grammar:ParseInterface:action", site("ParseInterface"), "interface action is %s" % pi["action"], note_ok="IDL::from_token(__input, n, mt, trim_doc(d))")
    # type_ actions: constructor nesting equals the prefix sequence
    names = {"array": "Array", "dict": "Dict", "option": "Option"}
    for ai, mm in enumerate(g.meta["type_"]):
        pre = [names[e[1]] for l, e in mm["items"] if e[0] == "call" and e[1] in names]
        act = (mm["action"] or "")
        ctors = [w for w in act.replace("(", " ").replace(")", " ").split() if w in ("Array", "Dict", "Option")]
        cx.check(ctors == pre, "C11.R3", "grammar:type_#%d:action" % ai, site("type_"), "prefix %s is built as %s" % (pre, ctors), note_ok="%s" % (pre or ["plain"]))
    # member wraps each rule in the variant of the same kind
    wantm = {"method": "Method", "vtypedef": "Typedef", "error": "Error"}
    for ai, mm in enumerate(g.meta["member"]):
        c = [e[1] for l, e in mm["items"] if e[0] == "call"]
        v = wantm.get(c[0]) if c else None
        cx.check(v is not None and ("MethodOrTypedefOrError : : %s (" % v) in (mm["action"] or ""), "C11.R3", "grammar:member#%d:variant" % ai, site("member"),
                 "member alternative %s is wrapped as %s" % (c, mm["action"]), note_ok="%s -> %s" % (c[0] if c else "?", v))
    # from_token stores what it is given
    ft = cx.mir.one("varlink_parser", "IDL::<'a>::from_token")
    aggs = [s for s in ft.stmts() if s.kind == "assign" and s.rv == "agg" and isinstance(s.agg, dict) and s.agg.get("adt", "").split("::")[-1] == "IDL"]
    good = False
    if len(aggs) == 1:
        ops = aggs[0].ops
        fdu = DefUse(ft)
        def argn(o):
            if o.place is None: return None
            end = ref_chain(fdu, o.place.l)[-1]
            ds = fdu.defs.get(end, [])
            return ds[0][1] if len(ds) == 1 and ds[0][0] == "arg" else None
        good = [argn(ops[0]), argn(ops[1]), argn(ops[2])] == [1, 2, 4]
    cx.check(good, "C11.R3", "from_token:header-fields", ft.sp, "IDL{description, name, doc} are not the description/name/doc arguments", note_ok="description, name, doc stored as given")
