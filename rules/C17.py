"""C17 — wire data types survive a JSON round trip in both directions."""
from vlib.cfg import Cfg, DefUse, Slice, ref_chain
from vlib.cond import switch_cond, variant_edge
from vlib.facts import AnchorMissing

LIB = "varlink/src/lib.rs"
WIRE_STRUCTS = ("Request", "Reply", "ServiceInfo", "GetInterfaceDescriptionReply", "GetInterfaceDescriptionArgs", "GetInfoArgs",
                "ErrorInterfaceNotFound", "ErrorInvalidParameter", "ErrorMethodNotImplemented", "ErrorMethodNotFound")
MUST_OMIT = ("Request", "Reply", "GetInterfaceDescriptionReply")
ASYM = ("skip_serializing_if", "rename", "default", "skip_deserializing", "skip_serializing)", "alias", "flatten", "with", "serialize_with", "deserialize_with", "skip)", "skip,", "untagged", "tag", "deny_unknown_fields", "from", "into", "try_from")


def run(cx):
    cx.rule("C17.R1", "MapAccess pairing: in every Visitor::visit_map of the workspace each key obtained from next_key* is followed by a next_value* (or the function returns Err) before the next key is requested or Ok is returned")
    cx.rule("C17.R2", "derived wire types are symmetric: Serialize and Deserialize derived together, no rename/default/skip asymmetry, and every Option member of Request/Reply/GetInterfaceDescriptionReply is omitted when unset")
    cx.rule("C17.R3", "string set shape: serialised as a map with one entry per element whose value is an empty JSON object; deserialised through deserialize_map")
    r1(cx); r2(cx); r3(cx)


def r1(cx):
    hand = 0; total = 0
    for body in cx.mir.bodies():
        if body.promoted is not None or not body.path.endswith("::visit_map"): continue
        if not (body.impl_trait or "").endswith("Visitor"): continue
        total += 1
        derived = bool(body.mac and "derive" in body.mac)
        if not derived: hand += 1
        if derived and body.pkg != "varlink": continue      # serde's own expansion: sampled in the library crate only
        cx.saw(body)
        cfg = Cfg(body); du = DefUse(body); sl = Slice(body, du)
        K = [t for t in body.calls() if not t.callee.indirect and t.callee.name.startswith("next_key")]
        V = [t for t in body.calls() if not t.callee.indirect and (t.callee.name.startswith("next_value") or t.callee.name.startswith("next_entry"))]
        key = "%s:%s" % (body.pkg, body.path)
        if not K:
            E = [t for t in body.calls() if not t.callee.indirect and t.callee.name.startswith("next_entry")]
            cx.check(bool(E) or derived, "C17.R1", key, body.sp, "visit_map neither reads keys nor entries", note_ok="uses next_entry only")
            continue
        okret = {s.bb for s in body.stmts() if s.kind == "assign" and s.lhs.l == 0 and not s.lhs.p and s.rv == "agg" and isinstance(s.agg, dict) and s.agg.get("variant") == "Ok"}
        okret |= {t.bb for t in body.calls() if t.dest is not None and t.dest.l == 0 and not t.dest.p and t.callee.name not in ("from_residual",) and not t.callee.indirect and t.callee.name not in ("duplicate_field", "missing_field", "custom", "invalid_length", "unknown_field")}
        vb = {t.bb for t in V}
        bad = []
        for kt in K:
            some_edges = []
            for b in sorted(cfg.reach(kt.target)):
                term = body.blocks[b].term
                if term.kind != "switch": continue
                c = switch_cond(body, du, term)
                if c.kind == "discr" and any(k == "call" and o is kt for k, o in sl.origins(c.place)) and not c.place.p and body.ty(c.place.l).replace("core::", "std::").startswith("std::option::Option<"):
                    some_edges.append(variant_edge(term, 1))
            if not some_edges:
                bad.append("result of %s is never matched on Some/None" % kt.callee.name); continue
            # the match that first looks at the key decides; a later re-match of the same value (a helper handing the key on) comes after the value was consumed
            from vlib import absval
            first = [e for e in some_edges if e[0] in absval.sens_reach(cfg, du, [(kt.target, {})], blocked_nodes={e2[0] for e2 in some_edges if e2[0] != e[0]})]
            some_edges = first or some_edges
            for e in some_edges:
                targets = [x.bb for x in K] + sorted(okret)
                if not cfg.must_pass(e[2], targets, vb - {e[2]}) and e[2] not in vb:
                    bad.append("after a key was read (%s) a path reaches the next next_key or an Ok return without consuming the value" % kt.sp)
        cx.check(not bad, "C17.R1", key, body.sp, "; ".join(bad) + " — streaming deserialisers (from_str/from_slice) then fail or mis-pair entries",
                 note_ok="%d next_key, %d next_value sites; every key is followed by its value%s" % (len(K), len(V), " (derive expansion)" if derived else ""))
    cx.floor("C17.R1", "hand-written visit_map implementations", hand, 1)


def r2(cx):
    ast = cx.ast
    if ast is None: raise AnchorMissing("AST facts missing")
    nopt = 0; nstruct = 0
    for name in WIRE_STRUCTS:
        its = ast.items_in_crate(LIB, kind="struct", name=name)
        if len(its) != 1: raise AnchorMissing("struct %s not found in %s (or a sibling module)" % (name, LIB))
        LIBF, it = its[0]; nstruct += 1
        attrs = " ".join(it["attrs"])
        der = [a for a in it["attrs"] if a.replace(" ", "").startswith("#[derive(")]
        both = any("Serialize" in a and "Deserialize" in a for a in der)
        struct_serde = [a for a in it["attrs"] if a.replace(" ", "").startswith("#[serde(")]
        cx.check(both and not struct_serde, "C17.R2", "varlink:%s:derive-pair" % name, "%s:%d" % (LIBF, it["line"]),
                 "Serialize and Deserialize are not derived together from one declaration, or a container-level serde attribute changes one direction (%s)" % struct_serde,
                 note_ok="derive(Serialize, Deserialize), no container attribute")
        for f in it["fields"]:
            fa = [a.replace(" ", "") for a in f["attrs"] if a.replace(" ", "").startswith("#[serde(")]
            asym = [a for a in fa for w in ASYM if w in a.replace('skip_serializing_if="Option::is_none"', "")]
            is_opt = f["ty"].replace(" ", "").startswith("Option<")
            key = "varlink:%s.%s" % (name, f["name"])
            site = "%s:%d" % (LIBF, f["line"])
            if asym:
                cx.bad("C17.R2", key + ":asymmetric-attr", site, "field attribute %s makes serialisation and deserialisation disagree or changes the wire name" % asym); continue
            if is_opt and name in MUST_OMIT:
                nopt += 1
                cx.check(any('skip_serializing_if="Option::is_none"' in a for a in fa), "C17.R2", key + ":omitted-when-unset", site,
                         "optional member is serialised as null instead of being omitted", note_ok="skip_serializing_if = Option::is_none")
            elif fa:
                cx.ok("C17.R2", key + ":attr", site, "attributes %s" % fa)
    cx.floor("C17.R2", "optional members of Request/Reply/GetInterfaceDescriptionReply", nopt, 8)
    cx.floor("C17.R2", "wire structs", nstruct, 10)


def r3(cx, rule="C17.R3"):
    ser = cx.mir.one("varlink", "<StringHashSet as _::_serde::Serialize>::serialize")
    cx.saw(ser)
    du = DefUse(ser); sl = Slice(ser, du); cfg = Cfg(ser)
    sm = ser.calls("=serialize_map"); se = ser.calls("=serialize_entry"); en = ser.calls("=end")
    in_closure = None
    if not se:
        # iterator spelling: self.inner.iter().try_for_each(|k| map.serialize_entry(k, &EMPTY))
        for c in [x for x in ser.unit.bodies if x.promoted is None and x.parent == ser.path]:
            if c.calls("=serialize_entry"): in_closure = c
    other = [t for t in ser.calls() if not t.callee.indirect and t.callee.name.startswith("serialize_") and t.callee.name not in ("serialize_map", "serialize_entry")]
    # the length announced to the serializer is the number of entries that follow (a compact writer trusts it: with a wrong hint
    # serde_json's text output is malformed although to_value() still looks right)
    for i, t in enumerate(sm):
        hw = []
        if len(t.args) >= 2:
            lens = []; unknown = False
            for k, o in Slice(ser, du).origins(t.args[1]):
                if k == "call" and o.callee.name == "len": lens.append(o)
                elif k == "agg" and isinstance(o.agg, dict) and o.agg.get("variant") == "None": pass
                elif k == "const" and (o.cint() == 0): lens.append(None)
                else: unknown = True
            if unknown: hw.append("the length hint is not the set's len() (nor None)")
            for o in lens:
                if o is None:
                    # Some(0) is only right where nothing is written
                    if se and any(x.bb in cfg.reach(t.target) for x in se if t.target is not None): hw.append("entries are written behind a hint of 0")
                    continue
                p_ = (o.callee.resolved or o.callee.path)
                whole = ("HashSet" in p_ or "hash::set" in p_ or "hash_set::HashSet" in p_ or p_.endswith("StringHashSet::len") or "HashMap" in p_)
                if not whole:
                    # an iterator's remaining length: right only while nothing has been taken from it
                    it = o.args[0] if o.args else None
                    taken = [x for x in ser.calls("=next", "=nth", "=next_back", "=by_ref", "=take", "=skip") if it is not None and it.place is not None and x.args and x.args[0].place is not None
                             and set(ref_chain(du, x.args[0].place.l)) & set(ref_chain(du, it.place.l)) and o.bb in cfg.reach(x.target if x.target is not None else x.bb)]
                    if taken: hw.append("the length hint is what is left of an iterator after %s() took an element (%s): one entry more is written than announced" % (taken[0].callee.name, taken[0].sp))
        cx.check(not hw, rule, "varlink:StringHashSet:serialize_map#%d:length-hint" % i, "%s %s" % (t.sp, ser.path), "; ".join(hw), note_ok="hint = number of elements")
    why = []
    def writes_empty_map(tyname):
        for b in ser.unit.bodies:
            if b.promoted is None and b.path.endswith("::serialize") and (b.impl_self or "").split("::")[-1] == tyname and not (b.mac and "derive" in b.mac):
                names = [t.callee.name for t in b.calls() if not t.callee.indirect and (t.callee.name.startswith("serialize_") or t.callee.name == "end")]
                return names.count("serialize_map") == 1 and "end" in names and all(n in ("serialize_map", "end") for n in names)
        return False
    if in_closure is not None and len(sm) == 1 and len(en) == 1 and not other:
        c = in_closure
        cdu = DefUse(c); csl = Slice(c, cdu)
        ce = c.calls("=serialize_entry")
        it = [t for t in ser.calls("=try_for_each", "=for_each")]
        if len(ce) != 1 or len(it) != 1: why.append("expected one serialize_entry inside the element closure of one try_for_each (found %d/%d)" % (len(ce), len(it)))
        else:
            if not any(k == "arg" and o == 2 for k, o in csl.origins(ce[0].args[1])): why.append("entry key is not the iterated element")
            vty = c.ty(ce[0].args[2].place.l) if ce[0].args[2].place is not None else ""
            tyname = vty.replace("&", "").replace("'_ ", "").strip().split("::")[-1]
            vo = csl.origins(ce[0].args[2])
            objs = [o for k, o in vo if k == "call" and o.callee.name == "new" and "serde_json::Map" in o.callee.path]
            if not (writes_empty_map(tyname) or objs): why.append("entry value is neither an empty serde_json::Map nor a type that serialises as an empty map (%s)" % tyname)
        cx.check(not why, rule, "varlink:StringHashSet:serialize-shape", ser.sp, "; ".join(why), note_ok="map{len} of element -> {} (closure form); end")
        why = None
    elif len(sm) != 1 or len(se) != 1 or len(en) != 1 or other: why.append("expected serialize_map + serialize_entry (in the element loop) + end, found map=%d entry=%d end=%d other=%s" % (len(sm), len(se), len(en), [t.callee.name for t in other]))
    else:
        # entry inside the loop over the set's elements
        if se[0].bb not in cfg.reach(se[0].target): why.append("serialize_entry is not inside the element loop")
        nx = [t for t in ser.calls("=next") if "hash_set" in t.callee.path or "HashSet" in t.callee.path or "Iter" in t.callee.path]
        if not nx: why.append("no iteration over the inner HashSet")
        # value operand: an empty JSON object
        vo = sl.origins(se[0].args[2])
        objs = [o for k, o in vo if k == "call" and o.callee.name == "new" and "serde_json::Map" in o.callee.path]
        # alternative: a private type whose own (hand-written) Serialize writes an empty map: serialize_map(..) immediately ended
        def writes_empty_map(tyname):
            for b in ser.unit.bodies:
                if b.promoted is None and b.path.endswith("::serialize") and (b.impl_self or "").split("::")[-1] == tyname and not (b.mac and "derive" in b.mac):
                    names = [t.callee.name for t in b.calls() if not t.callee.indirect and (t.callee.name.startswith("serialize_") or t.callee.name == "end")]
                    return names.count("serialize_map") == 1 and "end" in names and all(n in ("serialize_map", "end") for n in names)
            return False
        vty = ser.ty(se[0].args[2].place.l) if se[0].args[2].place is not None else ""
        tyname = vty.replace("&", "").replace("'_ ", "").strip().split("::")[-1]
        custom_empty = bool(tyname) and writes_empty_map(tyname)
        if not custom_empty:
            if not objs or any(k in ("arg",) for k, _ in vo): why.append("entry value is not an empty serde_json::Map (origins %s)" % [(k, str(o)[:60]) for k, o in vo])
            through = [s for s in getattr(sl, "last_through", []) if hasattr(s, "agg") and isinstance(getattr(s, "agg", None), dict)]
            if not any(s.agg.get("adt", "").endswith("Value") and s.agg.get("variant") == "Object" for s in through): why.append("entry value is not Value::Object")
        # key operand: the element
        ko = sl.origins(se[0].args[1])
        if not any(k == "call" and o.callee.name == "next" for k, o in ko): why.append("entry key is not the iterated element")
        # nothing mutates the object map before use
        ins = [t for t in ser.calls("=insert") if "serde_json" in t.callee.path]
        if ins: why.append("the value object is filled before use")
    if why is not None: cx.check(not why, rule, "varlink:StringHashSet:serialize-shape", ser.sp, "; ".join(why), note_ok="map{len} of element -> {} ; end")
    de = cx.mir.one("varlink", "<impl _::_serde::Deserialize<'de> for StringHashSet>::deserialize", exact=False) if False else None
    cands = [b for b in cx.mir.bodies("varlink") if b.promoted is None and b.path.endswith("::deserialize") and "StringHashSet" in (b.impl_self or b.path)]
    if len(cands) != 1: raise AnchorMissing("StringHashSet::deserialize: %d candidates" % len(cands))
    de = cands[0]; cx.saw(de)
    dm = [t for t in de.calls() if not t.callee.indirect and t.callee.name.startswith("deserialize_")]
    cx.check([t.callee.name for t in dm] == ["deserialize_map"], rule, "varlink:StringHashSet:deserialize-kind", de.sp,
             "deserialize does not ask for a map (%s): serialised form and accepted form differ" % [t.callee.name for t in dm], note_ok="deserialize_map")
    # the keys are read as String: std's impl accepts every form a deserializer can hand a string in (borrowed, transient, owned)
    for b in [b for b in cx.mir.bodies("varlink") if b.promoted is None and b.path.endswith("::visit_map") and not (b.mac and "derive" in b.mac)]:
        for i, t in enumerate([t for t in b.calls() if t.callee.name.startswith("next_key") or t.callee.name == "next_entry"]):
            ty = b.ty(t.dest.l).replace("std::string::", "").replace("alloc::string::", "")
            cx.check("Option<String>" in ty.replace(" ", "") or "Option<(String," in ty.replace(" ", ""), rule, "varlink:StringHashSet:visit_map:key-type#%d" % i, "%s %s" % (t.sp, b.path),
                     "set elements are read as `%s`, not as String: a hand-written key type accepts only some of the ways a deserializer presents a string (escaped keys arrive through visit_str, Value keys through visit_string), so text, bytes and Value disagree" % ty[:80],
                     note_ok="keys read as String")
    # hand-written visitors: the owned/borrowed string callbacks default to visit_str, never the other way round
    groups = {}
    for path, rec in cx.ast.files.items():
        if not path.endswith(".rs") or "/tests/" in path: continue
        for f in rec["_fns"]:
            if "Visitor" in (f.trait or "") and f.name.startswith("visit_"): groups.setdefault((path, f.self_ty, f.line // 100000), []).append(f)
    for (path, st, _), fs in sorted(groups.items()):
        names = {f.name for f in fs}
        strs = names & {"visit_string", "visit_borrowed_str"}
        bys = names & {"visit_byte_buf", "visit_borrowed_bytes"}
        cx.check(not (strs and "visit_str" not in names) and not (bys and "visit_bytes" not in names), rule, "%s:%s:visitor-string-callbacks" % (path, st.replace(" ", "")), "%s:%d" % (path, fs[0].line),
                 "Visitor for %s implements %s but not the transient form (visit_str/visit_bytes): serde forwards owned and borrowed strings to the transient callback, not the reverse, so input that arrives transiently (escaped JSON strings) is rejected" % (st, sorted(strs | bys)),
                 note_ok="callbacks %s" % sorted(names))
    # the visitor inserts every key it read
    vm = [b for b in cx.mir.bodies("varlink") if b.promoted is None and b.path.endswith("::visit_map") and not (b.mac and "derive" in b.mac)]
    for b in vm:
        cfg = Cfg(b); du2 = DefUse(b); sl2 = Slice(b, du2)
        ins = b.calls("=insert"); K = [t for t in b.calls() if t.callee.name.startswith("next_key")]
        good = len(ins) == 1 and bool(K) and any(k == "call" and o in K for k, o in sl2.origins(ins[0].args[1])) and ins[0].bb in cfg.reach(ins[0].target)
        cx.check(good, rule, "varlink:StringHashSet:visit_map-inserts-keys", b.sp, "visit_map does not insert each key it reads into the set", note_ok="values.insert(key) in the key loop")
