"""C14 — the worker pool respects its bound and never strands an accepted connection."""
from vlib.cfg import Cfg, DefUse, Slice, ref_chain
from vlib.cond import switch_cond, bool_edges, dominating_edges
from vlib.facts import AnchorMissing

EXEC = "server::ThreadPool::execute"
WORKER = "server::Worker::new::{closure#0}"


def chain_fields(body, du, local):
    """field names met on the ref/copy chain of `local`"""
    out = []
    for l in ref_chain(du, local):
        for k, d in du.defs.get(l, []):
            if k == "stmt" and d.kind == "assign":
                if d.rplace is not None: out += d.rplace.fields()
                for o in d.ops:
                    if o.place is not None: out += o.place.fields()
    return out


def lin(body, du, op, depth=0):
    """evaluate an integer operand to (symbol, offset): symbol in len/max/busy/None(pure constant)/'?'"""
    if op.is_const:
        return (None, op.cint() if op.cint() is not None else 0)
    p = op.place
    if depth > 12: return ("?", 0)
    f = p.fields()
    if "max_workers" in f: return ("max", 0)
    ds = du.defs.get(p.l, [])
    if len(ds) != 1: return ("?", 0)
    k, d = ds[0]
    if k == "call":
        n = d.callee.name
        if n == "len" and d.args and "workers" in chain_fields(body, du, d.args[0].place.l): return ("len", 0)
        if n == "num_busy": return ("busy", 0)
        if n in ("load",): return ("busy", 0)
        return ("?", 0)
    if k != "stmt" or d.kind != "assign": return ("?", 0)
    if d.rv in ("use", "cast"):
        o = d.ops[0]
        if o.place is not None and "*" in o.place.p:
            # a read through a lock guard of the busy counter
            for k2, o2 in Slice(body, du).origins(o.place):
                if k2 == "call" and o2.callee.name in ("write", "read", "lock") and ("RwLock" in o2.callee.path or "Mutex" in o2.callee.path): return ("busy", 0)
        return lin(body, du, o, depth + 1)
    if d.rv == "bin" and d.op in ("Add", "AddWithOverflow", "AddUnchecked", "Sub", "SubWithOverflow", "SubUnchecked"):
        a = lin(body, du, d.ops[0], depth + 1); b = lin(body, du, d.ops[1], depth + 1)
        sign = -1 if d.op.startswith("Sub") else 1
        if b[0] is None: return (a[0], a[1] + sign * b[1])
        if a[0] is None and sign == 1: return (b[0], a[1] + b[1])
        return ("?", 0)
    # read through a lock guard: *guard where guard comes from read()/write()/lock() on the busy counter
    return ("?", 0)


def cmp_norm(op, a, b, taken_true):
    """normalise `a op b` (a=(sa,ca), b=(sb,cb)) holding on the taken edge to  sa - sb <= k  or  sa - sb >= k.
    returns (sa, sb, 'le'|'ge', k) or None"""
    neg = {"Lt": "Ge", "Le": "Gt", "Gt": "Le", "Ge": "Lt", "Eq": "Ne", "Ne": "Eq"}
    if not taken_true: op = neg.get(op, op)
    (sa, ca), (sb, cb) = a, b
    d = cb - ca      # sa + ca  op  sb + cb   <=>   sa - sb  op  d
    if op == "Lt": return (sa, sb, "le", d - 1)
    if op == "Le": return (sa, sb, "le", d)
    if op == "Gt": return (sa, sb, "ge", d + 1)
    if op == "Ge": return (sa, sb, "ge", d)
    return None


def facts_on_edges(body, cfg, du, node):
    """normalised comparisons that hold on every path to `node`"""
    out = []
    for (src, lab, dst) in dominating_edges(cfg, node):
        term = body.blocks[src].term
        c = switch_cond(body, du, term)
        if c.kind != "bin": continue
        te, fe = bool_edges(term, c)
        taken_true = (lab, dst) == (te[1], te[2])
        n = cmp_norm(c.op, lin(body, du, c.a), lin(body, du, c.b), taken_true)
        if n: out.append((n, term))
    return out


def counter_ops(body, du):
    """(kind, stmt) for +1/-1 on a usize behind a lock guard / atomic"""
    out = []
    sl = Slice(body, du)
    for s in body.stmts():
        if s.kind != "assign" or s.rv != "bin" or s.op not in ("AddWithOverflow", "Add", "SubWithOverflow", "Sub", "AddUnchecked", "SubUnchecked"): continue
        a, b = s.ops
        if not (b.is_const and b.cint() == 1 and a.place is not None and "*" in a.place.p): continue
        guard = False
        for k, o in sl.origins(a.place):
            if k == "call" and o.callee.name in ("write", "lock") and ("RwLock" in o.callee.path or "Mutex" in o.callee.path): guard = True
        if guard: out.append(("inc" if s.op.startswith("Add") else "dec", s))
    for t in body.calls("=fetch_add", "=fetch_sub"):
        out.append(("inc" if t.callee.name == "fetch_add" else "dec", t))
    return out


def growth_rule(cx, rule):
    """the growth decision of ThreadPool::execute (shared by C14.R3 and C13.R7)"""
    ex = cx.mir.one("varlink", EXEC)
    cx.saw(ex)
    cfg = Cfg(ex); du = DefUse(ex)
    sends = [t for t in ex.calls("=send") if "mpsc" in t.callee.path or "Sender" in t.callee.path]
    if len(sends) != 1: raise AnchorMissing("execute(): expected one Sender::send, found %d" % len(sends))
    send = sends[0]
    ops = counter_ops(ex, du)
    incs = [s for k, s in ops if k == "inc"]
    site = "%s %s" % (send.sp, ex.path)
    inc_ok = len(incs) == 1 and cfg.dominates(incs[0].bb, send.bb) and send.bb not in cfg.reach(0, blocked_nodes={incs[0].bb})
    cx.check(inc_ok, rule, "varlink:execute:count-before-send", site,
             "execute() does not count the job before sending it (%d increments of the busy counter dominate Sender::send): a job that a worker has dequeued but not yet counted is invisible to the growth test, so a connection can be left queued although workers < max" % len([s for s in incs if cfg.dominates(s.bb, send.bb)]),
             note_ok="busy counter incremented before the job becomes visible")
    pushes = [t for t in ex.calls("=push") if "workers" in chain_fields(ex, du, t.args[0].place.l)]
    if not pushes: raise AnchorMissing("execute(): no workers.push")
    facts = facts_on_edges(ex, cfg, du, pushes[0].bb)
    growth = [(n, term) for n, term in facts if {n[0], n[1]} == {"busy", "len"}]
    okg = False; why = "no comparison between the busy counter and workers.len() dominates the growth"
    if growth:
        n, term = growth[0]
        # normalise to busy - len >= c
        if n[0] == "busy" and n[2] == "ge": c = n[3]
        elif n[0] == "len" and n[2] == "le": c = -n[3]
        else: c = None
        # the counter read must come after the increment
        reads = [t for t in ex.calls("=num_busy", "=load")]
        # (a value read through the guard that performs the increment is trivially read after it)
        after = bool(incs) and all(cfg.dominates(incs[0].bb, r.bb) for r in reads)
        okg = c is not None and c <= 1 and after
        why = "growth test is busy - len >= %s (needs <= 1 so that jobs > workers always grows); counter read after the increment: %s" % (c, after)
    cx.check(okg, rule, "varlink:execute:growth-test", "%s %s" % (pushes[0].sp, ex.path), why, note_ok=why)
    # other conditions on the growth path: only comparisons over busy/len/max may dominate the push
    extra = []
    for (src, lab, dst) in dominating_edges(cfg, pushes[0].bb):
        term = ex.blocks[src].term
        c = switch_cond(ex, du, term)
        if c.kind == "const": continue
        if c.kind == "bin":
            syms = {lin(ex, du, c.a)[0], lin(ex, du, c.b)[0]}
            if syms <= {"busy", "len", "max", None}: continue
        extra.append("%s@%s" % (c.kind, term.sp))
    cx.check(not extra, rule, "varlink:execute:no-extra-growth-condition", "%s %s" % (pushes[0].sp, ex.path),
             "the growth of the pool additionally depends on %s: connections can be stranded when that condition is false" % extra,
             note_ok="growth depends only on busy/len/max")
    return incs


def run(cx):
    cx.rule("C14.R1", "bound: every growth of the worker vector outside the constructor is dominated by a comparison that implies workers.len() < max_workers")
    cx.rule("C14.R2", "who spawns: Worker::new is called only by ThreadPool::new/execute and thread::spawn in server.rs only by Worker::new")
    cx.rule("C14.R3", "growth decision sees enqueued work: execute() counts the job before Sender::send makes it visible, reads that counter afterwards, and grows whenever jobs > workers (busy - len >= c with c <= 1) and len < max")
    cx.rule("C14.R4", "counter pairing: one increment per job (producer side, none in the worker) and one decrement on every normal path from the job's return to the next dequeue")
    ex = cx.mir.one("varlink", EXEC)
    from .roles import job_calls, pool_worker
    wk = pool_worker(cx)
    cx.saw(ex); cx.saw(wk)
    cfg = Cfg(ex); du = DefUse(ex)
    # ---- R1
    npush = 0
    for body in cx.mir.bodies("varlink"):
        if body.promoted is not None or "server.rs" not in body.sp: continue
        bdu = None
        for t in body.calls("=push", "=insert", "=extend", "=resize_with", "=append"):
            if "Vec" not in t.callee.path: continue
            bdu = bdu or DefUse(body)
            if "workers" not in chain_fields(body, bdu, t.args[0].place.l) and "Worker" not in body.ty(t.args[0].place.l): continue
            if body.path == "server::ThreadPool::new":
                cx.note("C14.R1", "varlink:%s:initial-workers" % body.path, "%s %s" % (t.sp, body.path), "constructor loop, bounded by initial_worker (not compared with max: the statement leaves a contradictory configuration undefined)")
                continue
            npush += 1
            bcfg = Cfg(body)
            facts = facts_on_edges(body, bcfg, bdu, t.bb)
            best = [n for n, _ in facts if n[0] == "len" and n[1] == "max" and n[2] == "le"] + \
                   [("len", "max", "le", -n[3]) for n, _ in facts if n[0] == "max" and n[1] == "len" and n[2] == "ge"]
            k = min([n[3] for n in best], default=None)
            # the comparison is about the length it read: a push that can run again without passing the comparison again is not covered by it
            guards = {term.bb for n, term in facts if (n[0] == "len" and n[1] == "max") or (n[0] == "max" and n[1] == "len")}
            if k is not None and t.target is not None and t.bb in bcfg.reach(t.target, blocked_nodes=guards):
                cx.bad("C14.R1", "varlink:%s:push-bounded" % body.path, "%s %s" % (t.sp, body.path),
                       "workers.push sits in a loop that does not re-test len < max before each push: the comparison covers the first push only, the pool can grow beyond max_worker_threads")
                continue
            cx.check(k is not None and k <= -1, "C14.R1", "varlink:%s:push-bounded" % body.path, "%s %s" % (t.sp, body.path),
                     "workers.push is guarded by len - max <= %s (needs <= -1, i.e. len < max): the pool can grow beyond max_worker_threads" % (k,),
                     note_ok="guard implies len - max <= %s" % k, witness={"facts": [str(n) for n, _ in facts]})
    cx.floor("C14.R1", "growth sites of the worker vector", npush, 1)
    # ---- R2
    nspawn = 0
    for body in cx.mir.bodies("varlink"):
        if body.promoted is not None: continue
        for t in body.calls("server::Worker::new"):
            if t.callee.name != "new": continue
            nspawn += 1
            owner = body.path
            while owner not in ("server::ThreadPool::new", EXEC) and any(x.path == owner and x.parent for x in body.unit.bodies if x.promoted is None):
                owner = [x.parent for x in body.unit.bodies if x.promoted is None and x.path == owner][0]       # a closure inside new()/execute()
            cx.check(owner in ("server::ThreadPool::new", EXEC), "C14.R2", "varlink:%s:calls-Worker::new" % body.path, "%s %s" % (t.sp, body.path),
                     "a worker is spawned outside ThreadPool::new/execute: the bound check in execute() does not cover it", note_ok="allowed spawner")
        if "server.rs" in body.sp:
            for t in body.calls("std::thread::spawn", "thread::Builder"):
                nspawn += 1
                cx.check(body.path == "server::Worker::new", "C14.R2", "varlink:%s:thread-spawn" % body.path, "%s %s" % (t.sp, body.path),
                         "server.rs spawns a thread outside Worker::new", note_ok="the worker thread")
    cx.floor("C14.R2", "spawn sites", nspawn, 3)
    # ---- R3
    incs = growth_rule(cx, "C14.R3")
    # ---- R4
    wcfg = Cfg(wk, unwind=False); wdu = DefUse(wk)
    wops = counter_ops(wk, wdu)
    winc = [s for k, s in wops if k == "inc"]; wdec = [s for k, s in wops if k == "dec"]
    jobs = job_calls(wk)
    recvs = wk.calls("=recv")
    if not jobs or not recvs: raise AnchorMissing("worker loop: job call or recv not found")
    total_inc = len(incs) + len(winc)
    cx.check(total_inc == 1, "C14.R4", "varlink:pool:one-increment-per-job", "%s %s" % (jobs[0].sp, wk.path),
             "%d increments of the busy counter per job (producer %d + worker %d): the counter drifts" % (total_inc, len(incs), len(winc)),
             note_ok="exactly one increment per job")
    decb = {s.bb for s in wdec}
    okd = len(wdec) == 1 and wcfg.must_pass(jobs[0].target, [recvs[0].bb] + wcfg.returns(), decb) and not any(s.bb in wcfg.reach(0, blocked_nodes={jobs[0].bb}) for s in wdec)
    cx.check(okd, "C14.R4", "varlink:worker:decrement-after-job", "%s %s" % (jobs[0].sp, wk.path),
             "the busy counter is not decremented exactly once on every path from the job's return to the next dequeue",
             note_ok="one decrement between job return and next recv; none without a job")
    # no lock is held while a job runs (a guard kept across the job serialises all workers: accepted connections wait although idle workers exist)
    held = []
    for L in wk.calls("=lock", "=write", "=read"):
        if not ("Mutex" in L.callee.path or "RwLock" in L.callee.path): continue
        if L.bb not in wcfg.reach(0, blocked_nodes={jobs[0].bb}): continue      # acquired after the job
        g = set()
        for t in wk.calls("=unwrap", "=expect"):
            if any(k == "call" and o is L for k, o in Slice(wk, wdu).origins(t.args[0])): g.add(t.dest.l)
        g.add(L.dest.l)
        from vlib.cfg import release_blocks
        drops = release_blocks(wk, wdu, g)
        if not wcfg.must_pass(L.target, [jobs[0].bb], drops): held.append(L)
    cx.check(not held, "C14.R4", "varlink:worker:no-lock-across-job", "%s %s" % (jobs[0].sp, wk.path),
             "the guard acquired at %s is still alive when the job runs: every other worker blocks on that lock for the whole lifetime of the connection" % [t.sp for t in held],
             note_ok="every guard taken before the job is dropped before the job starts")
    cx.note("C14.R4", "varlink:worker:unwind-skips-decrement", "%s %s" % (jobs[0].sp, wk.path),
            "a panicking job unwinds past the decrement (busy count leaks; the worker thread dies) — recorded, relevant to C06/C15, not a C14 violation")
    # no lock held while waiting for / running a job is C13.R3
