"""C20 — `varlink call` reports exactly what the service replied."""
from vlib.cfg import Cfg, DefUse, Slice, ref_chain, NO_INDEX_PASS, const_strings
from vlib.cond import switch_cond, bool_edges, variant_edge
from vlib.facts import AnchorMissing
from vlib import absval

PKG = "varlink-cli"
LAST = ("rfind", "rsplit_once", "rsplitn", "rsplit")
FIRST = ("find", "split_once", "splitn", "split")


def try_edges(body, du, sl, call):
    """(continue_edge, break_edge) of the `?` applied (possibly after map_err) to the result of `call`"""
    for t in body.calls("=branch"):
        if any(k == "call" and o is call for k, o in sl.origins(t.args[0])):
            sw = body.blocks[t.target].term
            if sw.kind == "switch": return variant_edge(sw, 0), variant_edge(sw, 1)
    return None, None


def run(cx):
    cx.rule("C20.R1", "error discipline: every reply obtained by varlink_call (the single call, every item of the --more iteration) is handed to print_call_ret unconditionally and its error leaves varlink_call through `?`; print_call_ret prints only on the Ok path; main exits with status 1 exactly on the Err edge of do_main")
    cx.rule("C20.R2", "address/method split at the last slash: a last-occurrence search for '/', address = url[..n], method = url[n+1..] handed unchanged to MethodCall::new; between the split and the connect only the `method has no dot` test may reject")
    cx.rule("C20.R3", "the printed value is the reply: the JSON printed on stdout is the Ok payload of the call, unmodified; the error arms name the four standard errors and a custom error with and without parameters")
    cx.rule("C20.R4", "what the tool prints is what the service sent (library side the CLI relies on): a reply is read as one NUL-terminated frame however it is segmented, and only the four errors whose FULL name is org.varlink.service.<X> are printed in the short standard form (shared with C07.R6)")
    from . import client_common as cc
    cc.check_recv_framing(cx, "C20.R4", "varlink")
    # `call --more` ends with the reply that ends the call: the iterator protocol of recv()/next() (shared with C05.R2 / C07.R3)
    cc.check_recv_protocol(cx, "C20.R4", "varlink")
    cc.check_next(cx, "C20.R4", "varlink")
    from .C07 import _name_tests, STD_ERRORS
    fr = cx.mir.one("varlink", "<impl std::convert::From<Reply> for error::ErrorKind>::from")
    tests, fuzzy, _ = _name_tests(fr, Cfg(fr), DefUse(fr))
    cx.check(sorted(tests) == sorted(STD_ERRORS) and not fuzzy, "C20.R4", "varlink:From<Reply>:exact-names", fr.sp,
             "reply errors are classified by %s%s, not by equality with the four full names: an error of another interface whose last component is e.g. InvalidParameter is printed in the short form, its name truncated and its parameters dropped" % (sorted(tests), " / " + str(sorted({t.callee.name for t in fuzzy})) if fuzzy else ""),
             note_ok="four equality tests against full literal names")
    vc = cx.mir.one(PKG, "varlink_call")
    pr = cx.mir.one(PKG, "print_call_ret")
    cx.saw(vc); cx.saw(pr)
    r1(cx, vc, pr); r2(cx, vc); r3(cx, pr)


def r1(cx, vc, pr):
    cfg = Cfg(vc); du = DefUse(vc); sl = Slice(vc, du)
    okret = [s.bb for s in vc.stmts() if s.kind == "assign" and s.lhs.l == 0 and not s.lhs.p and s.rv == "agg" and isinstance(s.agg, dict) and s.agg.get("variant") == "Ok"]
    prints = [t for t in vc.calls("=print_call_ret")]
    cx.floor("C20.R1", "print_call_ret call sites in varlink_call", len(prints), 2)
    # the single call
    calls = [t for t in vc.calls("=call") if "MethodCall" in t.callee.path and vc.ty(t.dest.l).startswith("std::result::Result<serde_json::Value")]
    for i, t in enumerate(calls):
        fed = [p for p in prints if any(k == "call" and o is t for k, o in sl.origins(p.args[2]))]
        good = len(fed) == 1 and cfg.must_pass(t.target, okret, {fed[0].bb})
        cx.check(good, "C20.R1", "%s:varlink_call:call#%d:result-is-reported" % (PKG, i), "%s varlink_call" % t.sp,
                 "the result of the call can reach the successful return without going through print_call_ret", note_ok="call() -> print_call_ret(..)?")
    cx.floor("C20.R1", "single-call sites", len(calls), 1)
    # the --more iteration
    nexts = [t for t in vc.calls("=next") if t.bb in cfg.reach(t.target)]
    nm = 0
    for i, t in enumerate(nexts):
        sw = None
        for b in sorted(cfg.reach(t.target)):
            term = vc.blocks[b].term
            if term.kind == "switch":
                c = switch_cond(vc, du, term)
                if c.kind == "discr" and c.place.l == t.dest.l: sw = term; break
        if sw is None: continue
        some = variant_edge(sw, 1)
        fed = [p for p in prints if p.bb in cfg.after(some) and any(k == "call" and o is t for k, o in sl.origins(p.args[2]))]
        if not fed: continue
        nm += 1
        good = cfg.must_pass(some[2], [t.bb] + okret, {fed[0].bb})
        cx.check(good, "C20.R1", "%s:varlink_call:more-loop#%d:every-item-is-reported" % (PKG, i), "%s varlink_call" % t.sp,
                 "an item of the --more iteration (a reply or an error such as a closed connection) can be skipped: the loop goes on or ends with status 0 without printing/propagating it",
                 note_ok="Some(ret) -> print_call_ret(ret)? on every path")
    cx.floor("C20.R1", "--more loops", nm, 1)
    # each print_call_ret result goes through `?`: its Err leaves the function, never the successful return
    for i, p in enumerate(prints):
        # whatever the spelling (`?`, a tail expression, `try_for_each`): once print_call_ret has returned Err, every return that
        # can follow returns Err and the iteration is not resumed
        rets, reached = absval.outcome_after(cfg, du, p, 1)
        good = rets is not None and bool(rets) and all(v is not None and v[0] == "var" and v[1] == 1 for v in rets) and not any(n.bb in reached for n in nexts)
        cx.check(good, "C20.R1", "%s:varlink_call:print_call_ret#%d:error-propagates" % (PKG, i), "%s varlink_call" % p.sp,
                 "an error reported by print_call_ret does not end varlink_call with Err (exit status would be 0 although a reply was an error)", note_ok="`?`: Err -> return Err")
    # print_call_ret: print only on the Ok path of ret
    pcfg = Cfg(pr); pdu = DefUse(pr); psl = Slice(pr, pdu)
    pp = [t for t in pr.calls("=_print")]
    good = bool(pp) and pr.argc >= 3 and pr.ty(3).startswith("std::result::Result<")
    if good:
        # decided on the value of `ret` (parameter 3), whatever tests it (`?`, match, map_err + `?`):
        #   ret = Err: nothing is printed and every return is Err;  ret = Ok: no successful return without the print
        rets_of = lambda states: [absval.step_block(pr, st, b).get(0) for b, sts in states.items() if not pr.blocks[b].cleanup and pr.blocks[b].term.kind == "return" for st in sts]
        on_err = absval.sens_states(pcfg, pdu, [(0, {3: ("var", 1, None)})])
        on_ok = absval.sens_states(pcfg, pdu, [(0, {3: ("var", 0, None)})], blocked_nodes={t.bb for t in pp})
        good = on_err is not None and on_ok is not None
        if good:
            er = rets_of(on_err)
            good = (not any(t.bb in on_err for t in pp) and bool(er) and all(v is not None and v[0] == "var" and v[1] == 1 for v in er)
                    and all(v is not None and v[0] == "var" and v[1] == 1 for v in rets_of(on_ok)))    # e.g. the JSON rendering failed
    cx.check(good, "C20.R1", "%s:print_call_ret:prints-iff-ok" % PKG, pr.sp, "print_call_ret does not print exactly on the Ok path of the reply (or returns Ok for an error reply)", note_ok="ret? ; println!(json(reply)) ; Ok(())")
    # main: exit(1) exactly on Err
    mains = [b for b in cx.mir.bodies(PKG) if b.promoted is None and b.path == "main"]
    if len(mains) != 1: raise AnchorMissing("varlink-cli main")
    m = mains[0]; cx.saw(m)
    mcfg = Cfg(m); mdu = DefUse(m); msl = Slice(m, mdu)
    dm = m.calls("=do_main"); ex = [t for t in m.calls("=exit") if "process" in t.callee.path]
    good = len(dm) == 1 and len(ex) == 1 and ex[0].args[0].is_const and ex[0].args[0].cint() == 1
    if good:
        good = False
        for b in m.blocks:
            if b.cleanup or b.term.kind != "switch": continue
            c = switch_cond(m, mdu, b.term)
            if c.kind == "discr" and any(k == "call" and o is dm[0] for k, o in msl.origins(c.place)):
                err = variant_edge(b.term, 1); ok = variant_edge(b.term, 0)
                good = mcfg.edge_dominates(err, ex[0].bb) and ex[0].bb not in mcfg.after(ok) and mcfg.must_pass(err[2], mcfg.returns(), {ex[0].bb})
    cx.check(good, "C20.R1", "%s:main:exit-status" % PKG, m.sp, "main does not call process::exit(1) exactly when do_main returned Err", note_ok="Err -> exit(1); Ok -> status 0")
    dmb = cx.mir.one(PKG, "do_main")
    dcfg = Cfg(dmb); ddu = DefUse(dmb); dsl = Slice(dmb, ddu)
    vcalls = [t for t in dmb.calls("=varlink_call")]
    ok2 = len(vcalls) == 1
    if ok2:
        rets, _ = absval.outcome_after(dcfg, ddu, vcalls[0], 1)
        ok2 = rets is not None and bool(rets) and all(v is not None and v[0] == "var" and v[1] == 1 for v in rets)
    cx.check(ok2, "C20.R1", "%s:do_main:call-error-propagates" % PKG, dmb.sp, "do_main swallows the error of varlink_call", note_ok="varlink_call(..)?")


def r2(cx, vc):
    cfg = Cfg(vc); du = DefUse(vc); sl = Slice(vc, du, pass_through=NO_INDEX_PASS)
    srch = [t for t in vc.calls() if not t.callee.indirect and t.callee.name in LAST + FIRST and any(a.is_const and (a.cint() == 47 or a.cstr() == "/") for a in t.args)]
    cx.check(len(srch) == 1 and srch[0].callee.name in LAST, "C20.R2", "%s:varlink_call:last-slash-search" % PKG, "%s varlink_call" % (srch[0].sp if srch else vc.sp),
             "the address/method separator is searched with %s: unix paths contain slashes, the split must be at the LAST one" % [t.callee.name for t in srch], note_ok="%s('/')" % (srch[0].callee.name if srch else "?"))
    if len(srch) != 1: return
    S = srch[0]
    # Some edge
    some = None
    for b in sorted(cfg.reach(S.target)):
        term = vc.blocks[b].term
        if term.kind == "switch":
            c = switch_cond(vc, du, term)
            if c.kind == "discr" and c.place.l == S.dest.l: some = variant_edge(term, 1); break
    wa = [t for t in vc.calls("=with_address")]
    mn = [t for t in vc.calls("=new") if "MethodCall" in t.callee.path]
    if some is None or len(wa) != 1 or len(mn) != 1: raise AnchorMissing("varlink_call: split/connect/MethodCall::new")
    # address = url[..n] (Range 0..n or RangeTo), method = url[n+1..]
    def slice_of(op):
        idx = [o for k, o in sl.origins(op) if k == "call" and o.callee.name == "index"]
        out = []
        for ix in idx:
            ro = sl.origins(ix.args[1], follow_agg=True)
            kinds = {s.agg.get("adt", "").split("::")[-1] for s in getattr(sl, "last_through", []) if hasattr(s, "agg") and isinstance(getattr(s, "agg", None), dict)}
            from_s = any(k == "call" and o is S for k, o in ro)
            plus1 = any(k == "bin" and o.op.startswith("Add") and any(x.is_const and x.cint() == 1 for x in o.ops) for k, o in ro)
            if not from_s:
                # n + 1: follow the addition's operand
                for k, o in ro:
                    if k == "bin":
                        for x in o.ops:
                            if x.place is not None and any(kk == "call" and oo is S for kk, oo in sl.origins(x)): from_s = True
            out.append((kinds, from_s, plus1, ix))
        return out
    a = slice_of(wa[0].args[0])
    oka = any(("Range" in ks or "RangeTo" in ks) and fs and not p1 and ix.bb in cfg.after(some) for ks, fs, p1, ix in a)
    def pair_element(op):
        """which element of the pair returned by `rsplit_once('/')` the operand is (0 = before the slash, 1 = behind it), or None"""
        if S.callee.name != "rsplit_once": return None
        ks = Slice(vc, du, extra_pass=("=to_string", "=to_owned", "=from", "=into", "=as_ref", "=as_str", "=deref", "=borrow"))
        orig = [(k, o) for k, o in ks.origins(op) if not (k == "arg")]
        if not orig or not any(k == "call" and o is S for k, o in orig): return None
        els = {pr[-1] for (l, pr) in ks.last_seen if l == S.dest.l and pr and any(e.startswith("as Some") for e in pr) and pr[-1] in (".0", ".1") and len([e for e in pr if e.startswith(".")]) >= 2}
        return int(els.pop()[1:]) if len(els) == 1 else None
    if not oka and pair_element(wa[0].args[0]) == 0: oka = True
    cx.check(oka, "C20.R2", "%s:varlink_call:address-is-prefix" % PKG, "%s varlink_call" % wa[0].sp, "the address handed to Connection::with_address is not url[..n] with n the position of the last slash (%s)" % [(sorted(k), f, p) for k, f, p, _ in a],
             note_ok="address = url[0..n]")
    msl = Slice(vc, du, pass_through=NO_INDEX_PASS + ("=from",))
    m = []
    for o in [x for k, x in msl.origins(mn[0].args[1]) if k == "call" and x.callee.name == "index"]:
        ro = sl.origins(o.args[1], follow_agg=True)
        kinds = {s.agg.get("adt", "").split("::")[-1] for s in getattr(sl, "last_through", []) if hasattr(s, "agg") and isinstance(getattr(s, "agg", None), dict)}
        p1 = [x for k, x in ro if k == "bin" and x.op.startswith("Add") and any(y.is_const and y.cint() == 1 for y in x.ops)]
        fs = any(y.place is not None and any(kk == "call" and oo is S for kk, oo in sl.origins(y)) for x in p1 for y in x.ops)
        m.append((kinds, bool(p1), fs))
    okm = any("RangeFrom" in ks and p1 and fs for ks, p1, fs in m)
    if not okm and pair_element(mn[0].args[1]) == 1: okm = True
    cx.check(okm, "C20.R2", "%s:varlink_call:method-is-suffix" % PKG, "%s varlink_call" % mn[0].sp, "the method name is not url[n+1..] behind the last slash (%s)" % [(sorted(k), p, f) for k, p, f in m], note_ok="method = url[n+1..]")
    # only the no-dot test may reject between split and connect
    # every place an Err is built (the function's own result or, in the view, the result slot of an inlined helper)
    errs = [s.bb for s in vc.stmts() if s.kind == "assign" and not s.lhs.p and s.rv == "agg" and isinstance(s.agg, dict) and s.agg.get("variant") == "Err" and "Result" in s.agg.get("adt", "")]
    region = cfg.after(some, blocked_nodes={wa[0].bb})
    rej = [e for e in errs if e in region]
    dot_edges = []
    for b in vc.blocks:
        if b.cleanup or b.term.kind != "switch" or b.idx not in region: continue
        c = switch_cond(vc, du, b.term)
        if c.kind == "call" and c.term.callee.name in ("is_none", "is_some"):
            o = [x for k, x in Slice(vc, du).origins(c.term.args[0]) if k == "call" and x.callee.name in ("find", "rfind", "contains") and any(y.is_const and y.cint() == 46 for y in x.args)]
            if o:
                te, fe = bool_edges(b.term, c)
                dot_edges.append(te if c.term.callee.name == "is_none" else fe)
        elif c.kind == "call" and c.term.callee.name == "contains" and any(y.is_const and (y.cint() == 46 or y.cstr() == ".") for y in c.term.args):
            te, fe = bool_edges(b.term, c)
            dot_edges.append(fe)
    extra = [e for e in rej if not any(cfg.edge_dominates(d, e) for d in dot_edges)]
    if extra and dot_edges:
        # the error may be built at a point that other forms of the argument reach as well (one shared `Invalid address`): what counts
        # is whether it can be reached from the split without taking the no-dot edge
        free = cfg.after(some, blocked_nodes={wa[0].bb}, blocked_edges={tuple(d) for d in dot_edges})
        extra = [e for e in extra if e in free]
    cx.check(not extra and bool(dot_edges), "C20.R2", "%s:varlink_call:no-extra-rejection" % PKG, "%s varlink_call" % S.sp,
             "after the split the address can be rejected for a reason other than `method has no dot` (%d extra error exit(s) before connecting): some supported address form (unix path, unix:@abstract, tcp:) stops working" % len(extra),
             note_ok="the only rejection between split and connect is `method has no dot`")


def r3(cx, pr):
    cfg = Cfg(pr); du = DefUse(pr); sl = Slice(pr, du)
    pj = [t for t in pr.calls("=to_colored_json")]
    pp = [t for t in pr.calls("=_print")]
    good = False; why = "no to_colored_json feeding the print"
    for t in pj:
        o = sl.origins(t.args[1])
        if any(k == "arg" and v == 3 for k, v in o):
            mods = [str(x.callee)[:50] for k, x in o if k == "call"]
            good = not mods
            why = "the printed value is computed by %s instead of being the reply as received" % mods
    cx.check(good, "C20.R3", "%s:print_call_ret:prints-the-reply" % PKG, pr.sp, why, note_ok="println!(to_colored_json(&reply)) with reply = Ok payload of the call")
    clos = [b for b in cx.mir.bodies(PKG) if b.promoted is None and b.parent == pr.path]
    names = set(); withp = False
    for c in clos + [pr]:
        csl = Slice(c)
        ops = [a for t in c.calls() for a in t.args] + [o for st in c.stmts() if st.kind == "assign" and st.rv in ("agg", "use") for o in st.ops]
        for a in ops:
            for sname in const_strings(c, csl, a):
                if sname in ("InterfaceNotFound", "MethodNotFound", "MethodNotImplemented", "InvalidParameter"): names.add(sname)
        if c is not pr and c.calls("=to_colored_json"): withp = True
    # rendered by the function itself (helpers are part of its view): a to_colored_json that is not the one printing the reply
    if [t for t in pj if not any(k == "arg" and v == 3 for k, v in sl.origins(t.args[1]))]: withp = True
    cx.check(len(names) == 4 and withp, "C20.R3", "%s:print_call_ret:error-arms" % PKG, pr.sp,
             "the error rendering names %s (expected the four standard errors) and prints custom error parameters: %s" % (sorted(names), withp), note_ok="four standard errors + custom error with/without parameters")
    # kinds covered: agreement with the library's error table
    cx.notes.append("C20.R3: standard error names cross-checked with C07.R6's table")
