"""C19 — the certification service never lets a deviating step pass."""
import re
from vlib.cfg import Cfg, DefUse, Slice, ref_chain, forward_taint, const_strings
from vlib.cond import switch_cond, bool_edges, variant_edge
from vlib.facts import AnchorMissing

PKG = "varlink-certification"
STEPS = ["Start"] + ["Test%02d" % i for i in range(1, 12)] + ["End"]
MODE = {"Test10": "more", "Test11": "oneway"}
IFACE = "org.varlink.certification"


def flag_true_edges(body, cfg, du):
    """{flag: [(src,dst) edges taken when request.<flag> == Some(true)]}"""
    out = {"more": [], "oneway": [], "upgrade": []}
    for b in body.blocks:
        if b.cleanup or b.term.kind != "switch" or b.term.discr.place is None: continue
        p = b.term.discr.place
        f = p.fields()
        # `switch (*req).F as Some .0` : the bool payload
        if len(f) >= 2 and f[-2] in out and any(e.startswith("as Some") for e in p.p) and "Request" in body.ty(p.l):
            for lab, dst in cfg.succ[b.idx]:
                if lab != 0: out[f[-2]].append((b.idx, lab, dst))
    return out


def _const_some_true(body, sl, op):
    """is the operand a constant `Some(true)` (a promoted `&Some(true)` or a local built as such)?"""
    from vlib.facts import promoted_body
    def some_true(stmts):
        return any(st.kind == "assign" and st.rv == "agg" and isinstance(st.agg, dict) and "Option" in st.agg.get("adt", "") and st.agg.get("variant") == "Some"
                   and st.ops and st.ops[0].is_const and st.ops[0].cint() == 1 for st in stmts)
    for k, o in sl.origins(op):
        if k == "const":
            dbg = str((o.const or {}).get("dbg", "") or "")
            if "promoted[" in dbg:
                pb = promoted_body(body, dbg)
                if pb is not None and some_true(pb.stmts()): return True
        elif k == "agg" and some_true([o]): return True
    return False


def _reads_field(body, du, op, names):
    """name of the Request field (one of `names`) the operand reads / points to, else None"""
    if op.place is None: return None
    for f in op.place.fields():
        if f in names: return f
    for l in ref_chain(du, op.place.l):
        for k, d in du.value_defs(l):
            if k == "stmt" and d.kind == "assign":
                for q in ([d.rplace] if d.rplace is not None else []) + [o.place for o in d.ops if o.place is not None]:
                    for f in q.fields():
                        if f in names: return f
    return None


def flags_on_paths(body, cfg, du, sl, target_bb):
    """value-level form of the call-mode test (`let more = request.more == Some(true); ...`): for every feasible path from the
    entry to `target_bb`, what the branches taken say about each flag. Returns a list of {flag: True|False|None} (None = no
    branch on this path depends on the flag)."""
    from vlib.cfg import enumerate_paths
    from vlib.pathcond import literals
    flags = ("more", "oneway", "upgrade")
    out = []
    hit = [False]
    paths = enumerate_paths(cfg, 0, lambda blk: blk.idx == target_bb or blk.term.kind == "return", du=du, on_limit=lambda: hit.__setitem__(0, True))
    if hit[0]: return None
    for pth in paths:
        if pth[-1] != target_bb: continue
        st = {f: None for f in flags}
        for lit in literals(body, pth):
            if lit.kind != "call" or lit.obj.callee.name not in ("eq", "ne") or len(lit.obj.args) != 2: continue
            a, b = lit.obj.args
            for x, y in ((a, b), (b, a)):
                f = _reads_field(body, du, x, flags)
                if f and _const_some_true(body, sl, y):
                    st[f] = lit.truth == (lit.obj.callee.name == "eq")
        out.append(st)
    return out


def start_by_paths(body, cfg, du, sl, succ):
    """Start decided on the paths that reach the success reply, whatever shape the test has: every such path must have compared the
    method name with <IFACE>.Start and established that `parameters` is absent or an empty object. Returns the list of
    complaints ([] = fine), or None when the paths cannot be enumerated."""
    from vlib.cfg import enumerate_paths
    from vlib.pathcond import literals
    hit = [False]
    paths = enumerate_paths(cfg, 0, lambda blk: blk.idx in succ or blk.term.kind == "return", du=du, on_limit=lambda: hit.__setitem__(0, True))
    if hit[0]: return None
    def reads_params(a, need=()):
        """the operand is (a reference into) the request's `parameters` member; `need`: downcasts that must appear on the way"""
        if a.place is None: return False
        places = [a.place]; seen = set(); work = [a.place.l]
        while work and len(seen) < 24:
            l0 = work.pop()
            if l0 in seen: continue
            seen.add(l0)
            for l in ref_chain(du, l0):
                for k, d in du.value_defs(l):
                    if k == "stmt" and d.kind == "assign" and d.rv in ("use", "ref", "cast"):
                        qs = ([d.rplace] if d.rplace is not None else []) + [o.place for o in d.ops if o.place is not None]
                        places += qs
                        work += [q.l for q in qs]
        if not any("parameters" in q.fields() for q in places): return False
        return all(any(any(e.startswith(n) for e in q.p) for q in places) for n in need)
    def discr_taken(pth):
        """(place, label) of every discriminant switch along the path"""
        out = []
        for i in range(len(pth) - 1):
            t = body.blocks[pth[i]].term
            if t.kind != "switch" or t.discr is None or t.discr.place is None or t.discr.place.p: continue
            ds = du.value_defs(t.discr.place.l)
            if len(ds) == 1 and ds[0][0] == "stmt" and ds[0][1].rv == "discr" and ds[0][1].rplace is not None:
                labs = [lab for lab, d in cfg.succ[pth[i]] if d == pth[i + 1]]
                if labs: out.append((ds[0][1].rplace, labs[0]))
        return out
    n = 0; no_method = 0; no_params = 0
    for pth in paths:
        if pth[-1] not in succ: continue
        n += 1
        lits = literals(body, pth)
        m_ok = False; p_ok = False
        for lit in lits:
            if lit.kind != "call": continue
            t = lit.obj; nm = t.callee.name
            if nm in ("eq", "ne") and len(t.args) == 2 and lit.truth == (nm == "eq"):
                if (IFACE + ".Start") in const_strings(body, sl, t.args[0]) + const_strings(body, sl, t.args[1]): m_ok = True
                if any(reads_params(a) for a in t.args):
                    built = [x for x in body.stmts() if x.kind == "assign" and x.rv == "agg" and isinstance(x.agg, dict) and x.agg.get("variant") == "Object"]
                    newmap = [c for c in body.calls("=new") if "serde_json" in c.callee.path and "Map" in c.callee.path]
                    if built and newmap: p_ok = True
            if nm == "is_none" and lit.truth and "Option" in t.callee.path and t.args and reads_params(t.args[0]): p_ok = True
            if nm == "is_empty" and lit.truth and t.args and reads_params(t.args[0], need=("as Some", "as Object")): p_ok = True
        for place, lab in discr_taken(pth):
            q = place
            if tuple(q.p) == ("*",):
                # `match &request.parameters`: the discriminant is read through a reference to the member
                ds = du.value_defs(q.l)
                if len(ds) == 1 and ds[0][0] == "stmt" and ds[0][1].rv == "ref" and ds[0][1].rplace is not None: q = ds[0][1].rplace
            if q.fields()[-1:] == ["parameters"] and not any(e.startswith("as ") for e in q.p) and lab == 0: p_ok = True     # None
        if not m_ok: no_method += 1
        if not p_ok: no_params += 1
    out = []
    if n == 0: out.append("Start: no path reaches the success reply")
    if no_method: out.append("Start: %d of %d paths to the success reply have not compared the method name with %s.Start" % (no_method, n, IFACE))
    if no_params: out.append("Start: %d of %d paths to the success reply have not established `parameters` absent or an empty object" % (no_params, n))
    return out


def run(cx):
    cx.rule("C19.R1", "success is dominated by the checks: in each of the 13 step methods every success reply (for Test11: the silent Ok return) is reachable only through check_client_id()==true (all but Start) and the `check`==true edge, where check is false in every arm except the comparison `expected == received` of the step's own argument struct; the expected value never depends on a received parameter other than the client id")
    cx.rule("C19.R2", "step table: method testNN checks the client against (\"TestNN\", next step in declaration order), compares the method name with org.varlink.certification.TestNN, and accepts exactly its call mode (Test10: more, Test11: oneway, others: none of more/oneway/upgrade)")
    cx.rule("C19.R3", "atomic check-and-advance: CertInterface::check_client_id takes the write lock once and compares and advances the client's step under it; a new client starts at Test01")
    methods = {}
    for b in cx.mir.bodies(PKG):
        if b.promoted is None and (b.impl_self or "") == "CertInterface" and (b.impl_trait or "").endswith("VarlinkInterface"):
            methods[b.path.split("::")[-1]] = b
    want = {s.lower(): s for s in STEPS}
    cx.floor("C19.R1", "step methods of CertInterface", len([m for m in methods if m in want]), 13)
    for name in sorted(want):
        if name not in methods:
            cx.bad("C19.R1", "cert:%s:missing" % name, "-", "step method %s not found" % name); continue
        step(cx, want[name], methods[name])
    r3(cx)


def step(cx, S, body):
    cx.saw(body)
    cfg = Cfg(body); du = DefUse(body); sl = Slice(body, du)
    site = body.sp
    # ---- the success exits
    replies = [t for t in body.calls("=reply") if "Call_" in (t.callee.trait or t.callee.path)]
    if S == "Test11":
        succ = [s.bb for s in body.stmts() if s.kind == "assign" and s.lhs.l == 0 and not s.lhs.p and s.rv == "agg" and isinstance(s.agg, dict) and s.agg.get("variant") == "Ok"]
        what = "the silent Ok(()) of the oneway step"
    else:
        succ = [t.bb for t in replies]
        what = "the success reply"
    if not succ:
        cx.bad("C19.R1", "cert:%s:success-exit" % S, site, "no success exit found"); return
    # ---- check_client_id
    ci = [t for t in body.calls("=check_client_id")]
    if S != "Start":
        okc = False; lits = None
        if len(ci) == 1:
            for b in body.blocks:
                if b.cleanup or b.term.kind != "switch": continue
                c = switch_cond(body, du, b.term)
                if c.kind == "call" and c.term is ci[0]:
                    te, fe = bool_edges(b.term, c)
                    cerr = [t.bb for t in body.calls("=reply_client_id_error")]
                    okc = all(cfg.edge_dominates(te, x) for x in succ) and bool(cerr) and all(x in cfg.after(fe) for x in cerr) and not any(x in cfg.after(fe) for x in succ)
            def step_name(a):
                c = const_strings(body, sl, a)
                if c: return c
                # a step enum instead of a string: the variant name is the step
                out = []
                for k, o in sl.origins(a):
                    if k == "agg" and isinstance(o.agg, dict) and o.agg.get("variant"): out.append(o.agg["variant"])
                if not out and a.place is not None:
                    for l in ref_chain(du, a.place.l):
                        for k, d in du.value_defs(l):
                            if k == "stmt" and d.kind == "assign" and d.rv == "agg" and isinstance(d.agg, dict) and d.agg.get("variant"): out.append(d.agg["variant"])
                if not out and a.is_const:
                    v = str((a.const or {}).get("val", ""))
                    if "::" in v: out.append(v.split("::")[-1])
                return out
            lits = [step_name(a) for a in ci[0].args[2:4]]
        cx.check(okc, "C19.R1", "cert:%s:client-id-check-dominates" % S, site, "%s is reachable without check_client_id()==true (or the false edge does not answer ClientIdError)" % what, note_ok="check_client_id()==true dominates %s" % what)
        nxt = STEPS[STEPS.index(S) + 1] if S != "End" else "End"
        cx.check(lits == [[S], [nxt]], "C19.R2", "cert:%s:step-table" % S, site, "check_client_id is called with %s, expected (%r, %r)" % (lits, S, nxt), note_ok="(%s -> %s)" % (S, nxt))
    else:
        cx.check(not ci, "C19.R1", "cert:Start:no-client-id", site, "Start must not require a client id", note_ok="no client id needed")
    # ---- the `check` switch: the one whose false edge reaches reply_certification_error and whose true edge dominates success
    cerr = [t.bb for t in body.calls("=reply_certification_error")]
    chk = None; cands = []
    for b in body.blocks:
        if b.cleanup or b.term.kind != "switch": continue
        c = switch_cond(body, du, b.term)
        if c.kind in ("multi", "call", "const"):
            te, fe = bool_edges(b.term, c)
            if cerr and all(x in cfg.after(fe) for x in cerr) and all(cfg.edge_dominates(te, x) for x in succ) and not any(x in cfg.after(fe) for x in succ):
                cands.append((b.term, c, te, fe))
    # several gates may stand in a row (flags, method name, ..): the verdict is the innermost one, behind all the others
    for cand in cands:
        if not any(o is not cand and o[0].bb in cfg.after(cand[2]) for o in cands): chk = cand
    if chk is None:
        cx.bad("C19.R1", "cert:%s:check-dominates" % S, site, "%s is not dominated by the comparison with the canonical request (no `check` switch whose false edge answers CertificationError)" % what); return
    term, c, te, fe = chk
    # definitions of the check local
    loc = term.discr.place.l
    for _ in range(4):
        ds = du.defs.get(loc, [])
        if len(ds) == 1 and ds[0][0] == "stmt" and ds[0][1].rv == "use" and ds[0][1].ops[0].place is not None: loc = ds[0][1].ops[0].place.l
        elif len(ds) == 1 and ds[0][0] == "stmt" and ds[0][1].rv == "un" and ds[0][1].ops[0].place is not None: loc = ds[0][1].ops[0].place.l
        else: break
    defs = du.defs.get(loc, [])
    eqs = [d for k, d in defs if k == "call"]
    consts = [d for k, d in defs if k == "stmt" and d.rv == "use" and d.ops[0].is_const]
    others = [d for k, d in defs if not (k == "call" or (k == "stmt" and d.rv == "use" and d.ops[0].is_const))]
    if others:
        # the value may come back from a helper through moves: collect its leaves instead
        from vlib.cond import bool_sources
        src = bool_sources(du, loc)
        if src and all(k in ("call", "const") and not n for k, o, n in src):
            eqs = [o for k, o, n in src if k == "call"]
            class _C:       # constant leaf, shaped like the statement the code below expects
                def __init__(self, v):
                    self.ops = [type("O", (), {"cint": staticmethod(lambda v=v: v), "is_const": True})()]
            consts = [_C(o) for k, o, n in src if k == "const"]
            others = []
    why = []
    if any(d.ops[0].cint() != 0 for d in consts): why.append("an arm sets check = true without comparing")
    if others:
        import os
        if os.environ.get("VERIF_DEBUG"): print("DEBUG others", S, loc, others, bool_sources(du, loc))
        why.append("check is computed by something other than a comparison")
    if S == "Start":
        # Start: explicit pattern test; `true` only behind method == literal and empty parameters
        trues = [d for d in consts if d.ops[0].cint() != 0]
        why = [w for w in why if "without comparing" not in w]
        if len(trues) != 1: why.append("Start: expected one accepting arm")
        else:
            meq = [t for t in body.calls("=eq") if IFACE + ".Start" in const_strings(body, sl, t.args[1]) + const_strings(body, sl, t.args[0])]
            if not meq: why.append("Start: the method name is not compared with %s.Start" % IFACE)
            else:
                for b in body.blocks:
                    if b.cleanup or b.term.kind != "switch": continue
                    cc = switch_cond(body, du, b.term)
                    if cc.kind == "call" and cc.term is meq[0]:
                        mte, mfe = bool_edges(b.term, cc)
                        if not cfg.edge_dominates(mte, trues[0].bb): why.append("Start: accepted without the method name test")
            # parameters: absent, or exactly the empty object (anything else, including a non-object value, is a deviation)
            from vlib.cfg import enumerate_paths
            from vlib.pathcond import literals
            paths = enumerate_paths(cfg, 0, lambda blk: blk.idx == trues[0].bb or blk.term.kind == "return", du=du)
            def params_ok(lit):
                if lit.kind != "call" or not lit.truth: return False
                t = lit.obj
                def reads_params(a):
                    if a.place is None: return False
                    if "parameters" in a.place.fields(): return True
                    for l in ref_chain(du, a.place.l):
                        for k, d in du.value_defs(l):
                            if k == "stmt" and d.kind == "assign":
                                for q in ([d.rplace] if d.rplace is not None else []) + [o.place for o in d.ops if o.place is not None]:
                                    if "parameters" in q.fields(): return True
                    return False
                if t.callee.name == "is_none" and "Option" in t.callee.path and t.args and reads_params(t.args[0]): return True
                if t.callee.name == "eq" and len(t.args) == 2 and any(reads_params(a) for a in t.args):
                    other = [a for a in t.args if not reads_params(a)]
                    if other:
                        og = Slice(body, du, extra_pass=("=new",)).origins(other[0])
                        # Some(Value::Object(Map::new())): an Object aggregate whose payload is a freshly created map
                        built = [x for x in body.stmts() if x.kind == "assign" and x.rv == "agg" and isinstance(x.agg, dict) and x.agg.get("variant") == "Object"]
                        newmap = [c for c in body.calls("=new") if "serde_json" in c.callee.path and "Map" in c.callee.path]
                        return bool(built) and bool(newmap)
                return False
            np = 0; badp = 0
            for pth in paths:
                if pth[-1] != trues[0].bb: continue
                np += 1
                if not any(params_ok(l) for l in literals(body, pth)): badp += 1
            if np == 0 or badp: why.append("Start: %d of %d accepting paths have not established `parameters` absent or equal to the empty object (a present non-object value would be accepted)" % (badp, np))
        if why:
            alt = start_by_paths(body, cfg, du, sl, succ)
            if alt is not None and not alt: why = []
            elif alt: why = why + alt
        mode = None
    else:
        def eq_on_args(t):
            if t.callee.name != "eq": return False
            if (S + "_Args") in t.callee.resolved: return True
            # a generic helper compares `&T` with `&T`: the operands handed in by this step have the step's argument type
            for a in t.args:
                if a.place is None: continue
                if any((S + "_Args") in body.ty(l) for l in ref_chain(du, a.place.l)): return True
                if any(k == "call" and o.callee.name == "from_value" and any((S + "_Args") in str(x) for x in o.callee.targs) for k, o in Slice(body, du, extra_pass=("=clone", "=as_ref", "=ok", "=unwrap_or_default")).origins(a)): return True
                # inside an inlined generic helper the operand is a `&T`; the value it was given by this step carries the type
                gs = Slice(body, du, extra_pass=("=clone", "=as_ref"))
                gs.origins(a)
                if any((S + "_Args") in body.ty(l) for l, _ in gs.last_seen): return True
            return False
        if len(eqs) != 1 or not eq_on_args(eqs[0]):
            why.append("check is not `expected == received` on %s_Args (defs: %s)" % (S, [str(d.callee)[:60] for d in eqs]))
        else:
            E = eqs[0]
            # received value: from_value of the request's parameters; expected: built here
            got = Slice(body, du, extra_pass=("=clone",)).origins(E.args[1])
            if not any(k == "call" and o.callee.name == "from_value" for k, o in got): why.append("the received side of the comparison is not the deserialised request parameters")
            # expected must not depend on received parameters (arguments other than client_id)
            seeds = set(range(4, body.argc + 1))
            if seeds:
                T = forward_taint(body, du, seeds)
                exp_locals = set(ref_chain(du, E.args[0].place.l))
                if exp_locals & T:
                    why.append("the expected value is built from a received parameter: a deviating value is compared with itself")
            # method-name test dominates the comparison
            meq = [t for t in body.calls("=eq", "=ne") if len(t.args) == 2 and (IFACE + "." + S) in (const_strings(body, sl, t.args[1]) + const_strings(body, sl, t.args[0]))]
            okm = False
            for t in meq:
                for b in body.blocks:
                    if b.cleanup or b.term.kind != "switch": continue
                    cc = switch_cond(body, du, b.term)
                    if cc.kind == "call" and cc.term is t and cfg.edge_dominates(bool_edges(b.term, cc)[0 if t.callee.name == "eq" else 1], E.bb): okm = True
            cx.check(okm, "C19.R2", "cert:%s:method-literal" % S, site, "the comparison is not guarded by method == %s.%s" % (IFACE, S), note_ok="m == \"%s.%s\"" % (IFACE, S))
            # call mode
            fe_ = flag_true_edges(body, cfg, du)
            dom = {f: any(cfg.edge_dominates(e, E.bb) for e in es) for f, es in fe_.items()}
            reach = {f: any(E.bb in cfg.after(e) for e in es) for f, es in fe_.items()}
            wantm = MODE.get(S)
            okmode = all((dom[f] if f == wantm else not reach[f]) for f in ("more", "oneway", "upgrade")) and all(fe_[f] for f in fe_)
            if not okmode and not any(fe_.values()):
                # no pattern test at all: the flags may be computed as values and combined; decide per path
                fp = flags_on_paths(body, cfg, du, sl, E.bb)
                if fp:
                    okmode = all(all((st[f] is True) if f == wantm else (st[f] is False) for f in ("more", "oneway", "upgrade")) for st in fp)
                    dom = {f: all(st[f] is True for st in fp) for f in dom}; reach = {f: any(st[f] is not False for st in fp) for f in reach}
            cx.check(okmode, "C19.R2", "cert:%s:call-mode" % S, site,
                     "step %s accepts the wrong call modes (required: %s; comparison dominated by flag==true: %s; reachable with flag==true: %s)" % (S, wantm or "none", dom, reach),
                     note_ok="mode %s" % (wantm or "plain call: more/oneway/upgrade rejected"))
    cx.check(not why, "C19.R1", "cert:%s:check-dominates" % S, site, "; ".join(why), note_ok="check==true dominates %s; check = (expected == received) else false" % what)


def check_and_advance_by_paths(body, cfg, du, sl, cmp_call, adv_stmt):
    from vlib import absval
    from vlib.cfg import enumerate_paths
    from vlib.pathcond import literals
    hit = [False]
    paths = enumerate_paths(cfg, 0, lambda blk: blk.term.kind == "return", du=du, on_limit=lambda: hit.__setitem__(0, True))
    if hit[0]: return False
    n = 0; n_true = 0
    for p in paths:
        if p[-1] < 0 or body.blocks[p[-1]].term.kind != "return": continue
        n += 1
        eq = None
        for lit in literals(body, p):
            if lit.kind == "call" and lit.obj is cmp_call: eq = lit.truth == (cmp_call.callee.name == "eq")
        advanced = adv_stmt.bb in p
        st = None
        for kind, b, obj, store in absval.walk(body, du, cfg, p): st = store
        v = st.get(0) if st else None
        if v is None or v[0] != "int": return False
        ret = bool(v[1])
        if ret != (eq is True and advanced): return False
        if advanced and eq is not True: return False
        n_true += ret
    return n > 0 and n_true > 0


def r3(cx):
    ci = cx.mir.one(PKG, "CertInterface::check_client_id")
    cx.saw(ci)
    locks = [t for t in ci.calls("=write", "=read", "=lock") if "RwLock" in t.callee.path or "Mutex" in t.callee.path]
    inner = ci.calls("=check_client_id")
    cfg = Cfg(ci); du = DefUse(ci)
    good = len(locks) == 1 and locks[0].callee.name == "write" and len(inner) == 1 and cfg.dominates(locks[0].bb, inner[0].bb)
    if good:
        g = {locks[0].dest.l} | {t.dest.l for t in ci.calls("=unwrap") if any(k == "call" and o is locks[0] for k, o in Slice(ci, du).origins(t.args[0]))}
        from vlib.cfg import release_blocks
        drops = release_blocks(ci, DefUse(ci), g)
        good = not any(inner[0].bb in cfg.reach(ci.blocks[d].term.target) for d in drops)
    cx.check(good, "C19.R3", "cert:check_client_id:one-critical-section", ci.sp, "compare and advance are not under one write lock", note_ok="write lock held across compare + advance")
    cc = cx.mir.one(PKG, "ClientIds::check_client_id")
    cx.saw(cc)
    ccfg = Cfg(cc); cdu = DefUse(cc); csl = Slice(cc, cdu)
    ne = [t for t in cc.calls("=ne", "=eq")]
    # the advance: a store into (a field of) the context obtained from the lookup, whatever the field is called
    from vlib.facts import Place
    def from_lookup(l): return any(k == "call" and o.callee.name in ("get_mut", "entry", "index_mut", "or_insert", "or_insert_with") for k, o in csl.origins(Place({"l": l, "p": []})))
    adv = [s for s in cc.stmts() if s.kind == "assign" and s.lhs.p and "*" in s.lhs.p and s.lhs.fields() and from_lookup(s.lhs.l)]
    trues = [s for s in cc.stmts() if s.kind == "assign" and s.lhs.l == 0 and s.rv == "use" and s.ops[0].is_const and s.ops[0].cint() == 1]
    why = []
    if (len(ne) != 1 or len(adv) != 1 or len(trues) != 1) and len(ne) == 1 and len(adv) == 1 and check_and_advance_by_paths(cc, ccfg, cdu, csl, ne[0], adv[0]):
        # the answer is computed (`.filter(..).map(..).is_some()`): decided on the paths — true is returned exactly on the paths that
        # found the step equal and advanced it
        if not any(k == "arg" and o == 4 for k, o in Slice(cc, cdu, extra_pass=("=into",)).origins(adv[0].ops[0])): why.append("the step is not advanced to next_test")
        if not any(k == "arg" and o == 3 for a in ne[0].args for k, o in csl.origins(a)): why.append("the comparison is not against the expected step")
        gm = cc.calls("=get_mut") + cc.calls("=get")
        if not gm or not any(k == "arg" and o == 2 for k, o in csl.origins(gm[0].args[1])): why.append("the context is not looked up by the client id")
    elif len(ne) != 1 or len(adv) != 1 or len(trues) != 1: why.append("expected one comparison of context.test, one advance and one `true` (found %d/%d/%d)" % (len(ne), len(adv), len(trues)))
    else:
        for b in cc.blocks:
            if b.cleanup or b.term.kind != "switch": continue
            c = switch_cond(cc, cdu, b.term)
            if c.kind == "call" and c.term is ne[0]:
                te, fe = bool_edges(b.term, c)
                same = fe if ne[0].callee.name == "ne" else te
                if not ccfg.edge_dominates(same, adv[0].bb) or not ccfg.edge_dominates(same, trues[0].bb): why.append("the step is advanced / accepted without `context.test == test`")
        # advance to the next_test argument (arg 4), compared with test (arg 3)
        if not any(k == "arg" and o == 4 for k, o in Slice(cc, cdu, extra_pass=("=into",)).origins(adv[0].ops[0])): why.append("the step is not advanced to next_test")
        if not any(k == "arg" and o == 3 for a in ne[0].args for k, o in csl.origins(a)): why.append("the comparison is not against the expected step")
        gm = cc.calls("=get_mut") + cc.calls("=get")
        if not gm or not any(k == "arg" and o == 2 for k, o in csl.origins(gm[0].args[1])): why.append("the context is not looked up by the client id")
    cx.check(not why, "C19.R3", "cert:ClientIds::check_client_id:compare-then-advance", cc.sp, "; ".join(why), note_ok="contexts[client_id].test == test ? (test = next_test; true) : false; unknown id -> false")
    nc = cx.mir.one(PKG, "ClientIds::new_client_id")
    sl = Slice(nc)
    lits = [c for t in nc.calls("=into") for a in t.args for c in const_strings(nc, sl, a)]
    # ... or the first variant of a step enum, stored in the context that is inserted
    for st in nc.stmts():
        if st.kind == "assign" and st.rv == "agg" and isinstance(st.agg, dict) and "TestContext" in st.agg.get("adt", ""):
            for o in st.ops:
                for k, v in sl.origins(o):
                    if k == "const" and v.const and v.const.get("val"): lits.append(str(v.const["val"]).split("::")[-1])
                    if k == "agg" and isinstance(v.agg, dict) and v.agg.get("variant"): lits.append(v.agg["variant"])
    cx.check("Test01" in lits, "C19.R3", "cert:new_client_id:starts-at-Test01", nc.sp, "a new client does not start at Test01 (%s)" % lits, note_ok="new client -> Test01")

    # ids of concurrent clients must differ: the id is derived from a clock read taken under the write lock, at full resolution
    coarse = [t for t in nc.calls("=as_millis", "=as_secs", "=subsec_millis", "=as_secs_f32", "=as_secs_f64", "=as_micros", "=subsec_micros")]
    clock = [t for t in nc.calls("=now")]
    ctr = [t for t in nc.calls("=fetch_add")] + [s2 for s2 in nc.stmts() if s2.kind == "assign" and s2.rv == "bin" and s2.op.startswith("Add")]
    hashed = nc.calls("=hash") + nc.calls("=finish")
    cni = cx.mir.one(PKG, "CertInterface::new_client_id")
    locked = any(("RwLock" in t.callee.path or "Mutex" in t.callee.path) and t.callee.name == "write" for t in cni.calls("=write"))
    good = locked and ((bool(clock) and not coarse) or bool(ctr))
    cx.check(good, "C19.R3", "cert:new_client_id:distinct-ids", nc.sp,
             "client ids are derived from a clock value truncated by %s (or not under the write lock): two Start calls served in the same tick get the same id and then share one step counter" % [t.callee.name for t in coarse],
             note_ok="id = hash(full-resolution clock read), generated under the write lock (reads are serialised, hence distinct)")
